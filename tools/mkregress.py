#!/usr/bin/env python3
"""Pick shrunk reproductions from /verif/replays (git-ignored, produced while defects and mutants were being
found) as the committed regression tier /verif/regress/<ID>/: up to N per (property, sub-check) with distinct
keys, smallest first. Each candidate must pass on the current tree (it reproduces something that is fixed or a
mutant that is not applied); candidates that do not pass are reported, not copied."""
import json, glob, os, subprocess, sys, collections, shutil
LIMIT = {"inproc": 8, "e2e": 2}
E2E_SUBS = {"sockets", "e2e-routing", "hostile-sessions", "replies", "tls-matrix", "paths", "idle", "stalls", "api-history", "histories", "outage", "binary", "post-rules", "ladder"}
SKIP = {"outage", "tls-matrix", "hostile-sessions", "ladder"}
by = collections.defaultdict(dict)
for f in glob.glob("/verif/replays/*.json"):
    try:
        d = json.load(open(f))
    except Exception:
        continue
    k = (d.get("property"), d.get("sub"))
    key = d.get("key")
    if not all(k) or not key or d["sub"] in SKIP:
        continue
    sz = os.path.getsize(f)
    if key not in by[k] or sz < by[k][key][0]:
        by[k][key] = (sz, f)
bad = []
for (prop, sub), keys in sorted(by.items()):
    lim = LIMIT["e2e" if sub in E2E_SUBS else "inproc"]
    picks = sorted(keys.items(), key=lambda kv: kv[1][0])[:lim]
    for key, (sz, f) in picks:
        r = subprocess.run(["/verif/check", prop, "--replay", f], stdout=subprocess.PIPE, stderr=subprocess.STDOUT, text=True)
        ok = r.returncode == 0 and "replay passed" in r.stdout
        name = "%s-%s.json" % (sub, "".join(c if c.isalnum() else "-" for c in key)[:70])
        if ok:
            os.makedirs("/verif/regress/%s" % prop, exist_ok=True)
            shutil.copy(f, "/verif/regress/%s/%s" % (prop, name))
            print("ok  ", prop, sub, key, sz, flush=True)
        else:
            bad.append((prop, sub, key, f, r.stdout[-300:]))
            print("FAIL", prop, sub, key, f, r.stdout[-200:].replace("\n", " | "), flush=True)
print("not copied:", len(bad))
