#!/bin/bash
# run every thorough tier once, sequentially; log per property under /verif/.build/thorough/
cd /verif; mkdir -p .build/thorough
for p in ${@:-C03 C09 C11 C12 C17 C02 C08 C05 C07 C15 C16 C06 C10 C13 C14 C04 C01 C18 C19}; do
  t0=$(date +%s)
  ./check $p thorough > .build/thorough/$p.log 2>&1; rc=$?
  echo "$p thorough exit=$rc $(( $(date +%s) - t0 ))s $(tail -1 .build/thorough/$p.log)"
done
