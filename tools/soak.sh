#!/bin/bash
# usage: soak.sh <rounds> [load]  — run every quick check <rounds> times (optionally under CPU load), print non-zero exits
rounds=${1:-1}; load=${2:-0}
cd /verif
pids=()
if [ "$load" -gt 0 ]; then for i in $(seq $load); do (while :; do :; done) & pids+=($!); done; fi
trap 'kill "${pids[@]}" 2>/dev/null' EXIT
for r in $(seq $rounds); do
  for p in C01 C02 C03 C04 C05 C06 C07 C08 C09 C10 C11 C12 C13 C14 C15 C16 C17 C18 C19; do
    out=$(VERIF_SEED=$((r*1000+RANDOM%1000)) ./check $p quick 2>&1); rc=$?
    line=$(echo "$out" | tail -1)
    echo "round=$r $line"
    if [ $rc -ne 0 ]; then echo "$out" | grep -A1 "VIOLATION\|infrastructure\|inconclusive" | head -8 | cut -c1-500; fi
  done
done
