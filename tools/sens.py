#!/usr/bin/env python3
"""Sensitivity runs: apply one hand-written mutant to /repo's working tree, run the quick tier of the
properties it should break, revert (always). Usage: tools/sens.py [name-substring ...]
A mutant is (name, file, old, new, [properties expected to fail])."""
import subprocess, sys, os, json, time

M = []
def m(name, file, old, new, props):
    M.append((name, file, old, new, props))

# ---- C11
m("c11-completion-popcount", "src/common/fragment.rs", "return !self.bitmap == 0;", "return (!self.bitmap).count_ones() <= 1;", ["C11"])
m("c11-dup-overwrites", "src/common/fragment.rs", "if this < self.fragments.len() && self.bitmap & (1 << this) == 0 {", "if this < self.fragments.len() {", ["C11"])
m("c11-timer-keeps-queue", "src/common/fragment.rs", "                    entry.remove();\n", "                    let _ = &entry;\n", ["C11"])
m("c11-header-order", "src/common/fragment.rs", "            buf.put_u8(self.total);\n            buf.put_u8(self.next);", "            buf.put_u8(self.next);\n            buf.put_u8(self.total);", ["C11"])
m("c11-total-129", "src/common/fragment.rs", "const MAX_FRAGMENTS: usize = 128;", "const MAX_FRAGMENTS: usize = 129;", ["C11"])
# ---- C12
m("c12-frame-ge-eq", "src/common/frames.rs", "if buf.len() >= ret {", "if buf.len() == ret {", ["C12"])
m("c12-read-not-exact", "src/common/socks.rs", "    io.read_exact(&mut buf).await.context(\"data\")?;", "    let n = io.read(&mut buf).await.context(\"data\")?;\n    buf.truncate(n);", ["C12"])
m("c12-unsplit-order", "src/common/frames.rs", "            last.unsplit(buf);\n            self.remaining = Some(last);", "            buf.unsplit(last);\n            self.remaining = Some(buf);", ["C12"])
m("c12-nul-eof-ok", "src/common/socks.rs", "    if buf.pop() != Some(0) {\n        bail!(\"unexpected EOF in null terminated string\");\n    }", "    buf.pop();", ["C12"])

def run(name, file, old, new, props):
    path = os.path.join("/repo", file)
    src = open(path).read()
    if old not in src:
        return name, "STALE (pattern not found)", []
    open(path, "w").write(src.replace(old, new, 1))
    res = []
    try:
        for p in props:
            t0 = time.time()
            r = subprocess.run(["/verif/check", p, "quick"], stdout=subprocess.PIPE, stderr=subprocess.STDOUT, text=True)
            keys = [l.strip() for l in r.stdout.splitlines() if l.strip().startswith("sub=")]
            res.append((p, r.returncode, round(time.time() - t0, 1), keys[:3]))
    finally:
        open(path, "w").write(src)
    ok = all(rc == 1 for _, rc, _, _ in res)
    return name, "caught" if ok else "MISSED", res

if __name__ == "__main__":
    pats = sys.argv[1:]
    status = subprocess.run(["git", "-C", "/repo", "status", "--porcelain"], stdout=subprocess.PIPE, text=True).stdout.strip()
    if status:
        print("refusing: /repo has uncommitted changes:\n" + status); sys.exit(2)
    out = []
    for mm in M:
        if pats and not any(p in mm[0] for p in pats):
            continue
        r = run(*mm)
        print(r[0], r[1], r[2], flush=True)
        out.append(r)
    subprocess.run(["git", "-C", "/repo", "checkout", "--", "."])
    missed = [r[0] for r in out if r[1] != "caught"]
    print("MISSED:", missed)
