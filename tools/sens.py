#!/usr/bin/env python3
"""Sensitivity runs: apply one hand-written mutant to /repo's working tree, run the quick tier of the
properties it should break, revert (always). Usage: tools/sens.py [name-substring ...]
A mutant is (name, file, old, new, [properties expected to fail]).
With VERIF_ONLY=e2e|inproc in the environment the checks run only that engine (what does the end-to-end part catch
on its own?); those verdicts are logged under the key "<name>@<engine>"."""
import subprocess, sys, os, json, time

M = []
def m(name, file, old, new, props):
    M.append((name, file, old, new, props))

# ---- C11
m("c11-completion-popcount", "src/common/fragment.rs", "return !self.bitmap == 0;", "return (!self.bitmap).count_ones() <= 1;", ["C11"])
m("c11-dup-overwrites", "src/common/fragment.rs", "if this < self.fragments.len() && self.bitmap & (1 << this) == 0 {", "if this < self.fragments.len() {", ["C11"])
m("c11-timer-keeps-queue", "src/common/fragment.rs", "                    entry.remove();\n", "                    let _ = &entry;\n", ["C11"])
m("c11-header-order", "src/common/fragment.rs", "            buf.put_u8(self.total);\n            buf.put_u8(self.next);", "            buf.put_u8(self.next);\n            buf.put_u8(self.total);", ["C11"])
m("c11-total-129", "src/common/fragment.rs", "const MAX_FRAGMENTS: usize = 128;", "const MAX_FRAGMENTS: usize = 129;", ["C11"])
# ---- C12
m("c12-frame-ge-eq", "src/common/frames.rs", "if buf.len() >= ret {", "if buf.len() == ret {", ["C12"])
m("c12-read-not-exact", "src/common/socks.rs", "    io.read_exact(&mut buf).await.context(\"data\")?;", "    let n = io.read(&mut buf).await.context(\"data\")?;\n    buf.truncate(n);", ["C12"])
m("c12-unsplit-order", "src/common/frames.rs", "            last.unsplit(buf);\n            self.remaining = Some(last);", "            buf.unsplit(last);\n            self.remaining = Some(buf);", ["C12"])
m("c12-nul-eof-ok", "src/common/socks.rs", "    if buf.pop() != Some(0) {\n        bail!(\"unexpected EOF in null terminated string\");\n    }", "    buf.pop();", ["C12"])

# ---- C03
m("c03-v5-silent-truncate", "src/common/socks.rs", "                bail!(\"domain name too long for socks5: {} bytes\", domain.len());", "                let _ = domain;", ["C03"])
m("c03-frame-port-le", "src/common/frames.rs", "            buf.put_slice(str);\n            buf.put_u16(*port);", "            buf.put_slice(str);\n            buf.put_u16_le(*port);", ["C03"])
m("c03-host-header-hostonly", "src/common/h11c.rs", "            HttpRequest::new(\"CONNECT\", &target)\n                .with_header(\"Host\", &target)", "            HttpRequest::new(\"CONNECT\", &target)\n                .with_header(\"Host\", target.host())", ["C03"])
m("c03-lossy-again", "src/common/socks.rs", "    io.read_exact(&mut buf).await.context(\"data\")?;\n    String::from_utf8(buf).context(\"invalid utf8 string\")", "    io.read_exact(&mut buf).await.context(\"data\")?;\n    Ok(String::from_utf8_lossy(&buf).to_string())", ["C03"])
m("c03-connect-ctl-ok", "src/common/h11c.rs", "if host.chars().any(|c| c.is_ascii_whitespace() || c.is_control()) {", "if host.chars().any(|c| c == ' ') {", ["C03"])
m("c03-udp-domain-len", "src/common/socks.rs", "                body.put_u8(bytes.len() as u8);\n                body.extend_from_slice(bytes);", "                body.put_u8(bytes.len() as u8 + 1);\n                body.extend_from_slice(bytes);", ["C03"])
m("c03-v4-ip-order", "src/common/socks.rs", "                    (v4.octets(), a.port(), None)", "                    ({ let mut o = v4.octets(); o.reverse(); o }, a.port(), None)", ["C03"])
# ---- C05
m("c05-session-unwrap", "src/common/h11c.rs", "                .parse()\n                .context(\"invalid Session-Id from upstream server\")?;", "                .parse()\n                .unwrap();", ["C05"])
m("c05-frombuffer-unwrap", "src/common/frames.rs", "let ret = Frame::from_buffer(buf)?;", "let ret = Frame::from_buffer(buf).unwrap();", ["C05"])
m("c05-attr-len-check", "src/common/frames.rs", "    if len > buf.len() {\n        return Err(IoError::new(ErrorKind::InvalidInput, \"bad header\"));\n    }\n    match tag {", "    match tag {", ["C05"])
m("c05-short-datagram", "src/common/fragment.rs", "        if buf.len() < 4 {\n            return None;\n        }", "", ["C05", "C11"])
m("c05-udp-v6-len", "src/common/socks.rs", "                if body.len() < 18 {", "                if body.len() < 16 {", ["C05"])

# ---- C09
m("c09-swap-5-6", "milu/src/parser.rs", 'op_rule!(op_6, op_7, alt((tag("*"), tag("/"), tag("%"),)));\nop_rule!(op_5, op_6, alt((tag("+"), tag("-"))));', 'op_rule!(op_6, op_7, alt((tag("+"), tag("-"))));\nop_rule!(op_5, op_6, alt((tag("*"), tag("/"), tag("%"),)));', ["C09"])
m("c09-ge-shadowed", "milu/src/parser.rs", 'alt((tag(">="), tag(">"), tag("<="), tag("<")))', 'alt((tag(">"), tag(">="), tag("<="), tag("<")))', ["C09"])
m("c09-fold-right", "milu/src/parser.rs", "                let ret = expr.into_iter().try_fold(p1, |p1, val| {\n                    let (op, p2) = val;\n                    check_depth(i, parse2(op, p1, p2))\n                })?;\n                Ok((rest, ret))\n            }\n        });\n    };\n}\n", "                let ret = {\n                    let mut vals = vec![p1];\n                    let mut ops = vec![];\n                    for (o, v) in expr {\n                        ops.push(o);\n                        vals.push(v);\n                    }\n                    let mut r = vals.pop().unwrap();\n                    while let Some(o) = ops.pop() {\n                        let l = vals.pop().unwrap();\n                        r = check_depth(i, parse2(o, l, r))?;\n                    }\n                    r\n                };\n                Ok((rest, ret))\n            }\n        });\n    };\n}\n", ["C09"])
m("c09-no-inline-comment", "milu/src/parser.rs", "recognize(many0(alt((multispace1, eol_comment, inline_comment))))(i)", "recognize(many0(alt((multispace1, eol_comment))))(i)", ["C09"])
m("c09-xor-above-and", "milu/src/parser.rs", 'op_rule!(op_2, op_2_3, alt((tag("&&"), tag_no_case("and"))));\nop_rule!(op_1_5, op_2, alt((tag("^^"), tag_no_case("xor"))));', 'op_rule!(op_2, op_2_3, alt((tag("^^"), tag_no_case("xor"))));\nop_rule!(op_1_5, op_2, alt((tag("&&"), tag_no_case("and"))));', ["C09"])
m("c09-and-case-sensitive", "milu/src/parser.rs", 'alt((tag("&&"), tag_no_case("and")))', 'alt((tag("&&"), tag("and")))', ["C09"])
m("c09-unary-binds-looser", "milu/src/parser.rs", "                let _guard = NestingGuard::enter(i)?;\n                op_7(i)\n            })),\n            |(op,p1)|parse1(op, p1)", "                let _guard = NestingGuard::enter(i)?;\n                op_5(i)\n            })),\n            |(op,p1)|parse1(op, p1)", ["C09"])
m("c09-cond-left-assoc", "milu/src/parser.rs", "                preceded(ws(tag(\"?\")),op_0),\n                preceded(ws(tag(\":\")),op_0),", "                preceded(ws(tag(\"?\")),op_0),\n                preceded(ws(tag(\":\")),op_1),", ["C09"])
m("c09-mod-is-div", "milu/src/parser.rs", '"%" => Mod::make_call(p1, p2).into(),', '"%" => Divide::make_call(p1, p2).into(),', ["C09"])

# ---- C08
m("c08-type-eq-int-str", "milu/src/script.rs", "            (String, String) => true,", "            (String, String) => true,\n            (Integer, String) => true,", ["C08"])
m("c08-if-no-branch-check", "milu/src/script/stdlib.rs", "        match yes.unify(&no) {\n            Some(t) => Ok(t),\n            None => bail!(\"Condition return type must be same: {:?} {:?}\", yes, no),\n        }", "        let _ = no;\n        Ok(yes)", ["C08"])
m("c08-minus-is-plus", "milu/src/script/stdlib.rs", 'checked_int_op!(Minus, "-", i64::checked_sub);', 'checked_int_op!(Minus, "-", i64::checked_add);', ["C08"])
m("c08-member-raw-elements", "milu/src/script/stdlib.rs", "let iter = vec.iter().map(|v| v.real_value_of(ctx.clone()));", "let iter = vec.iter().map(|v| v.value_of(ctx.clone()));", ["C08"])
m("c08-port-string", "src/rules/script_ext.rs", '            "port" => Ok(Type::Integer),', '            "port" => Ok(Type::String),', ["C08"])
m("c08-div-unchecked", "milu/src/script/stdlib.rs", '            if b == 0 {\n                bail!("division by zero: {} {} {}", a, $op, b)\n            }', '', ["C08"])
m("c08-shift-masked", "milu/src/script/stdlib.rs", 'checked_int_op!(ShiftLeft, "<<", |a, b| shift_count(b).and_then(|b| a.checked_shl(b)));', 'checked_int_op!(ShiftLeft, "<<", |a, b| Some(a.wrapping_shl(b as u32 + 1)));', ["C08"])
m("c08-and-not-lazy", "milu/src/script/stdlib.rs", "    let ret:bool = a && b.real_value_of(ctx)?.try_into()?;", "    let b:bool = b.real_value_of(ctx)?.try_into()?;\n    let ret:bool = a && b;", ["C08"])
m("c08-tuple-access-no-check", "milu/src/script/stdlib.rs", '                if *index < 0 || *index as usize >= t.len() {\n                    bail!("tuple index out of range: {}", index)\n                }\n                Ok(t.remove(*index as usize))', '                Ok(t.remove(*index as usize))', ["C08"])
m("c08-lesser-is-le", "milu/src/script/stdlib.rs", "compare_op!(Lesser, <);", "compare_op!(Lesser, <=);", ["C08"])
m("c08-index-raw-member", "milu/src/script/stdlib.rs", "        obj.get(index)?.real_value_of(ctx)", "        obj.get(index)?.value_of(ctx)", ["C08"])
m("c08-to-integer-any", "milu/src/script/stdlib.rs", "function!(ToInteger(s: String)=>Integer, {", "function!(ToInteger(s: Any)=>Integer, {", ["C08"])

# ---- C02
m("c02-last-match", "src/main.rs", "state.rules().await.iter().find_map(|x| {", "state.rules().await.iter().rev().find_map(|x| {", ["C02"])
m("c02-error-is-true", "src/rules/mod.rs", "                    trace!(\"error evaluating filter: {:?}\", e);\n                    false", "                    trace!(\"error evaluating filter: {:?}\", e);\n                    true", ["C02"])
m("c02-skip-feature-gate", "src/main.rs", "    if !connector.has_feature(feature) {", "    if false && !connector.has_feature(feature) {", ["C02"])
m("c02-deny-falls-through", "src/main.rs", "            if x.evaluate(ctx) {\n                Some(x.target.clone())", "            if x.evaluate(ctx) && x.target.is_some() {\n                Some(x.target.clone())", ["C02"])
m("c02-listener-is-connector", "src/rules/script_ext.rs", '            "listener" => Ok(self.req.listener.clone().into()),', '            "listener" => Ok(self.req.connector.as_deref().unwrap_or("").into()),', ["C02"])
m("c02-cidr-parse-fail-true", "src/rules/script_ext.rs", '        warn!("can not parse ip: {}", s_ip);\n        return Ok(false.into())', '        warn!("can not parse ip: {}", s_ip);\n        return Ok(true.into())', ["C02"])
m("c02-source-host-is-target", "src/rules/script_ext.rs", '            "source" => Ok(SocketAddress(self.req.source).into()),', '            "source" => Ok(self.req.target.clone().into()),', ["C02"])
m("c02-filterless-never", "src/rules/mod.rs", "        let ret = if self.filter.is_none() {\n            true", "        let ret = if self.filter.is_none() {\n            false", ["C02"])
m("c02-feature-default", "src/connectors/mod.rs", "        self.features().contains(&feature)", "        self.features().contains(&feature) || feature == Feature::UdpBind", ["C02"])

# ---- C17
m("c17-rr-load-store", "src/connectors/loadbalance.rs", "        let next = self.idx.fetch_add(1, Ordering::Relaxed);", "        let next = self.idx.load(Ordering::Relaxed);\n        std::thread::yield_now();\n        self.idx.store(next + 1, Ordering::Relaxed);", ["C17"])
m("c17-random-skips-first", "src/connectors/loadbalance.rs", "let next = self.connectors.choose(&mut thread_rng()).unwrap();", "let next = self.connectors[self.connectors.len().min(2) - 1..].choose(&mut thread_rng()).unwrap();", ["C17"])
m("c17-record-lb-name", "src/connectors/loadbalance.rs", "        ctx.write().await.set_connector(next);", "        ctx.write().await.set_connector(self.name.clone());\n        let _ = next;", ["C17"])
m("c17-rr-off-by-one", "src/connectors/loadbalance.rs", "        let next = &self.connectors[next % self.connectors.len()];\n        Ok(state.connectors.get(next).unwrap().clone())\n    }\n\n    async fn hash_by", "        let next = &self.connectors[next % self.connectors.len().max(2).saturating_sub(1).max(1).min(self.connectors.len())];\n        Ok(state.connectors.get(next).unwrap().clone())\n    }\n\n    async fn hash_by", ["C17"])

m("c17-hash-mixes-port", "src/connectors/loadbalance.rs", '        let ctx = create_context(ctx.read().await.props().clone());\n        let result = self.hash_by.as_ref().unwrap().real_value_of(ctx.into())?;\n        let mut hasher = std::collections::hash_map::DefaultHasher::new();\n        use std::hash::Hasher;\n        result.hash(&mut hasher);', '        let cid = ctx.read().await.props().source.port();\n        let ctx = create_context(ctx.read().await.props().clone());\n        let result = self.hash_by.as_ref().unwrap().real_value_of(ctx.into())?;\n        let mut hasher = std::collections::hash_map::DefaultHasher::new();\n        use std::hash::Hasher;\n        result.hash(&mut hasher);\n        cid.hash(&mut hasher);', ["C17"])

# ---- C01 / C04 / C16 (in-process relay)
m("c01-skip-client-drain", "src/copy.rs", "        let len = drain_buffers(&mut client, &mut server)\n            .await\n            .context(\"failed to drain client buffers\")?;", "        let len = 0usize;", ["C01"])
m("c01-short-write-on-full-buffer", "src/copy.rs", "dst.stream.as_mut().unwrap().write_all(&sbuf[..len]).await", "dst.stream.as_mut().unwrap().write_all(&sbuf[..if len == params.buffer_size && len > 1 { len - 1 } else { len }]).await", ["C01"])
m("c01-drain-server-to-server", "src/copy.rs", "        let len = drain_buffers(&mut server, &mut client)", "        let len = drain_buffers(&mut client, &mut server)", ["C01"])
m("c04-no-shutdown", "src/copy.rs", "    if let Some(mut s) = dst.stream {\n        s.shutdown()\n            .await\n            .with_context(|| format!(\"shutdown {})\", dst.name))?;\n    }", "    let _ = &dst.stream;", ["C04"])
m("c04-return-on-first-eof", "src/copy.rs", "    while c2s.is_none() || s2c.is_none() {", "    while c2s.is_none() && s2c.is_none() {", ["C04", "C01"])
m("c04-eof-on-zero-len-only-once", "src/copy.rs", "                } else {\n                    break;\n                }\n            }\n            ret = async {src.frames", "                } else if sbuf.len() > 1 {\n                    break;\n                }\n            }\n            ret = async {src.frames", ["C04"])
m("c16-no-terminated", "src/main.rs", "        ctx.write().await.set_state(ContextState::Terminated);", "", ["C16"])
m("c16-swap-shutdown-states", "src/copy.rs", "                ctx.write().await.set_state(ContextState::ClientShutdown);", "                ctx.write().await.set_state(ContextState::ServerShutdown);", ["C16"])
m("c16-count-minus-one", "src/copy.rs", "                    stat.incr_sent_bytes(len);\n                    #[cfg(feature = \"metrics\")]\n                    counter.inc_by(len as u64);\n                } else {\n                    break;\n                }\n            }\n            ret = async {src.frames", "                    stat.incr_sent_bytes(len - 1);\n                    #[cfg(feature = \"metrics\")]\n                    counter.inc_by(len as u64);\n                } else {\n                    break;\n                }\n            }\n            ret = async {src.frames", ["C16"])
m("c16-error-text-dropped", "src/context.rs", "            .set_state(ContextState::ErrorOccured)\n            .set_error(format!(\"{} cause: {:?}\", error, error.cause));", "            .set_state(ContextState::ErrorOccured);", ["C16"])
m("c16-early-data-uncounted", "src/copy.rs", "        if len > 0 {\n            client_stat.incr_sent_bytes(len);\n        }", "", ["C16"])

# ---- C06
m("c06-body-not-flushed", "src/common/http.rs", "        socket.write_all(body).await.context(\"write error\")?;\n        socket.flush().await.context(\"flush\")", "        socket.write_all(body).await.context(\"write error\")?;\n        Ok(())", ["C06"])
m("c06-socks-reply-not-flushed", "src/common/socks.rs", "            _ => bail!(\"not supported version: {}\", self.version),\n        }?;\n        socket.flush().await.context(\"flush\")\n    }\n    pub async fn write_v4<IO: RW>(&self, socket: &mut IO) -> Result<(), Error> {", "            _ => bail!(\"not supported version: {}\", self.version),\n        }?;\n        Ok(())\n    }\n    pub async fn write_v4<IO: RW>(&self, socket: &mut IO) -> Result<(), Error> {", ["C06"])
m("c06-on-connect-before-connect", "src/main.rs", "    if let Err(e) = connector.connect(state.clone(), ctx.clone()).await {", "    ctx.on_connect().await;\n    if let Err(e) = connector.connect(state.clone(), ctx.clone()).await {", ["C06"])
m("c06-accept-2xx-3xx", "src/common/h11c.rs", "            if resp.code != 200 {\n                bail!(\"upstream server failure: {:?}\", resp);\n            }\n            ctx.write()", "            if resp.code >= 400 {\n                bail!(\"upstream server failure: {:?}\", resp);\n            }\n            ctx.write()", ["C06"])
m("c06-socks-upstream-any-rep", "src/connectors/socks.rs", "        if resp.cmd != SOCKS_REPLY_OK {", "        if resp.cmd > 90 {", ["C06"])
m("c06-deny-no-reply", "src/main.rs", "        info!(\"explicitly denied: {}\", ctx.to_string().await);\n        return ctx.on_error(err_msg(\"access denied\")).await;", "        info!(\"explicitly denied: {}\", ctx.to_string().await);\n        return;", ["C06"])
m("c06-socks4-always-90", "src/common/socks.rs", "let cmd = if self.cmd == 0 { 90 } else { 91 }; //map v5 response code to v4", "let cmd = if self.cmd <= 1 { 90 } else { 91 }; //map v5 response code to v4", ["C06"])
m("c06-bind-ignored", "src/listeners/socks.rs", "            SOCKS_CMD_BIND => {\n                ctx.on_error(err_msg(\"not supported\")).await;", "            SOCKS_CMD_BIND => {", ["C06"])
# ---- C13
m("c13-and-to-or", "src/copy.rs", "server_stat.is_timeout(idle_timeout) && client_stat.is_timeout(idle_timeout)", "server_stat.is_timeout(idle_timeout) || client_stat.is_timeout(idle_timeout)", ["C13"])
m("c13-zero-not-disabled", "src/context.rs", "        if timeout.is_zero() {\n            return false;\n        }", "", ["C13"])
m("c13-udp-uses-idle", "src/listeners/socks.rs", "                    .set_idle_timeout(state.timeouts.udp);", "                    .set_idle_timeout(state.timeouts.idle);", ["C13"])
m("c13-reverse-udp-no-timeout", "src/listeners/reverse.rs", "                .set_idle_timeout(state.timeouts.udp)\n", "", ["C13"])
m("c13-default-before-config", "src/main.rs", "        st_mut.timeouts = cfg.timeouts;\n        ctx_mut.default_timeout = st_mut.timeouts.idle;", "        ctx_mut.default_timeout = st_mut.timeouts.idle;\n        st_mut.timeouts = cfg.timeouts;", ["C13"])
m("c13-ms-vs-s", "src/context.rs", "        now - last_read > timeout.as_millis() as u64", "        now - last_read > timeout.as_secs()", ["C13"])
m("c13-double-timeout", "src/context.rs", "        Duration::from_secs(self.props.idle_timeout)", "        Duration::from_secs(self.props.idle_timeout * 2)", ["C13"])

# ---- C14
m("c14-handshake-holds-lock", "src/common/h11c.rs", "    let mut socket = ctx.write().await.take_client_stream();\n    let request = HttpRequest::read_from(&mut socket).await;\n    let mut ctx_lock = ctx.write().await;\n    ctx_lock.set_client_stream(socket);\n    let request = request?;\n    let socket = ctx_lock.borrow_client_stream().unwrap();", "    let mut ctx_lock = ctx.write().await;\n    let socket = ctx_lock.borrow_client_stream().unwrap();\n    let request = HttpRequest::read_from(socket).await?;", ["C14"])
m("c14-socks-handshake-under-registry-lock", "src/listeners/socks.rs", "        let request = match SocksRequest::read_from(&mut socket, auth_server).await {\n", "        let guard = state.contexts.alive.lock().await;\n        let read = SocksRequest::read_from(&mut socket, auth_server).await;\n        drop(guard);\n        let request = match read {\n", ["C14"])
m("c14-accept-inline-handshake", "src/listeners/http.rs", "                    tokio::spawn(async move {\n                        let res = match this.create_context(state, source, socket).await {", "                    let _inline = (async move {\n                        let res = match this.create_context(state, source, socket).await {", [])
# ---- C15
m("c14-quic-handshake-in-accept-loop", "src/listeners/quic.rs", "            tokio::spawn(async move {\n                match conn.await.context(\"connection\") {\n                    Ok(conn) => this.client_thread(conn, source, state, queue).await,\n                    Err(e) => {\n                        warn!(\"{}, Accept error: {}: cause: {:?}\", this.name, e, e.cause);\n                    }\n                }\n            });\n", "            match conn.await.context(\"connection\") {\n                Ok(conn) => {\n                    tokio::spawn(this.client_thread(conn, source, state, queue));\n                }\n                Err(e) => {\n                    warn!(\"{}, Accept error: {}: cause: {:?}\", this.name, e, e.cause);\n                }\n            }\n", ["C14"])
m("c15-assign-before-resolve", "src/main.rs", "        let connectors = &self.connectors;\n        rules.iter_mut().try_for_each(move |r| {", "        *self.rules.write().await = rules.clone();\n        let connectors = &self.connectors;\n        rules.iter_mut().try_for_each(move |r| {", ["C15"])
m("c15-clear-then-push", "src/main.rs", "        *self.rules.write().await = rules;\n        Ok(())", "        self.rules.write().await.clear();\n        for r in rules {\n            tokio::task::yield_now().await;\n            self.rules.write().await.push(r);\n        }\n        Ok(())", ["C15"])
m("c15-unknown-target-is-deny", "src/main.rs", "                Err(err_msg(format!(\"target not found: {}\", r.target_name())))", "                Ok(())", ["C15"])
m("c15-skip-validate", "src/rules/mod.rs", "            filter.validate()?;", "", ["C15"])
m("c15-get-rules-reversed", "src/metrics.rs", "handler!(get_rules(state: Extension<Arc<GlobalState>>) -> impl IntoResponse {\n    Json(state.rules().await.clone())", "handler!(get_rules(state: Extension<Arc<GlobalState>>) -> impl IntoResponse {\n    Json(state.rules().await.iter().rev().cloned().collect::<Vec<_>>())", ["C15"])
# ---- C18
m("c18-type-unwrap", "src/connectors/mod.rs", "            .ok_or_else(|| err_msg(format!(\"invalid connector type: {:?}\", t)))?,", "            .unwrap(),", ["C18"])
m("c18-listener-name-unwrap", "src/listeners/mod.rs", "        .ok_or_else(|| err_msg(\"missing listener name\"))?;", "        .unwrap();", ["C18"])
m("c18-pem-expect", "src/common/tls.rs", "        .ok_or_else(|| err_msg(\"fail to load private key: no pem section found\"))?;", "        .unwrap();", ["C18"])
m("c18-lb-verify-index", "src/connectors/loadbalance.rs", "        ensure!(!self.connectors.is_empty(), \"connectors must not be empty\");", "        let _first = &self.connectors[0];", ["C18"])
m("c18-tuple-index-panic", "milu/src/script/stdlib.rs", '                if *index < 0 || *index as usize >= t.len() {\n                    bail!("tuple index out of range: {}", index)\n                }\n                Ok(t.remove(*index as usize))', '                Ok(t.remove(*index as usize))', ["C18"])

# ---- C07 (in-process)
m("c07-none-preferred", "src/common/socks.rs", "        if methods.contains(&SOCKS_AUTH_NONE) && !self.required {", "        if methods.contains(&SOCKS_AUTH_NONE) {", ["C07"])
m("c07-cache-key-user-only", "src/common/auth.rs", "        let data = self.data.lock().await;\n        data.get(user).cloned()", "        let data = self.data.lock().await;\n        data.iter().find(|(k, _)| k.0 == user.0).map(|(_, v)| *v)", ["C07"])
m("c07-skip-check", "src/listeners/socks.rs", "        if !self.auth.check(&request.auth).await {", "        if false && !self.auth.check(&request.auth).await {", ["C07"])
m("c07-cache-never-expires", "src/common/auth.rs", "            tokio::time::sleep(Duration::from_secs(timeout)).await;", "            tokio::time::sleep(Duration::from_secs(timeout * 3600)).await;", ["C07"])
m("c07-password-prefix", "src/common/auth.rs", "                .any(|e| e.username == user.0 && e.password == user.1)", "                .any(|e| e.username == user.0 && e.password.starts_with(&user.1))", ["C07"])
m("c07-username-case", "src/common/auth.rs", "                .any(|e| e.username == user.0 && e.password == user.1)", "                .any(|e| e.username.eq_ignore_ascii_case(&user.0) && e.password == user.1)", ["C07"])

m("c07-quic-no-client-auth", "src/common/quic.rs", "        .with_client_cert_verifier(tls.client_auth()?)", "        .with_no_client_auth()", ["C07"])
m("c07-required-is-optional", "src/common/tls.rs", "        let ret = if self.required {\n            AllowAnyAuthenticatedClient::new(self.root_store()?)", "        let ret = if self.required && false {\n            AllowAnyAuthenticatedClient::new(self.root_store()?)", ["C07"])
m("c07-always-insecure", "src/common/tls.rs", "        let config = if self.insecure {", "        let config = if self.insecure || self.ca.is_none() {", ["C07"])
m("c07-quic-insecure-default", "src/common/quic.rs", "    if tls.insecure {\n        client_crypto", "    if tls.insecure || true {\n        client_crypto", ["C07"])
m("c07-insecure-name-fallback", "src/connectors/http.rs", "                    if tls_insecure {\n                        ServerName::try_from(\"example.com\")", "                    if tls_insecure || true {\n                        ServerName::try_from(\"example.com\")", [])
m("c10-reverse-drops-first-datagram", "src/listeners/reverse.rs", "            // the datagram that opens the session is the first one to forward\n            tx.send(buf).await.context(\"send\")?;\n", "", ["C10"])
m("c10-one-session-id", "src/common/h11c.rs", "            let session_id = SESSION_ID.fetch_add(1, Ordering::Relaxed);", "            let session_id = SESSION_ID.load(Ordering::Relaxed);", ["C10"])
m("c10-udp-reply-truncated-1472", "src/common/udp.rs", "        self.socket.send(frame.body()).await", "        self.socket.send(&frame.body()[..frame.body().len().min(1472)]).await", ["C10"])
m("c10-socks-udp-reply-unlabelled", "src/common/socks.rs", "                IpAddr::V4(v4) => {\n                    body.put_u8(SOCKS_ATYP_INET4);\n                    body.extend_from_slice(&v4.octets());\n                    body.put_u16(a.port());", "                IpAddr::V4(_v4) => {\n                    body.put_u8(SOCKS_ATYP_INET4);\n                    body.extend_from_slice(&[0, 0, 0, 0]);\n                    body.put_u16(a.port());", ["C10"])
m("c10-quic-dispatcher-waits-for-full-queue", "src/common/quic.rs", "                    match session.try_send(frame) {\n                        Ok(()) => {}\n                        Err(TrySendError::Full(_)) => {", "                    match session.send(frame).await.map_err(|e| TrySendError::Closed(e.0)) {\n                        Ok(()) => {}\n                        Err(TrySendError::Full(_)) => {", ["C10"])
m("c10-datagram-session-waits-for-both-directions", "src/copy.rs", "                ctx.write().await.set_state(ContextState::ClientShutdown);\n                if datagram_session {\n                    break;\n                }", "                ctx.write().await.set_state(ContextState::ClientShutdown);\n                if datagram_session && false {\n                    break;\n                }", ["C10"])
m("c13-h11c-udp-session-uses-idle", "src/common/h11c.rs", "                .set_udp_idle_timeout()\n", "", ["C13"])
m("c10-ephemeral-udp-sockets-reuseaddr", "src/common/udp.rs", "        if !ephemeral {\n            setsockopt(fd, ReuseAddr, &true)?;", "        if !ephemeral || true {\n            setsockopt(fd, ReuseAddr, &true)?;", ["C10"])
m("c10-enforce-udp-client-ignored", "src/listeners/socks.rs", "                let remote = if self.enforce_udp_client {", "                let remote = if self.enforce_udp_client && false {", [])
m("c18-lb-cycles-accepted", "src/connectors/loadbalance.rs", "        for _ in 0..MAX_NESTING {\n            level = level", "        for _ in 0..MAX_NESTING {\n            if true {\n                return Ok(());\n            }\n            level = level", ["C18"])
m("c18-no-tree-depth-limit", "milu/src/parser.rs", "const MAX_DEPTH: usize = 256;", "const MAX_DEPTH: usize = 1 << 30;", ["C18"])
m("c18-tree-depth-limit-600", "milu/src/parser.rs", "const MAX_DEPTH: usize = 256;", "const MAX_DEPTH: usize = 600;", ["C18"])
m("c18-nesting-limit-200", "milu/src/parser.rs", "const MAX_NESTING: usize = 16;", "const MAX_NESTING: usize = 200;", ["C18"])
m("c19-quic-idle-one-hour", "src/common/quic.rs", "    transport_config.keep_alive_interval(Some(Duration::from_secs(10)));\n    transport_config.max_idle_timeout(Some(Duration::from_secs(30).try_into().unwrap()));\n    if enable_bbr {", "    transport_config.keep_alive_interval(Some(Duration::from_secs(30)));\n    transport_config.max_idle_timeout(Some(Duration::from_secs(3600).try_into().unwrap()));\n    if enable_bbr {", ["C19"])
m("c19-quic-keep-closed-connection", "src/connectors/quic.rs", "                if e.ctx.starts_with(\"quic:\") {", "                if false {", [])  # equivalent: get_connection drops a closed connection anyway
m("c19-http-connector-poisoned-after-failure", "src/connectors/http.rs", "        let server = TcpStream::connect((self.server.as_str(), self.port))\n            .await\n", "        static DEAD: std::sync::atomic::AtomicBool = std::sync::atomic::AtomicBool::new(false);\n        if DEAD.load(std::sync::atomic::Ordering::Relaxed) {\n            return Err(easy_error::err_msg(\"upstream marked dead\"));\n        }\n        let server = TcpStream::connect((self.server.as_str(), self.port))\n            .await\n            .map_err(|e| {\n                DEAD.store(true, std::sync::atomic::Ordering::Relaxed);\n                e\n            })\n", ["C19"])

def run(name, file, old, new, props):
    path = os.path.join("/repo", file)
    src = open(path).read()
    if old not in src:
        return name, "STALE (pattern not found)", []
    open(path, "w").write(src.replace(old, new, 1))
    res = []
    try:
        for p in props:
            t0 = time.time()
            try:
                r = subprocess.run(["/verif/check", p, "quick"], stdout=subprocess.PIPE, stderr=subprocess.STDOUT, text=True, timeout=900)
                keys = [l.strip() for l in r.stdout.splitlines() if l.strip().startswith("sub=")]
                res.append((p, r.returncode, round(time.time() - t0, 1), keys[:3]))
            except subprocess.TimeoutExpired:
                subprocess.run(["pkill", "-x", "vp-inproc"]); subprocess.run(["pkill", "-x", "vp-e2e"])
                res.append((p, "TIMEOUT", round(time.time() - t0, 1), []))
    finally:
        open(path, "w").write(src)
    ok = all(rc == 1 for _, rc, _, _ in res)
    return name, "caught" if ok else "MISSED", res

if __name__ == "__main__":
    pats = sys.argv[1:]
    status = subprocess.run(["git", "-C", "/repo", "status", "--porcelain"], stdout=subprocess.PIPE, text=True).stdout.strip()
    if status:
        print("refusing: /repo has uncommitted changes:\n" + status); sys.exit(2)
    out = []
    for mm in M:
        if pats and not any(p in mm[0] for p in pats):
            continue
        r = run(*mm)
        print(r[0], r[1], r[2], flush=True)
        out.append(r)
        # keep the latest verdict per mutant (the table of DESIGN.md section 0.5 is generated from it)
        logp = "/verif/seeded/hand-mutants.json"
        try:
            log = json.load(open(logp))
        except Exception:
            log = {}
        subs = sorted({k.split()[0][4:] for _, _, _, keys in r[2] for k in keys})
        first = [k.split(" :: ")[0].split("key=")[-1] for _, _, _, keys in r[2] for k in keys[:1]]
        log[r[0] + ("@" + os.environ["VERIF_ONLY"] if os.environ.get("VERIF_ONLY") else "")] = {"file": mm[1], "expected": mm[4], "verdict": r[1] if mm[4] else "no property expected", "sub_checks": subs, "first_key": first[:1],
                     "exit": {p_: rc for p_, rc, _, _ in r[2]}}
        json.dump(log, open(logp, "w"), indent=1, sort_keys=True)
    subprocess.run(["git", "-C", "/repo", "checkout", "--", "."])
    missed = [r[0] for r in out if r[1] != "caught"]
    print("MISSED:", missed)
