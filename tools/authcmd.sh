#!/bin/sh
# external SOCKS authentication command used by the C07 checks:
#   authcmd.sh <truthfile> <calllog> <user> <pass>
# appends "user<TAB>pass" to the call log and succeeds iff that line is in the truth file
printf '%s\t%s\n' "$3" "$4" >> "$2"
grep -qxF "$(printf '%s\t%s' "$3" "$4")" "$1"
