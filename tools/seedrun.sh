#!/bin/bash
# usage: seedrun.sh <seed-name> <property>...  — apply a stored seeded change to /repo, run the quick checks, undo it
name=$1; shift
cd /verif
git -C /repo diff --quiet || { echo "/repo is dirty"; exit 9; }
git -C /repo apply /verif/seeded/$name/patch.diff || { echo "patch does not apply"; exit 9; }
for p in "$@"; do
  out=$(./check $p quick 2>&1); rc=$?
  echo "$name $p exit=$rc"
  echo "$out" | grep -A1 "^VIOLATION" | grep "sub=" | head -3 | cut -c1-400
done
git -C /repo checkout -- .
