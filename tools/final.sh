#!/bin/bash
# final pass: every quick check with the default seed (the committed evidence is what these runs wrote),
# evidence and manifest validated against the schemas
cd /verif
unset VERIF_SEED VERIF_ONLY
python3 tools_manifest.py
bad=0
for p in C01 C02 C03 C04 C05 C06 C07 C08 C09 C10 C11 C12 C13 C14 C15 C16 C17 C18 C19; do
  out=$(./check $p quick 2>&1); rc=$?
  echo "$(echo "$out" | tail -1)"
  if [ $rc -ne 0 ]; then bad=1; echo "$out" | grep -A1 "VIOLATION\|infrastructure" | head -6 | cut -c1-400; fi
done
python3-vt - <<'PY'
import json,jsonschema,glob
sch=json.load(open('/root/.vp/EVIDENCE.schema.json'))
for f in sorted(glob.glob('/verif/evidence/*.json')):
    d=json.load(open(f)); jsonschema.validate(d,sch)
    assert d['tier']=='quick' and d['seed']==0 and d.get('violations',0)==0, f
jsonschema.validate(json.load(open('/verif/MANIFEST.json')),json.load(open('/root/.vp/MANIFEST.schema.json')))
print("evidence + manifest valid")
PY
exit $bad
