#!/bin/bash
# usage: seedverify.sh <ID> <name>   — confirm a sub-agent's seeded change in its scratch worktree, then store it under /verif/seeded/<name>/
id=$1; name=$2
wt=/tmp/${SEEDPFX:-seed}-$id; out=/tmp/${SEEDPFX:-seed}-$id.out
dst=/verif/seeded/$name
set -u
cd $wt || exit 9
git checkout -q -- . && git apply $out/patch.diff || { echo "patch does not apply to a clean checkout"; exit 9; }
log=$out/verify.log; : > $log
echo "== build (changed)" >> $log
cargo build --offline >> $log 2>&1 || { echo "BUILD FAILS"; exit 1; }
echo "== tests (changed)" >> $log
cargo test --workspace --no-fail-fast --offline 2>&1 | grep "test result" >> $log
grep -c "test result: ok" $log
if grep -q "test result: FAILED" $log; then echo "TESTS FAIL"; exit 1; fi
demo=$(ls $out/demo.py $out/demo.sh 2>/dev/null | head -1)
run() { case $demo in *.py) timeout 300 python3 $demo $wt/target/debug/redproxy-rs;; *) timeout 300 bash $demo $wt/target/debug/redproxy-rs;; esac; }
echo "== demo (changed)" >> $log
( cd $out && run ) >> $log 2>&1; c1=$?
git apply -R $out/patch.diff
cargo build --offline >> $log 2>&1
echo "== demo (unchanged)" >> $log
( cd $out && run ) >> $log 2>&1; c0=$?
git apply $out/patch.diff
echo "demo exit: changed=$c1 unchanged=$c0"
if [ $c1 -ne 0 ] && [ $c0 -eq 0 ]; then
  mkdir -p $dst && cp $out/patch.diff $out/meta.json $demo $dst/ && cp $log $dst/verify.log
  for f in $out/*; do case $(basename $f) in patch.diff|meta.json|verify.log|demo.*) ;; *) cp -r $f $dst/ ;; esac; done
  echo CONFIRMED
else echo NOT-CONFIRMED; fi
