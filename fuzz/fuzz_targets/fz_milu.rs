//! Coverage-guided (libFuzzer) target over the rule language: arbitrary source text is parsed, type
//! checked and - if a consumer would accept it - evaluated against a request.
//! Oracle (C08, reference-free core; also C09/C18 robustness of the parser): no step panics, and an
//! accepted script evaluates to a value of its declared type or fails with a documented dynamic error
//! (division by zero, overflow, index out of bounds, bad regex, non-numeric string). A parser hang is
//! caught by libFuzzer's -timeout.
#![no_main]
#![allow(dead_code, unused_imports, unused_variables, clippy::all)]
include!(concat!(env!("OUT_DIR"), "/root.rs"));

mod harness {
    #[path = "/verif/engine/inproc/src/harness/util.rs"]
    pub mod util;
    #[path = "/verif/engine/inproc/src/harness/c09.rs"]
    pub mod c09;
    #[path = "/verif/engine/inproc/src/harness/c08.rs"]
    pub mod c08;
}

libfuzzer_sys::fuzz_target!(|data: &[u8]| {
    static INIT: std::sync::Once = std::sync::Once::new();
    INIT.call_once(harness::util::install_panic_hook);
    let src = match std::str::from_utf8(data) {
        Ok(s) => s,
        Err(_) => return,
    };
    if let Err(why) = harness::c08::check_text(src) {
        eprintln!("FUZZ-VIOLATION property=C08 {}", why);
        std::process::abort()
    }
});
