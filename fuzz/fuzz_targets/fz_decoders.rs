//! Coverage-guided (libFuzzer) target over every peer-facing decoder of redproxy-rs.
//! Input layout: byte 0 selects the decoder, byte 1 the segmentation (0 = whole; k = cut every k
//! bytes; 255 = byte-wise), the rest is what the peer sends, followed by EOF.
//! Oracles inside the target: (C05) no panic and termination; (C12) for the stream decoders the
//! outcome of the segmented delivery equals the outcome of the whole delivery.
#![no_main]
#![allow(dead_code, unused_imports, unused_variables, clippy::all)]
include!(concat!(env!("OUT_DIR"), "/root.rs"));

mod harness {
    #[path = "/verif/engine/inproc/src/harness/util.rs"]
    pub mod util;
    #[path = "/verif/engine/inproc/src/harness/codec.rs"]
    pub mod codec;
}

use harness::codec::{drive_sync, Decoder, DriveFail};
use vcore::refcodec::Dest;

use harness::codec::FUZZ_DECODERS as DECODERS;

/// which oracle is fatal in this campaign (VERIF_FUZZ_PROP = C05 | C12; unset = both)
fn fatal(prop: &str) -> bool {
    static WHICH: std::sync::OnceLock<Option<String>> = std::sync::OnceLock::new();
    match WHICH.get_or_init(|| std::env::var("VERIF_FUZZ_PROP").ok()) {
        Some(p) => p == prop,
        None => true,
    }
}

fn die(what: &str) -> ! {
    eprintln!("FUZZ-VIOLATION {}", what);
    std::process::abort()
}

libfuzzer_sys::fuzz_target!(|data: &[u8]| {
    if data.len() < 2 {
        return;
    }
    static INIT: std::sync::Once = std::sync::Once::new();
    INIT.call_once(harness::util::install_panic_hook);
    let dec = DECODERS[data[0] as usize % DECODERS.len()];
    let seg = data[1] as usize;
    let input = &data[2..];
    let req = Dest::name("example.com", 443);
    let whole = match drive_sync(dec, input, &[], Some(&req)) {
        Ok(o) => o,
        Err(DriveFail::Panic(p)) if fatal("C05") => die(&format!("property=C05 {:?} panicked on the whole input: {}", dec, p.msg)),
        Err(DriveFail::Wedged) if fatal("C05") => die(&format!("property=C05 {:?} did not terminate", dec)),
        Err(_) => return,
    };
    if seg == 0 || input.len() < 2 {
        return;
    }
    let step = if seg == 255 { 1 } else { seg };
    let cuts: Vec<usize> = (1..input.len()).filter(|i| i % step == 0).collect();
    let parts = match drive_sync(dec, input, &cuts, Some(&req)) {
        Ok(o) => o,
        Err(DriveFail::Panic(p)) if fatal("C05") => die(&format!("property=C05 {:?} panicked on the segmented input: {}", dec, p.msg)),
        Err(DriveFail::Wedged) if fatal("C05") => die(&format!("property=C05 {:?} did not terminate (segmented)", dec)),
        Err(_) => return,
    };
    // C12: segmentation must not change what a stream decoder makes of the bytes. The connector-side
    // drivers write while they read (their peer's view of timing differs), so only parse results count.
    let stream = !matches!(dec, Decoder::SocksUdp | Decoder::FrameBuf);
    if stream && fatal("C12") && (whole.parsed != parts.parsed || whole.dest != parts.dest || whole.frames != parts.frames || whole.err.is_some() != parts.err.is_some() || whole.rest != parts.rest) {
        die(&format!(
            "property=C12 {:?}: whole = ({:?}, rest {}, frames {}, err {:?}) segmented every {} = ({:?}, rest {}, frames {}, err {:?})",
            dec, whole.parsed, whole.rest.len(), whole.frames, whole.err, step, parts.parsed, parts.rest.len(), parts.frames, parts.err
        ));
    }
});
