// Re-root the real redproxy-rs sources: rewrite /repo/src/main.rs so that every `mod x;` points at
// the real file, rename main, and let the harness modules live below the real crate root.
use std::{env, fs, path::Path};

fn main() {
    let repo = "/repo";
    let src = format!("{}/src/main.rs", repo);
    println!("cargo:rerun-if-changed={}", src);
    println!("cargo:rerun-if-changed=build.rs");
    let text = fs::read_to_string(&src).expect("read main.rs");
    let mut out = String::new();
    for line in text.lines() {
        let t = line.trim();
        let is_mod = (t.starts_with("mod ") || t.starts_with("pub mod ") || t.starts_with("pub(crate) mod "))
            && t.ends_with(';')
            && !t.contains('{');
        if is_mod {
            let name = t.trim_end_matches(';').rsplit(' ').next().unwrap();
            let f1 = format!("{}/src/{}.rs", repo, name);
            let f2 = format!("{}/src/{}/mod.rs", repo, name);
            let path = if Path::new(&f1).exists() { f1 } else { f2 };
            println!("cargo:rerun-if-changed={}", path);
            out.push_str(&format!("#[path = \"{}\"]\n{}\n", path, line));
            continue;
        }
        let mut l = line.to_string();
        if l.contains("async fn main()") {
            l = l.replace("async fn main()", "pub async fn redproxy_main()");
        }
        if l.contains("env!(\"CARGO_BIN_NAME\")") {
            l = l.replace("env!(\"CARGO_BIN_NAME\")", "\"redproxy-rs\"");
        }
        out.push_str(&l);
        out.push('\n');
    }
    let dest = Path::new(&env::var("OUT_DIR").unwrap()).join("root.rs");
    fs::write(dest, out).unwrap();
}
