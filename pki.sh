#!/bin/sh
# Test PKI for the TLS checks (generated offline with the openssl CLI; idempotent).
set -e
D=/verif/pki
[ -f "$D/.done" ] && exit 0
rm -rf "$D"; mkdir -p "$D"; cd "$D"
q() { "$@" >/dev/null 2>&1; }
mkca() { # name
  q openssl genpkey -algorithm RSA -pkeyopt rsa_keygen_bits:2048 -out $1.key
  q openssl req -x509 -new -key $1.key -sha256 -days 3650 -subj "/CN=verif $1" -out $1.crt \
    -addext "basicConstraints=critical,CA:TRUE" -addext "keyUsage=critical,keyCertSign,cRLSign"
}
mkcert() { # name ca san days eku
  q openssl genpkey -algorithm RSA -pkeyopt rsa_keygen_bits:2048 -out $1.key
  q openssl req -new -key $1.key -subj "/CN=$1" -out $1.csr
  printf "basicConstraints=CA:FALSE\nkeyUsage=digitalSignature,keyEncipherment\nextendedKeyUsage=%s\n%s\n" "$5" "$3" > $1.ext
  if [ "$4" = "expired" ]; then
    q openssl x509 -req -in $1.csr -CA $2.crt -CAkey $2.key -CAcreateserial -out $1.crt -sha256 -extfile $1.ext \
      -not_before 20200101000000Z -not_after 20200201000000Z || \
    q openssl x509 -req -in $1.csr -CA $2.crt -CAkey $2.key -CAcreateserial -out $1.crt -sha256 -extfile $1.ext -days 1
  else
    q openssl x509 -req -in $1.csr -CA $2.crt -CAkey $2.key -CAcreateserial -out $1.crt -sha256 -extfile $1.ext -days 3650
  fi
  rm -f $1.csr $1.ext
}
mkca ca
mkca foreign
mkcert server ca "subjectAltName=DNS:localhost" 3650 serverAuth
mkcert server-foreign foreign "subjectAltName=DNS:localhost" 3650 serverAuth
mkcert server-othername ca "subjectAltName=DNS:other.test" 3650 serverAuth
mkcert server-expired ca "subjectAltName=DNS:localhost" expired serverAuth
mkcert client ca "subjectAltName=DNS:client.test" 3650 clientAuth
mkcert client-foreign foreign "subjectAltName=DNS:client.test" 3650 clientAuth
mkcert client-expired ca "subjectAltName=DNS:client.test" expired clientAuth
: > empty.pem
echo "not a pem file" > garbage.pem
touch .done
