#!/bin/sh
# Offline build of the verification engines, the repository binary they drive, and the test PKI.
set -e
cd "$(dirname "$0")"
export CARGO_NET_OFFLINE=true
(cd engine && cargo build --offline -p vp-inproc -p vp-e2e 2>&1 | tail -3)
cargo build --offline --manifest-path /repo/Cargo.toml --target-dir /verif/.build/repo 2>&1 | tail -3
[ -x ./pki.sh ] && ./pki.sh || true
echo "setup done"
