//! Shared verification plumbing: tiers, seeds, the proptest wrapper, evidence parts,
//! known-findings matching and replay files.
use proptest::strategy::{Strategy, ValueTree};
use proptest::test_runner::{Config, RngAlgorithm, TestCaseError, TestError, TestRng, TestRunner};
use serde::{de::DeserializeOwned, Serialize};
use serde_json::{json, Value as J};
use std::cell::RefCell;
use std::collections::{BTreeMap, HashSet};
use std::fmt::Debug;
use std::hash::{Hash, Hasher};
use std::path::{Path, PathBuf};
use std::time::Instant;

pub mod refcodec;

pub const VERIF_DIR: &str = "/verif";

#[derive(Clone, Copy, Debug, PartialEq, Eq)]
pub enum Tier {
    Quick,
    Thorough,
}

impl Tier {
    pub fn parse(s: &str) -> Option<Tier> {
        match s {
            "quick" => Some(Tier::Quick),
            "thorough" => Some(Tier::Thorough),
            _ => None,
        }
    }
    pub fn as_str(&self) -> &'static str {
        match self {
            Tier::Quick => "quick",
            Tier::Thorough => "thorough",
        }
    }
    /// pick the case count for the tier
    pub fn pick(&self, quick: u32, thorough: u32) -> u32 {
        match self {
            Tier::Quick => quick,
            Tier::Thorough => thorough,
        }
    }
}

pub fn fnv(data: &[u8]) -> u64 {
    let mut h: u64 = 0xcbf29ce484222325;
    for b in data {
        h ^= *b as u64;
        h = h.wrapping_mul(0x100000001b3);
    }
    h
}

pub fn digest_of<T: Hash>(t: &T) -> u64 {
    let mut h = std::collections::hash_map::DefaultHasher::new();
    t.hash(&mut h);
    h.finish()
}

pub fn digest_json<T: Serialize>(t: &T) -> u64 {
    fnv(serde_json::to_string(t).unwrap_or_default().as_bytes())
}

/// Counter-mode payload generator: a payload is (tag, len); contents are a pure function of both,
/// so that multi-megabyte payloads shrink as two integers.
pub fn payload(tag: u64, len: usize) -> Vec<u8> {
    let mut out = Vec::with_capacity(len + 8);
    let mut ctr: u64 = 0;
    while out.len() < len {
        let mut x = tag ^ ctr.wrapping_mul(0x9E3779B97F4A7C15);
        x ^= x >> 30;
        x = x.wrapping_mul(0xBF58476D1CE4E5B9);
        x ^= x >> 27;
        x = x.wrapping_mul(0x94D049BB133111EB);
        x ^= x >> 31;
        out.extend_from_slice(&x.to_le_bytes());
        ctr += 1;
    }
    out.truncate(len);
    out
}

/// A failure of one case: `key` is the shape-derived key matched against KNOWN_FINDINGS.txt.
#[derive(Clone, Debug)]
pub struct Failure {
    pub key: String,
    pub desc: String,
}

impl Failure {
    pub fn new(key: impl Into<String>, desc: impl Into<String>) -> Self {
        Failure {
            key: key.into(),
            desc: desc.into(),
        }
    }
}

#[macro_export]
macro_rules! fail {
    ($key:expr, $($arg:tt)*) => {
        return Err($crate::Failure::new($key, format!($($arg)*)))
    };
}

/// Per-case bookkeeping filled by the case function.
#[derive(Default)]
pub struct CaseInfo {
    pub nontrivial: bool,
    pub classes: Vec<String>,
    pub sample: Option<J>,
    /// optional override for distinctness digest
    pub digest: Option<u64>,
    pub inconclusive: bool,
}

impl CaseInfo {
    pub fn class(&mut self, c: impl Into<String>) {
        self.classes.push(c.into());
    }
}

#[derive(Clone, Debug)]
pub struct Violation {
    pub sub: String,
    pub key: String,
    pub desc: String,
    pub case: J,
    pub replay: Option<String>,
}

pub struct KnownFindings {
    /// (property, key, text)
    pub known: Vec<(String, String, String)>,
}

impl KnownFindings {
    pub fn load() -> Self {
        let path = Path::new(VERIF_DIR).join("KNOWN_FINDINGS.txt");
        let mut known = vec![];
        if let Ok(s) = std::fs::read_to_string(path) {
            for line in s.lines() {
                let line = line.trim();
                if let Some(rest) = line.strip_prefix("known:") {
                    let rest = rest.trim();
                    let mut prop = String::new();
                    let mut key = String::new();
                    let mut text = vec![];
                    for tok in rest.split(' ') {
                        if let Some(p) = tok.strip_prefix("property=") {
                            if prop.is_empty() {
                                prop = p.to_string();
                                continue;
                            }
                        }
                        if let Some(k) = tok.strip_prefix("key=") {
                            if key.is_empty() {
                                key = k.to_string();
                                continue;
                            }
                        }
                        text.push(tok);
                    }
                    known.push((prop, key, text.join(" ")));
                }
            }
        }
        KnownFindings { known }
    }
    pub fn lookup(&self, prop: &str, key: &str) -> Option<&str> {
        self.known
            .iter()
            .find(|(p, k, _)| p == prop && k == key)
            .map(|(_, _, t)| t.as_str())
    }
}

/// One sub-check's contribution to evidence/<ID>.json
pub struct Part {
    pub property: String,
    pub sub: String,
    pub tier: Tier,
    pub seed: u64,
    pub rule: String,
    pub evaluations: u64,
    pub nontrivial: HashSet<u64>,
    pub samples: Vec<J>,
    pub classes: BTreeMap<String, u64>,
    pub exhaustive: bool,
    pub known_hits: BTreeMap<String, u64>,
    pub inconclusive: u64,
    pub violations: Vec<Violation>,
    pub notes: Vec<String>,
    pub extra: BTreeMap<String, J>,
    pub started: Instant,
    pub known: KnownFindings,
    pub max_samples: usize,
}

impl Part {
    pub fn new(property: &str, sub: &str, tier: Tier, seed: u64, rule: &str) -> Self {
        Part {
            property: property.into(),
            sub: sub.into(),
            tier,
            seed,
            rule: rule.into(),
            evaluations: 0,
            nontrivial: HashSet::new(),
            samples: vec![],
            classes: BTreeMap::new(),
            exhaustive: false,
            known_hits: BTreeMap::new(),
            inconclusive: 0,
            violations: vec![],
            notes: vec![],
            extra: BTreeMap::new(),
            started: Instant::now(),
            known: KnownFindings::load(),
            max_samples: 4,
        }
    }

    /// derived rng seed for this sub-check
    pub fn sub_seed(&self, salt: &str) -> u64 {
        fnv(format!("{}|{}|{}|{}", self.seed, self.property, self.sub, salt).as_bytes())
    }

    pub fn note(&mut self, s: impl Into<String>) {
        self.notes.push(s.into());
    }

    /// Account one executed case.
    pub fn account(&mut self, digest: u64, info: CaseInfo) {
        self.evaluations += 1;
        if info.inconclusive {
            self.inconclusive += 1;
        }
        if info.nontrivial {
            self.nontrivial.insert(info.digest.unwrap_or(digest));
        }
        for c in info.classes {
            *self.classes.entry(c).or_insert(0) += 1;
        }
        if let Some(s) = info.sample {
            if self.samples.len() < self.max_samples {
                self.samples.push(s);
            }
        }
    }

    /// Record a failure found outside proptest (enumerations, regress files): returns true if it is a
    /// new (unlisted) violation.
    pub fn record_failure(&mut self, f: Failure, case: J) -> bool {
        if self.known.lookup(&self.property, &f.key).is_some() {
            *self.known_hits.entry(f.key).or_insert(0) += 1;
            false
        } else {
            // keep one violation per key
            if !self.violations.iter().any(|v| v.key == f.key) {
                self.violations.push(Violation {
                    sub: self.sub.clone(),
                    key: f.key,
                    desc: f.desc,
                    case,
                    replay: None,
                });
            }
            true
        }
    }

    pub fn is_known(&self, key: &str) -> bool {
        self.known.lookup(&self.property, key).is_some()
    }

    /// Run a simple (non-shrinking) case, e.g. from an exhaustive enumeration.
    pub fn run_case<V: Serialize>(
        &mut self,
        v: &V,
        f: &dyn Fn(&V, &mut CaseInfo) -> Result<(), Failure>,
    ) -> bool {
        let mut info = CaseInfo::default();
        note_current_case(&self.property, &self.sub, v);
        let r = f(v, &mut info);
        let d = digest_json(v);
        self.account(d, info);
        match r {
            Ok(()) => true,
            Err(fl) => !self.record_failure(fl, serde_json::to_value(v).unwrap_or(J::Null)),
        }
    }

    /// Run a proptest search. The case function is re-run during shrinking; accounting stops at
    /// the first unlisted failure. Failures whose key is listed in KNOWN_FINDINGS.txt are counted and
    /// tolerated so that the search continues behind them.
    pub fn run_prop<S>(
        &mut self,
        salt: &str,
        cases: u32,
        max_shrink: u32,
        strat: S,
        f: &dyn Fn(&S::Value, &mut CaseInfo) -> Result<(), Failure>,
    ) where
        S: Strategy,
        S::Value: Debug + Serialize + Clone,
    {
        let seed = self.sub_seed(salt);
        let mut seed32 = [0u8; 32];
        for i in 0..4 {
            seed32[i * 8..(i + 1) * 8]
                .copy_from_slice(&(seed.wrapping_add(i as u64).wrapping_mul(0x9E3779B97F4A7C15)).to_le_bytes());
        }
        let config = Config {
            cases,
            failure_persistence: None,
            max_shrink_iters: max_shrink,
            max_global_rejects: 100_000,
            max_local_rejects: 100_000,
            verbose: 0,
            ..Config::default()
        };
        let rng = TestRng::from_seed(RngAlgorithm::ChaCha, &seed32);
        let mut runner = TestRunner::new_with_rng(config, rng);
        let failed = RefCell::new(false);
        let me = RefCell::new(self);
        let (prop_name, sub_name) = (me.borrow().property.clone(), me.borrow().sub.clone());
        let result = runner.run(&strat, |v| {
            let mut info = CaseInfo::default();
            note_current_case(&prop_name, &sub_name, &v);
            let r = f(&v, &mut info);
            let shrinking = *failed.borrow();
            let mut me = me.borrow_mut();
            if !shrinking {
                let d = digest_json(&v);
                me.account(d, info);
            }
            match r {
                Ok(()) => Ok(()),
                Err(fl) => {
                    if me.is_known(&fl.key) {
                        if !shrinking {
                            *me.known_hits.entry(fl.key).or_insert(0) += 1;
                        }
                        Ok(())
                    } else {
                        *failed.borrow_mut() = true;
                        Err(TestCaseError::fail(fl.key))
                    }
                }
            }
        });
        let me = me.into_inner();
        match result {
            Ok(()) => {}
            Err(TestError::Fail(_, v)) => {
                let mut info = CaseInfo::default();
                let fl = match f(&v, &mut info) {
                    Err(fl) => fl,
                    Ok(()) => Failure::new(
                        "nondeterministic",
                        "shrunk case passed when re-run (non-deterministic case)",
                    ),
                };
                if fl.key == "nondeterministic" {
                    me.inconclusive += 1;
                    me.note(format!("{}: a failing case did not reproduce on re-run: {:?}", salt, v));
                } else {
                    me.record_failure(fl, serde_json::to_value(&v).unwrap_or(J::Null));
                }
            }
            Err(TestError::Abort(r)) => {
                me.note(format!("{}: proptest aborted: {}", salt, r));
                me.extra.insert("aborted".into(), json!(r.to_string()));
            }
        }
    }

    /// Draw `n` values from a strategy deterministically (used for generator health / enumeration mixes).
    pub fn draw<S: Strategy>(&self, salt: &str, n: usize, strat: &S) -> Vec<S::Value> {
        let seed = self.sub_seed(salt);
        let mut seed32 = [0u8; 32];
        seed32[..8].copy_from_slice(&seed.to_le_bytes());
        let rng = TestRng::from_seed(RngAlgorithm::ChaCha, &seed32);
        let mut runner = TestRunner::new_with_rng(Config::default(), rng);
        (0..n)
            .filter_map(|_| strat.new_tree(&mut runner).ok().map(|t| t.current()))
            .collect()
    }

    pub fn to_json(&self) -> J {
        json!({
            "property": self.property,
            "sub": self.sub,
            "tier": self.tier.as_str(),
            "seed": self.seed,
            "rule": self.rule,
            "evaluations": self.evaluations,
            "distinct_nontrivial": self.nontrivial.len(),
            "samples": self.samples,
            "classes": self.classes,
            "exhaustive": self.exhaustive,
            "known_hits": self.known_hits,
            "inconclusive": self.inconclusive,
            "violations": self.violations.iter().map(|v| json!({
                "sub": v.sub, "key": v.key, "desc": v.desc, "case": v.case, "replay": v.replay
            })).collect::<Vec<_>>(),
            "notes": self.notes,
            "extra": self.extra,
            "wall_s": self.started.elapsed().as_secs_f64(),
        })
    }
}

/// Crash attribution: with VERIF_CURRENT_CASE=<path> the engine writes the case it is about to run (as a
/// replay file) to that path, so that `check` can tell which input killed the process when a case takes
/// the whole engine down (a stack overflow or an abort cannot be caught in-process).
pub fn note_current_case<V: Serialize>(property: &str, sub: &str, v: &V) {
    use std::io::{Seek, SeekFrom, Write};
    thread_local! {
        static FILE: RefCell<Option<Option<std::fs::File>>> = RefCell::new(None);
    }
    FILE.with(|f| {
        let mut f = f.borrow_mut();
        if f.is_none() {
            *f = Some(std::env::var("VERIF_CURRENT_CASE").ok().and_then(|p| std::fs::OpenOptions::new().create(true).write(true).truncate(true).open(p).ok()));
        }
        if let Some(Some(file)) = f.as_mut() {
            let rf = json!({"property": property, "sub": sub, "key": "engine-crash", "desc": "the engine process died while running this case", "case": v});
            if let Ok(bytes) = serde_json::to_vec(&rf) {
                let _ = file.seek(SeekFrom::Start(0));
                let _ = file.write_all(&bytes);
                let _ = file.set_len(bytes.len() as u64);
            }
        }
    });
}

/// Replay file format
#[derive(Serialize, serde::Deserialize, Debug, Clone)]
pub struct ReplayFile {
    pub property: String,
    pub sub: String,
    pub key: String,
    pub desc: String,
    pub case: J,
}

pub fn replays_dir() -> PathBuf {
    Path::new(VERIF_DIR).join("replays")
}

/// Finish a list of parts: write replay files, print VIOLATION / KNOWN-FINDING lines, write the
/// parts file, and return the exit code.
pub fn finish(property: &str, parts: &mut [Part], out: Option<&Path>) -> i32 {
    let mut code = 0;
    let _ = std::fs::create_dir_all(replays_dir());
    let mut printed_known: HashSet<String> = HashSet::new();
    for p in parts.iter_mut() {
        let keys: Vec<String> = p.known_hits.keys().cloned().collect();
        for k in keys {
            if printed_known.insert(k.clone()) {
                let text = p.known.lookup(&p.property, &k).unwrap_or("").to_string();
                println!(
                    "KNOWN-FINDING: property={} key={} {} (hits={})",
                    p.property, k, text, p.known_hits[&k]
                );
            }
        }
        let sub = p.sub.clone();
        for v in p.violations.iter_mut() {
            let rf = ReplayFile {
                property: property.to_string(),
                sub: sub.clone(),
                key: v.key.clone(),
                desc: v.desc.clone(),
                case: v.case.clone(),
            };
            let body = serde_json::to_string_pretty(&rf).unwrap();
            let name = format!("{}-{}-{:016x}.json", property, sub, fnv(body.as_bytes()));
            let path = replays_dir().join(name);
            let _ = std::fs::write(&path, body);
            v.replay = Some(path.display().to_string());
            println!("VIOLATION property={} replay={}", property, path.display());
            println!("  sub={} key={} :: {}", sub, v.key, v.desc);
            code = 1;
        }
    }
    if let Some(out) = out {
        let arr: Vec<J> = parts.iter().map(|p| p.to_json()).collect();
        let _ = std::fs::write(out, serde_json::to_string_pretty(&J::Array(arr)).unwrap());
    }
    code
}

/// A registered sub-check.
pub trait SubCheck {
    fn property(&self) -> &'static str;
    fn name(&self) -> &'static str;
    fn run(&self, part: &mut Part);
    /// replay a case from JSON; Ok(()) = passes
    fn replay(&self, case: &J) -> Result<(), Failure>;
    fn rule(&self) -> String;
}

/// Helper to build a SubCheck from a strategy + case function.
pub struct PropCheck<V, S: Strategy<Value = V>> {
    pub property: &'static str,
    pub name: &'static str,
    pub rule: &'static str,
    pub quick: u32,
    pub thorough: u32,
    pub max_shrink: u32,
    pub strategy: fn() -> S,
    pub case: fn(&V, &mut CaseInfo) -> Result<(), Failure>,
}

impl<V, S> SubCheck for PropCheck<V, S>
where
    S: Strategy<Value = V>,
    V: Debug + Serialize + DeserializeOwned + Clone,
{
    fn property(&self) -> &'static str {
        self.property
    }
    fn name(&self) -> &'static str {
        self.name
    }
    fn rule(&self) -> String {
        self.rule.to_string()
    }
    fn run(&self, part: &mut Part) {
        let cases = part.tier.pick(self.quick, self.thorough);
        let f = self.case;
        part.run_prop("prop", cases, self.max_shrink, (self.strategy)(), &|v, i| f(v, i));
    }
    fn replay(&self, case: &J) -> Result<(), Failure> {
        let v: V = serde_json::from_value(case.clone())
            .map_err(|e| Failure::new("replay-decode", format!("cannot decode case: {}", e)))?;
        let mut info = CaseInfo::default();
        (self.case)(&v, &mut info)
    }
}

/// Standard driver used by both engine binaries.
/// args: run <ID> --tier quick|thorough [--out file] [--only sub]   |   replay <file>   | list
pub fn driver(engine: &str, checks: Vec<Box<dyn SubCheck>>) -> i32 {
    let args: Vec<String> = std::env::args().collect();
    let seed: u64 = std::env::var("VERIF_SEED")
        .ok()
        .and_then(|s| s.trim().parse::<i64>().ok())
        .map(|x| x as u64)
        .unwrap_or(0);
    if args.len() < 2 {
        eprintln!("usage: {} run <ID> --tier quick|thorough [--out f] [--only sub] | replay <file> | list", engine);
        return 2;
    }
    match args[1].as_str() {
        "list" => {
            for c in &checks {
                println!("{} {} :: {}", c.property(), c.name(), c.rule());
            }
            0
        }
        "replay" => {
            let path = match args.get(2) {
                Some(p) => p,
                None => return 2,
            };
            let body = match std::fs::read_to_string(path) {
                Ok(b) => b,
                Err(e) => {
                    eprintln!("cannot read {}: {}", path, e);
                    return 2;
                }
            };
            let rf: ReplayFile = match serde_json::from_str(&body) {
                Ok(r) => r,
                Err(e) => {
                    eprintln!("cannot parse {}: {}", path, e);
                    return 2;
                }
            };
            for c in &checks {
                if c.property() == rf.property && c.name() == rf.sub {
                    return match c.replay(&rf.case) {
                        Ok(()) => {
                            println!("replay passed: property={} sub={}", rf.property, rf.sub);
                            0
                        }
                        Err(f) => {
                            println!("VIOLATION property={} replay={}", rf.property, path);
                            println!("  sub={} key={} :: {}", rf.sub, f.key, f.desc);
                            1
                        }
                    };
                }
            }
            // not ours
            3
        }
        "run" => {
            let id = match args.get(2) {
                Some(p) => p.clone(),
                None => return 2,
            };
            let mut tier = Tier::Quick;
            let mut out: Option<PathBuf> = None;
            let mut only: Option<String> = None;
            let mut i = 3;
            while i < args.len() {
                match args[i].as_str() {
                    "--tier" => {
                        tier = Tier::parse(args.get(i + 1).map(|s| s.as_str()).unwrap_or("")).unwrap_or(Tier::Quick);
                        i += 1;
                    }
                    "--out" => {
                        out = args.get(i + 1).map(PathBuf::from);
                        i += 1;
                    }
                    "--only" => {
                        only = args.get(i + 1).cloned();
                        i += 1;
                    }
                    _ => {}
                }
                i += 1;
            }
            let mut parts = vec![];
            for c in &checks {
                if c.property() != id {
                    continue;
                }
                if let Some(o) = &only {
                    if c.name() != o {
                        continue;
                    }
                }
                let mut part = Part::new(&id, c.name(), tier, seed, &c.rule());
                // regression inputs first (bypass the library)
                let rdir = Path::new(VERIF_DIR).join("regress").join(&id);
                if let Ok(rd) = std::fs::read_dir(&rdir) {
                    let mut files: Vec<PathBuf> = rd.filter_map(|e| e.ok().map(|e| e.path())).collect();
                    files.sort();
                    let mut n = 0u64;
                    for f in files {
                        if let Ok(body) = std::fs::read_to_string(&f) {
                            if let Ok(rf) = serde_json::from_str::<ReplayFile>(&body) {
                                if rf.sub == c.name() {
                                    n += 1;
                                    part.evaluations += 1;
                                    if let Err(fl) = c.replay(&rf.case) {
                                        part.record_failure(fl, rf.case.clone());
                                    }
                                }
                            }
                        }
                    }
                    part.extra.insert("regress_replayed".into(), json!(n));
                }
                let t0 = Instant::now();
                c.run(&mut part);
                eprintln!(
                    "[{}] {} {}: {} evals, {} nontrivial, {} violations, {:.1}s",
                    engine,
                    id,
                    c.name(),
                    part.evaluations,
                    part.nontrivial.len(),
                    part.violations.len(),
                    t0.elapsed().as_secs_f64()
                );
                parts.push(part);
            }
            if parts.is_empty() {
                eprintln!("{}: no sub-checks for {}", engine, id);
                if let Some(out) = &out {
                    let _ = std::fs::write(out, "[]");
                }
                return 0;
            }
            finish(&id, &mut parts, out.as_deref())
        }
        _ => 2,
    }
}
