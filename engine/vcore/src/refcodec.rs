//! Independent reference encoders / parsers for the wire formats the proxy speaks.
//! Written from the RFCs / memos and, for the two repo-specific formats, from the comments in
//! frames.rs / fragment.rs — never by calling the repository's codecs.
use serde::{Deserialize, Serialize};
use std::net::{Ipv4Addr, Ipv6Addr};

#[derive(Clone, Debug, PartialEq, Eq, Hash, Serialize, Deserialize)]
pub enum Host {
    Name(Vec<u8>),
    V4([u8; 4]),
    V6([u8; 16]),
}

#[derive(Clone, Debug, PartialEq, Eq, Hash, Serialize, Deserialize)]
pub struct Dest {
    pub host: Host,
    pub port: u16,
}

impl Dest {
    pub fn name(s: &str, port: u16) -> Dest {
        Dest {
            host: Host::Name(s.as_bytes().to_vec()),
            port,
        }
    }
    /// canonical form: a name that is an IP literal (optionally bracketed v6) is that address.
    pub fn canon(&self) -> Dest {
        match &self.host {
            Host::Name(n) => {
                if let Ok(s) = std::str::from_utf8(n) {
                    if let Ok(a) = s.parse::<Ipv4Addr>() {
                        return Dest {
                            host: Host::V4(a.octets()),
                            port: self.port,
                        };
                    }
                    let inner = s.strip_prefix('[').and_then(|x| x.strip_suffix(']')).unwrap_or(s);
                    if let Ok(a) = inner.parse::<Ipv6Addr>() {
                        return Dest {
                            host: Host::V6(a.octets()),
                            port: self.port,
                        };
                    }
                }
                self.clone()
            }
            _ => self.clone(),
        }
    }
    /// textual authority form as a CONNECT request-target: host:port, v6 in brackets
    pub fn authority(&self) -> Vec<u8> {
        let mut out = vec![];
        match &self.host {
            Host::Name(n) => out.extend_from_slice(n),
            Host::V4(a) => out.extend_from_slice(Ipv4Addr::from(*a).to_string().as_bytes()),
            Host::V6(a) => {
                out.push(b'[');
                out.extend_from_slice(Ipv6Addr::from(*a).to_string().as_bytes());
                out.push(b']');
            }
        }
        out.push(b':');
        out.extend_from_slice(self.port.to_string().as_bytes());
        out
    }
    pub fn render(&self) -> String {
        String::from_utf8_lossy(&self.authority()).to_string()
    }
}

/// Parse an authority (host:port) as found in a CONNECT request-target. Splits at the LAST colon
/// outside brackets.
pub fn parse_authority(b: &[u8]) -> Option<Dest> {
    let pos = b.iter().rposition(|c| *c == b':')?;
    let (h, p) = (&b[..pos], &b[pos + 1..]);
    let ps = std::str::from_utf8(p).ok()?;
    if ps.is_empty() || !ps.bytes().all(|c| c.is_ascii_digit()) {
        return None;
    }
    let port: u16 = ps.parse().ok()?;
    if h.len() >= 2 && h[0] == b'[' && h[h.len() - 1] == b']' {
        if let Ok(s) = std::str::from_utf8(&h[1..h.len() - 1]) {
            if let Ok(a) = s.parse::<Ipv6Addr>() {
                return Some(Dest {
                    host: Host::V6(a.octets()),
                    port,
                });
            }
        }
    }
    Some(Dest {
        host: Host::Name(h.to_vec()),
        port,
    })
}

// ---------------------------------------------------------------- HTTP

#[derive(Clone, Debug, PartialEq, Eq, Serialize, Deserialize)]
pub struct HttpHead {
    /// request: method, target, version; response: version, code, reason
    pub start: (Vec<u8>, Vec<u8>, Vec<u8>),
    pub headers: Vec<(Vec<u8>, Vec<u8>)>,
    /// number of bytes the head occupies, including the blank line
    pub consumed: usize,
}

impl HttpHead {
    pub fn header(&self, name: &str) -> Option<&[u8]> {
        self.headers
            .iter()
            .find(|(k, _)| k.eq_ignore_ascii_case(name.as_bytes()))
            .map(|(_, v)| v.as_slice())
    }
}

pub fn encode_connect(target: &[u8], headers: &[(Vec<u8>, Vec<u8>)]) -> Vec<u8> {
    let mut out = vec![];
    out.extend_from_slice(b"CONNECT ");
    out.extend_from_slice(target);
    out.extend_from_slice(b" HTTP/1.1\r\n");
    for (k, v) in headers {
        out.extend_from_slice(k);
        out.extend_from_slice(b": ");
        out.extend_from_slice(v);
        out.extend_from_slice(b"\r\n");
    }
    out.extend_from_slice(b"\r\n");
    out
}

pub fn encode_response(code: u16, reason: &[u8], headers: &[(Vec<u8>, Vec<u8>)]) -> Vec<u8> {
    let mut out = vec![];
    out.extend_from_slice(b"HTTP/1.1 ");
    out.extend_from_slice(code.to_string().as_bytes());
    out.push(b' ');
    out.extend_from_slice(reason);
    out.extend_from_slice(b"\r\n");
    for (k, v) in headers {
        out.extend_from_slice(k);
        out.extend_from_slice(b": ");
        out.extend_from_slice(v);
        out.extend_from_slice(b"\r\n");
    }
    out.extend_from_slice(b"\r\n");
    out
}

/// Strict-ish HTTP/1.1 head parser (RFC 7230 §3): lines end in CRLF; start line has exactly three
/// SP-separated parts for requests (the reason phrase of a response may contain SP or be empty);
/// header = name ":" OWS value OWS. Returns None if incomplete or malformed.
pub fn parse_http_head(b: &[u8], is_response: bool) -> Option<HttpHead> {
    let mut lines: Vec<&[u8]> = vec![];
    let mut pos = 0;
    loop {
        let rest = &b[pos..];
        let nl = rest.windows(2).position(|w| w == b"\r\n")?;
        let line = &rest[..nl];
        pos += nl + 2;
        if line.is_empty() {
            break;
        }
        lines.push(line);
    }
    if lines.is_empty() {
        return None;
    }
    let start = lines[0];
    if start.iter().any(|c| *c == b'\r' || *c == b'\n') {
        return None;
    }
    let parts: Vec<&[u8]> = if is_response {
        start.splitn(3, |c| *c == b' ').collect()
    } else {
        start.split(|c| *c == b' ').collect()
    };
    let start3 = if is_response {
        if parts.len() < 2 {
            return None;
        }
        (
            parts[0].to_vec(),
            parts[1].to_vec(),
            parts.get(2).map(|x| x.to_vec()).unwrap_or_default(),
        )
    } else {
        if parts.len() != 3 {
            return None;
        }
        (parts[0].to_vec(), parts[1].to_vec(), parts[2].to_vec())
    };
    let mut headers = vec![];
    for l in &lines[1..] {
        let c = l.iter().position(|c| *c == b':')?;
        let name = &l[..c];
        if name.is_empty() || name.iter().any(|c| *c == b' ' || *c == b'\t') {
            return None;
        }
        let mut v = &l[c + 1..];
        while let Some((f, r)) = v.split_first() {
            if *f == b' ' || *f == b'\t' {
                v = r;
            } else {
                break;
            }
        }
        while let Some((l_, r)) = v.split_last() {
            if *l_ == b' ' || *l_ == b'\t' {
                v = r;
            } else {
                break;
            }
        }
        headers.push((name.to_vec(), v.to_vec()));
    }
    Some(HttpHead {
        start: start3,
        headers,
        consumed: pos,
    })
}

// ---------------------------------------------------------------- SOCKS

pub const ATYP_V4: u8 = 1;
pub const ATYP_NAME: u8 = 3;
pub const ATYP_V6: u8 = 4;

/// SOCKS4 / SOCKS4a CONNECT request. V6 cannot be carried.
pub fn encode_socks4(cmd: u8, d: &Dest, userid: &[u8]) -> Option<Vec<u8>> {
    let mut out = vec![4u8, cmd];
    out.extend_from_slice(&d.port.to_be_bytes());
    match &d.host {
        Host::V4(a) => {
            out.extend_from_slice(a);
            out.extend_from_slice(userid);
            out.push(0);
        }
        Host::Name(n) => {
            out.extend_from_slice(&[0, 0, 0, 1]);
            out.extend_from_slice(userid);
            out.push(0);
            out.extend_from_slice(n);
            out.push(0);
        }
        Host::V6(_) => return None,
    }
    Some(out)
}

#[derive(Clone, Debug, PartialEq, Eq, Serialize, Deserialize)]
pub struct Socks4Req {
    pub cmd: u8,
    pub dest: Dest,
    pub userid: Vec<u8>,
    pub consumed: usize,
}

pub fn parse_socks4(b: &[u8]) -> Option<Socks4Req> {
    if b.len() < 9 || b[0] != 4 {
        return None;
    }
    let cmd = b[1];
    let port = u16::from_be_bytes([b[2], b[3]]);
    let ip = [b[4], b[5], b[6], b[7]];
    let rest = &b[8..];
    let z = rest.iter().position(|c| *c == 0)?;
    let userid = rest[..z].to_vec();
    let mut consumed = 8 + z + 1;
    let dest = if ip[0] == 0 && ip[1] == 0 && ip[2] == 0 && ip[3] != 0 {
        let rest = &b[consumed..];
        let z = rest.iter().position(|c| *c == 0)?;
        let name = rest[..z].to_vec();
        consumed += z + 1;
        Dest {
            host: Host::Name(name),
            port,
        }
    } else {
        Dest {
            host: Host::V4(ip),
            port,
        }
    };
    Some(Socks4Req {
        cmd,
        dest,
        userid,
        consumed,
    })
}

pub fn encode_socks5_greeting(methods: &[u8]) -> Vec<u8> {
    let mut out = vec![5u8, methods.len() as u8];
    out.extend_from_slice(methods);
    out
}

pub fn encode_socks5_userpass(user: &[u8], pass: &[u8]) -> Vec<u8> {
    let mut out = vec![1u8, user.len() as u8];
    out.extend_from_slice(user);
    out.push(pass.len() as u8);
    out.extend_from_slice(pass);
    out
}

pub fn encode_socks5_addr(d: &Dest) -> Option<Vec<u8>> {
    let mut out = vec![];
    match &d.host {
        Host::V4(a) => {
            out.push(ATYP_V4);
            out.extend_from_slice(a);
        }
        Host::V6(a) => {
            out.push(ATYP_V6);
            out.extend_from_slice(a);
        }
        Host::Name(n) => {
            if n.len() > 255 {
                return None;
            }
            out.push(ATYP_NAME);
            out.push(n.len() as u8);
            out.extend_from_slice(n);
        }
    }
    out.extend_from_slice(&d.port.to_be_bytes());
    Some(out)
}

pub fn encode_socks5_request(cmd: u8, d: &Dest) -> Option<Vec<u8>> {
    let mut out = vec![5u8, cmd, 0];
    out.extend_from_slice(&encode_socks5_addr(d)?);
    Some(out)
}

/// parse ATYP ADDR PORT; returns (dest, consumed)
pub fn parse_socks5_addr(b: &[u8]) -> Option<(Dest, usize)> {
    let atyp = *b.first()?;
    match atyp {
        ATYP_V4 => {
            if b.len() < 7 {
                return None;
            }
            let mut a = [0u8; 4];
            a.copy_from_slice(&b[1..5]);
            Some((
                Dest {
                    host: Host::V4(a),
                    port: u16::from_be_bytes([b[5], b[6]]),
                },
                7,
            ))
        }
        ATYP_V6 => {
            if b.len() < 19 {
                return None;
            }
            let mut a = [0u8; 16];
            a.copy_from_slice(&b[1..17]);
            Some((
                Dest {
                    host: Host::V6(a),
                    port: u16::from_be_bytes([b[17], b[18]]),
                },
                19,
            ))
        }
        ATYP_NAME => {
            let n = *b.get(1)? as usize;
            if b.len() < 2 + n + 2 {
                return None;
            }
            Some((
                Dest {
                    host: Host::Name(b[2..2 + n].to_vec()),
                    port: u16::from_be_bytes([b[2 + n], b[3 + n]]),
                },
                4 + n,
            ))
        }
        _ => None,
    }
}

#[derive(Clone, Debug, PartialEq, Eq, Serialize, Deserialize)]
pub struct Socks5Msg {
    pub ver: u8,
    /// cmd for requests, rep for replies
    pub code: u8,
    pub rsv: u8,
    pub dest: Dest,
    pub consumed: usize,
}

/// parse VER CMD/REP RSV ATYP ADDR PORT
pub fn parse_socks5_msg(b: &[u8]) -> Option<Socks5Msg> {
    if b.len() < 4 {
        return None;
    }
    let (dest, n) = parse_socks5_addr(&b[3..])?;
    Some(Socks5Msg {
        ver: b[0],
        code: b[1],
        rsv: b[2],
        dest,
        consumed: 3 + n,
    })
}

pub fn encode_socks5_reply(rep: u8, d: &Dest) -> Option<Vec<u8>> {
    let mut out = vec![5u8, rep, 0];
    out.extend_from_slice(&encode_socks5_addr(d)?);
    Some(out)
}

pub fn encode_socks4_reply(cd: u8, port: u16, ip: [u8; 4]) -> Vec<u8> {
    let mut out = vec![0u8, cd];
    out.extend_from_slice(&port.to_be_bytes());
    out.extend_from_slice(&ip);
    out
}

/// SOCKS5 UDP request header (RFC 1928 §7): RSV RSV FRAG ATYP ADDR PORT DATA
pub fn encode_socks5_udp(d: &Dest, data: &[u8]) -> Option<Vec<u8>> {
    let mut out = vec![0u8, 0, 0];
    out.extend_from_slice(&encode_socks5_addr(d)?);
    out.extend_from_slice(data);
    Some(out)
}

/// returns (first three bytes, dest, payload)
pub fn parse_socks5_udp(b: &[u8]) -> Option<([u8; 3], Dest, Vec<u8>)> {
    if b.len() < 4 {
        return None;
    }
    let (d, n) = parse_socks5_addr(&b[3..])?;
    Some(([b[0], b[1], b[2]], d, b[3 + n..].to_vec()))
}

// ---------------------------------------------------------------- RPFM stream frame

#[derive(Clone, Debug, PartialEq, Eq, Serialize, Deserialize)]
pub struct Rpfm {
    pub session: u32,
    pub addr: Option<Dest>,
    pub body: Vec<u8>,
}

/// MAGIC "RPFM" · session u32 · attr_len u16 · body_len u16 · attr [T, L, V…] · body;
/// T ∈ {1 v4, 2 v6, 3 host}, L counts value + port.
pub fn encode_rpfm(f: &Rpfm) -> Option<Vec<u8>> {
    let mut attr = vec![];
    if let Some(d) = &f.addr {
        match &d.host {
            Host::V4(a) => {
                attr.push(1);
                attr.push(6);
                attr.extend_from_slice(a);
            }
            Host::V6(a) => {
                attr.push(2);
                attr.push(18);
                attr.extend_from_slice(a);
            }
            Host::Name(n) => {
                if n.len() + 2 > 255 {
                    return None;
                }
                attr.push(3);
                attr.push((n.len() + 2) as u8);
                attr.extend_from_slice(n);
            }
        }
        attr.extend_from_slice(&d.port.to_be_bytes());
    }
    if f.body.len() > 65535 {
        return None;
    }
    let mut out = b"RPFM".to_vec();
    out.extend_from_slice(&f.session.to_be_bytes());
    out.extend_from_slice(&(attr.len() as u16).to_be_bytes());
    out.extend_from_slice(&(f.body.len() as u16).to_be_bytes());
    out.extend_from_slice(&attr);
    out.extend_from_slice(&f.body);
    Some(out)
}

/// Parse one frame from the start of `b`: Ok(None) = incomplete, Err = malformed.
pub fn parse_rpfm(b: &[u8]) -> Result<Option<(Rpfm, usize)>, String> {
    if b.len() < 12 {
        return Ok(None);
    }
    if &b[0..4] != b"RPFM" {
        return Err("bad magic".into());
    }
    let session = u32::from_be_bytes([b[4], b[5], b[6], b[7]]);
    let al = u16::from_be_bytes([b[8], b[9]]) as usize;
    let bl = u16::from_be_bytes([b[10], b[11]]) as usize;
    if b.len() < 12 + al + bl {
        return Ok(None);
    }
    let attr = &b[12..12 + al];
    let body = b[12 + al..12 + al + bl].to_vec();
    let addr = if attr.is_empty() {
        None
    } else {
        if attr.len() < 2 {
            return Err("short attr".into());
        }
        let t = attr[0];
        let l = attr[1] as usize;
        if attr.len() < 2 + l || l < 2 {
            return Err("attr length".into());
        }
        let v = &attr[2..2 + l];
        let port = u16::from_be_bytes([v[l - 2], v[l - 1]]);
        let hostb = &v[..l - 2];
        let host = match t {
            1 => {
                if hostb.len() != 4 {
                    return Err("v4 len".into());
                }
                let mut a = [0u8; 4];
                a.copy_from_slice(hostb);
                Host::V4(a)
            }
            2 => {
                if hostb.len() != 16 {
                    return Err("v6 len".into());
                }
                let mut a = [0u8; 16];
                a.copy_from_slice(hostb);
                Host::V6(a)
            }
            3 => Host::Name(hostb.to_vec()),
            _ => return Err("attr type".into()),
        };
        Some(Dest { host, port })
    };
    Ok(Some((Rpfm { session, addr, body }, 12 + al + bl)))
}

// ---------------------------------------------------------------- QUIC datagram fragments

/// id u16 · total u8 · seq u8 · payload
pub fn split_fragments(id: u16, mtu: usize, data: &[u8]) -> Option<Vec<Vec<u8>>> {
    if mtu <= 4 {
        return None;
    }
    let sz = mtu - 4;
    let total = (data.len() + sz - 1) / sz;
    if total > 255 {
        return None;
    }
    let mut out = vec![];
    for (i, chunk) in data.chunks(sz).enumerate() {
        let mut f = id.to_be_bytes().to_vec();
        f.push(total as u8);
        f.push(i as u8);
        f.extend_from_slice(chunk);
        out.push(f);
    }
    Some(out)
}
