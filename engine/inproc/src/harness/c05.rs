//! C05(a) — no peer-controlled input makes a decoder panic or spin (in-process sweep).
use crate::common::fragment::Fragments;
use crate::harness::c11::RawBuf;
use crate::harness::c12::{self, Msg};
use crate::harness::codec::{drive, run_async, Decoder, DriveFail};
use crate::harness::util::{catch, sel};
use bytes::Bytes;
use proptest::prelude::*;
use serde::{Deserialize, Serialize};
use serde_json::json;
use vcore::refcodec::{self as rc, Dest};
use vcore::{fail, CaseInfo, Failure, Part, SubCheck};

#[derive(Clone, Debug, Serialize, Deserialize)]
pub enum Base {
    Random(Vec<u8>),
    Msg(Msg),
    /// reply of an upstream HTTP proxy to our CONNECT
    UpstreamHttp { code: u16, reason: String, session: Option<String>, headers: Vec<(String, String)>, tail: Vec<u8> },
    /// replies of an upstream SOCKS5 server: method selection, optional auth status, reply
    UpstreamSocks5 { method: u8, auth_status: Option<u8>, rep: u8, dest: Dest, tail: Vec<u8> },
    UpstreamSocks4 { cd: u8, port: u16, ip: [u8; 4], tail: Vec<u8> },
    /// SOCKS5 UDP datagram
    SocksUdp { dest: Dest, body: Vec<u8> },
}

#[derive(Clone, Debug, Serialize, Deserialize)]
pub enum Mut {
    Flip { at: u16, bit: u8 },
    Set { at: u16, val: u8 },
    Truncate { at: u16 },
    Insert { at: u16, bytes: Vec<u8> },
    DupSlice { at: u16, len: u8 },
    /// set a byte to a boundary value (length-field perturbation)
    Bound { at: u16, which: u8 },
}

#[derive(Clone, Debug, Serialize, Deserialize)]
pub struct Case {
    pub dec_sel: u8,
    pub matched: bool,
    pub base: Base,
    pub muts: Vec<Mut>,
    pub cuts: Vec<u16>,
    pub bytewise: bool,
}

const DECODERS: &[Decoder] = &[
    Decoder::HttpReq,
    Decoder::HttpResp,
    Decoder::SocksReq { required: false },
    Decoder::SocksReq { required: true },
    Decoder::SocksResp,
    Decoder::Rpfm,
    Decoder::H11cHandshake,
    Decoder::H11cConnect { udp: false },
    Decoder::H11cConnect { udp: true },
    Decoder::SocksClient { v5: true, auth: false },
    Decoder::SocksClient { v5: true, auth: true },
    Decoder::SocksClient { v5: false, auth: false },
    Decoder::SocksUdp,
    Decoder::FrameBuf,
];

fn session_strategy() -> impl Strategy<Value = Option<String>> {
    prop::option::of(prop_oneof![
        Just("".to_string()),
        Just("0".to_string()),
        Just("7".to_string()),
        Just("4294967295".to_string()),
        Just("4294967296".to_string()),
        Just("-1".to_string()),
        Just("abc".to_string()),
        Just(" 12".to_string()),
        Just("99999999999999999999999".to_string()),
        "[0-9]{1,12}",
        "[ -~]{0,12}",
    ])
}

fn base_strategy() -> impl Strategy<Value = Base> {
    let tail = prop::collection::vec(any::<u8>(), 0..24);
    prop_oneof![
        2 => prop::collection::vec(any::<u8>(), 0..300).prop_map(Base::Random),
        1 => prop::collection::vec(prop_oneof![Just(0u8), Just(1), Just(3), Just(4), Just(5), Just(255), Just(b'R'), Just(b'\r'), Just(b'\n'), Just(b' '), Just(b':')], 0..64).prop_map(Base::Random),
        6 => c12::case_strategy().prop_map(|c| Base::Msg(c.msg)),
        3 => (prop_oneof![Just(200u16), Just(200), Just(407), Just(502), any::<u16>()], "[A-Za-z ]{0,20}", session_strategy(),
              prop::collection::vec(("[A-Za-z][A-Za-z0-9-]{0,12}", "[ -~]{0,20}"), 0..4), tail.clone())
            .prop_map(|(code, reason, session, headers, tail)| Base::UpstreamHttp { code, reason, session, headers, tail }),
        2 => (prop_oneof![Just(0u8), Just(2), Just(255), any::<u8>()], prop::option::of(prop_oneof![Just(0u8), Just(1), any::<u8>()]), prop_oneof![Just(0u8), 0u8..10], c12::dest_strategy(true, true), tail.clone())
            .prop_map(|(method, auth_status, rep, dest, tail)| Base::UpstreamSocks5 { method, auth_status, rep, dest, tail }),
        1 => (prop_oneof![Just(90u8), Just(91), Just(0), any::<u8>()], any::<u16>(), any::<[u8; 4]>(), tail).prop_map(|(cd, port, ip, tail)| Base::UpstreamSocks4 { cd, port, ip, tail }),
        2 => (c12::dest_strategy(true, true), prop::collection::vec(any::<u8>(), 0..64)).prop_map(|(dest, body)| Base::SocksUdp { dest, body }),
    ]
}

fn mut_strategy() -> impl Strategy<Value = Mut> {
    prop_oneof![
        3 => (any::<u16>(), 0u8..8).prop_map(|(at, bit)| Mut::Flip { at, bit }),
        3 => (any::<u16>(), any::<u8>()).prop_map(|(at, val)| Mut::Set { at, val }),
        2 => any::<u16>().prop_map(|at| Mut::Truncate { at }),
        1 => (any::<u16>(), prop::collection::vec(any::<u8>(), 1..8)).prop_map(|(at, bytes)| Mut::Insert { at, bytes }),
        1 => (any::<u16>(), 1u8..32).prop_map(|(at, len)| Mut::DupSlice { at, len }),
        3 => (any::<u16>(), 0u8..6).prop_map(|(at, which)| Mut::Bound { at, which }),
    ]
}

pub fn case_strategy() -> impl Strategy<Value = Case> {
    (
        any::<u8>(),
        prop::bool::weighted(0.8),
        base_strategy(),
        prop::collection::vec(mut_strategy(), 0..4),
        prop::collection::vec(any::<u16>(), 0..5),
        prop::bool::weighted(0.2),
    )
        .prop_map(|(dec_sel, matched, base, muts, cuts, bytewise)| Case {
            dec_sel,
            matched,
            base,
            muts,
            cuts,
            bytewise,
        })
}

fn hdrs(h: &[(String, String)]) -> Vec<(Vec<u8>, Vec<u8>)> {
    h.iter().map(|(k, v)| (k.as_bytes().to_vec(), v.as_bytes().to_vec())).collect()
}

/// (bytes, natural decoders)
fn encode_base(b: &Base) -> (Vec<u8>, Vec<Decoder>) {
    match b {
        Base::Random(v) => (v.clone(), DECODERS.to_vec()),
        Base::Msg(m) => {
            let e = c12::encode(m);
            let mut decs = vec![e.dec];
            match m {
                Msg::HttpReq { .. } => decs.push(Decoder::H11cHandshake),
                Msg::HttpResp { .. } => {
                    decs.push(Decoder::H11cConnect { udp: false });
                    decs.push(Decoder::H11cConnect { udp: true });
                }
                Msg::SocksResp5 { .. } | Msg::SocksResp4 { .. } => {}
                Msg::Rpfm { .. } => decs.push(Decoder::FrameBuf),
                _ => {}
            }
            (e.bytes, decs)
        }
        Base::UpstreamHttp { code, reason, session, headers, tail } => {
            let mut h = hdrs(headers);
            if let Some(s) = session {
                h.push((b"Session-Id".to_vec(), s.as_bytes().to_vec()));
            }
            let mut bytes = rc::encode_response(*code, reason.as_bytes(), &h);
            bytes.extend_from_slice(tail);
            (bytes, vec![Decoder::H11cConnect { udp: true }, Decoder::H11cConnect { udp: false }, Decoder::HttpResp])
        }
        Base::UpstreamSocks5 { method, auth_status, rep, dest, tail } => {
            let mut bytes = vec![5u8, *method];
            if let Some(s) = auth_status {
                bytes.extend_from_slice(&[1, *s]);
            }
            bytes.extend_from_slice(&rc::encode_socks5_reply(*rep, dest).unwrap());
            bytes.extend_from_slice(tail);
            (bytes, vec![Decoder::SocksClient { v5: true, auth: true }, Decoder::SocksClient { v5: true, auth: false }])
        }
        Base::UpstreamSocks4 { cd, port, ip, tail } => {
            let mut bytes = rc::encode_socks4_reply(*cd, *port, *ip);
            bytes.extend_from_slice(tail);
            (bytes, vec![Decoder::SocksClient { v5: false, auth: false }, Decoder::SocksResp])
        }
        Base::SocksUdp { dest, body } => (rc::encode_socks5_udp(dest, body).unwrap(), vec![Decoder::SocksUdp]),
    }
}

fn apply(mut v: Vec<u8>, m: &Mut) -> Vec<u8> {
    let n = v.len();
    match m {
        Mut::Flip { at, bit } => {
            if n > 0 {
                let i = sel(*at, n);
                v[i] ^= 1 << bit;
            }
        }
        Mut::Set { at, val } => {
            if n > 0 {
                let i = sel(*at, n);
                v[i] = *val;
            }
        }
        Mut::Truncate { at } => {
            v.truncate(sel(*at, n + 1));
        }
        Mut::Insert { at, bytes } => {
            let i = sel(*at, n + 1);
            let tail = v.split_off(i);
            v.extend_from_slice(bytes);
            v.extend_from_slice(&tail);
        }
        Mut::DupSlice { at, len } => {
            if n > 0 {
                let i = sel(*at, n);
                let j = (i + *len as usize).min(n);
                let s = v[i..j].to_vec();
                let tail = v.split_off(j);
                v.extend_from_slice(&s);
                v.extend_from_slice(&tail);
            }
        }
        Mut::Bound { at, which } => {
            if n > 0 {
                let i = sel(*at, n);
                v[i] = match which {
                    0 => 0,
                    1 => 255,
                    2 => v[i].wrapping_add(1),
                    3 => v[i].wrapping_sub(1),
                    4 => 128,
                    _ => 1,
                };
            }
        }
    }
    v
}

fn dec_name(d: Decoder) -> String {
    format!("{:?}", d).replace(' ', "")
}

pub fn run_case(case: &Case, info: &mut CaseInfo) -> Result<(), Failure> {
    let (base, natural) = encode_base(&case.base);
    let dec = if case.matched {
        natural[case.dec_sel as usize % natural.len()]
    } else {
        DECODERS[case.dec_sel as usize % DECODERS.len()]
    };
    let mut input = base.clone();
    for m in &case.muts {
        input = apply(input, m);
    }
    let n = input.len();
    let cuts: Vec<usize> = if case.bytewise {
        (1..n.min(300)).collect()
    } else {
        let mut c: Vec<usize> = case.cuts.iter().map(|s| sel(*s, n + 1)).filter(|c| *c > 0 && *c < n).collect();
        c.sort();
        c.dedup();
        c
    };
    let dest = Dest::name("upstream-target.example", 443);
    let res = run_async(async { drive(dec, &input, &cuts, Some(&dest)).await });
    let name = dec_name(dec);
    let out = match res {
        Ok(o) => o,
        Err(DriveFail::Panic(p)) => {
            fail!(
                format!("panic:{}:{}", name, p.class()),
                "{} panicked on {} input bytes ({:02x?}…): {}",
                name,
                n,
                &input[..n.min(24)],
                p.msg
            )
        }
        Err(DriveFail::Wedged) => fail!(format!("wedged:{}", name), "{} did not terminate on {} bytes + EOF", name, n),
    };
    let structured = !matches!(case.base, Base::Random(_));
    let first_diff = base.iter().zip(input.iter()).position(|(a, b)| a != b).unwrap_or(base.len().min(input.len()));
    let mutated = input != base;
    // got past the first field: structured base, mutated somewhere after the first two bytes
    info.nontrivial = structured && case.matched && mutated && first_diff >= 2;
    info.class(name);
    if out.parsed.is_some() {
        info.class("accepted");
    } else {
        info.class("rejected");
    }
    if info.nontrivial {
        info.class("deep-mutant");
    }
    info.sample = Some(json!({"decoder": dec_name(dec), "input_len": n, "first_mutated_offset": first_diff, "cuts": cuts.len(), "accepted": out.parsed.is_some(), "error": out.err}));
    Ok(())
}

/// make_fragments for every MTU a peer's transport parameters can induce, incl. 0..4
struct MtuSweep;
impl SubCheck for MtuSweep {
    fn property(&self) -> &'static str {
        "C05"
    }
    fn name(&self) -> &'static str {
        "mtu-sweep"
    }
    fn rule(&self) -> String {
        "exhaustive: make_fragments for every MTU 0..=65535 x frame lengths {1, 5, 1200, 65547}: no panic, every emitted fragment <= MTU; non-trivial = MTU < 16 or the frame needs > 128 fragments".into()
    }
    fn run(&self, part: &mut Part) {
        for mtu in 0usize..=65535 {
            for len in [1usize, 5, 1200, 65547] {
                let buf = Bytes::from(vec![7u8; len]);
                let r = catch(|| {
                    let mut id = 65535u16;
                    Fragments::<RawBuf>::make_fragments(mtu, &mut id, RawBuf(buf)).map(|f| f.len()).collect::<Vec<_>>()
                });
                let mut info = CaseInfo::default();
                let nfrag = if mtu > 4 { (len + mtu - 5) / (mtu - 4) } else { usize::MAX };
                info.nontrivial = mtu < 16 || nfrag > 128;
                let digest = (mtu as u64) << 32 | len as u64;
                part.account(digest, info);
                match r {
                    Ok(lens) => {
                        if lens.iter().any(|l| *l > mtu) {
                            part.record_failure(Failure::new("fragment-larger-than-mtu", format!("mtu={} len={}", mtu, len)), json!({"mtu": mtu, "len": len}));
                        }
                    }
                    Err(p) => {
                        part.record_failure(
                            Failure::new(format!("panic:make_fragments:{}", if mtu <= 4 { "mtu<=4" } else { "mtu>4" }), format!("mtu={} len={}: {}", mtu, len, p.msg)),
                            json!({"mtu": mtu, "len": len}),
                        );
                    }
                }
            }
        }
        part.exhaustive = true;
        part.samples.push(json!({"mtu": 3, "len": 5}));
        part.samples.push(json!({"mtu": 12, "len": 65547}));
    }
    fn replay(&self, case: &serde_json::Value) -> Result<(), Failure> {
        let mtu = case["mtu"].as_u64().unwrap_or(0) as usize;
        let len = case["len"].as_u64().unwrap_or(0) as usize;
        let buf = Bytes::from(vec![7u8; len]);
        match catch(|| {
            let mut id = 65535u16;
            Fragments::<RawBuf>::make_fragments(mtu, &mut id, RawBuf(buf)).map(|f| f.len()).collect::<Vec<_>>()
        }) {
            Ok(l) if l.iter().any(|x| *x > mtu) => Err(Failure::new("fragment-larger-than-mtu", "")),
            Ok(_) => Ok(()),
            Err(p) => Err(Failure::new("panic:make_fragments", p.msg)),
        }
    }
}

/// arbitrary datagram sequences into one reassembler (QUIC datagram channel)
#[derive(Clone, Debug, Serialize, Deserialize)]
pub struct DgramCase {
    pub dgrams: Vec<(u8, u8, u8, Vec<u8>)>,
    pub timer_every: u8,
}
fn run_dgrams(c: &DgramCase, info: &mut CaseInfo) -> Result<(), Failure> {
    use crate::common::frames::Frame;
    let mut f: Fragments<Frame> = Fragments::new(std::time::Duration::ZERO);
    for (i, (id, total, seq, body)) in c.dgrams.iter().enumerate() {
        // short datagrams: body shorter than the header when total == 255 && seq == 255
        let d: Vec<u8> = if *total == 255 && *seq == 255 {
            body.iter().take(3).cloned().collect()
        } else {
            let mut d = vec![0u8, *id % 4, *total, *seq];
            d.extend_from_slice(body);
            d
        };
        let shape = if d.len() < 4 { "short-datagram" } else if *total == 0 { "total=0" } else if *total > 128 { "total>128" } else if seq >= total { "seq>=total" } else { "valid-header" };
        if let Err(p) = catch(|| f.reassemble(Bytes::from(d.clone()))) {
            fail!(format!("panic:reassemble:{}", shape), "datagram #{} {:02x?}: {}", i, &d[..d.len().min(8)], p.msg);
        }
        if c.timer_every > 0 && i % c.timer_every as usize == 0 {
            if let Err(p) = catch(|| f.timer()) {
                fail!("panic:timer", "{}", p.msg);
            }
        }
    }
    info.nontrivial = c.dgrams.len() >= 2;
    info.sample = Some(json!({"datagrams": c.dgrams.len(), "first": c.dgrams.first().map(|d| (d.1, d.2, d.3.len()))}));
    Ok(())
}
fn dgram_strategy() -> impl Strategy<Value = DgramCase> {
    let hdr = prop_oneof![
        3 => (any::<u8>(), 0u8..6, 0u8..8),
        2 => (any::<u8>(), prop_oneof![Just(0u8), Just(1), Just(2), Just(127), Just(128), Just(129), Just(255)], prop_oneof![Just(0u8), Just(1), Just(126), Just(127), Just(128), Just(255)]),
        1 => (any::<u8>(), any::<u8>(), any::<u8>()),
    ];
    let body = prop_oneof![
        2 => prop::collection::vec(any::<u8>(), 0..8),
        1 => prop::collection::vec(any::<u8>(), 0..40).prop_map(|mut v| { let mut b = b"RPFM\0\0\0\x01".to_vec(); b.append(&mut v); b }),
    ];
    (prop::collection::vec((hdr, body).prop_map(|((a, b, c), d)| (a, b, c, d)), 1..24), 0u8..4).prop_map(|(dgrams, timer_every)| DgramCase { dgrams, timer_every })
}

/// Seed corpus for the libFuzzer target: valid (unmutated) messages of every format, one file per
/// (message, applicable decoder), in the target's input layout.
pub fn emit_corpus(dir: &str, n: usize, seed: u64) -> usize {
    use crate::harness::codec::FUZZ_DECODERS;
    let _ = std::fs::create_dir_all(dir);
    let part = vcore::Part::new("C05", "corpus", vcore::Tier::Quick, seed, "");
    let cases = part.draw("corpus", n, &case_strategy());
    let mut written = 0;
    for (i, c) in cases.iter().enumerate() {
        let (bytes, decs) = encode_base(&c.base);
        for d in decs {
            if let Some(idx) = FUZZ_DECODERS.iter().position(|x| *x == d) {
                let mut f = vec![idx as u8, [0u8, 1, 3, 255][i % 4]];
                f.extend_from_slice(&bytes);
                if f.len() <= 4096 && std::fs::write(format!("{}/seed-{:04}-{}", dir, i, idx), &f).is_ok() {
                    written += 1;
                }
            }
        }
    }
    written
}

pub fn checks() -> Vec<Box<dyn SubCheck>> {
    vec![
        Box::new(MtuSweep),
        Box::new(crate::harness::c11::HdrCheck("C05")),
        Box::new(vcore::PropCheck {
            property: "C05",
            name: "datagrams",
            rule: "sequences of 1-23 arbitrary QUIC datagrams (0-3 byte datagrams, boundary-biased (total,seq) headers, bodies that start like an RPFM frame) into one Fragments<Frame> reassembler with timer() interleaved; oracle: no panic; non-trivial = >= 2 datagrams",
            quick: 20_000,
            thorough: 1_000_000,
            max_shrink: 600,
            strategy: dgram_strategy,
            case: run_dgrams,
        }),
        Box::new(vcore::PropCheck {
            property: "C05",
            name: "decoders",
            rule: "every peer-facing decoder (HTTP request/response head, SOCKS request with auth optional/required, SOCKS reply, RPFM stream reader, listener-side h11c handshake, connector-side h11c CONNECT in tcp and udp mode incl. hostile Session-Id values, connector-side SOCKS4/5 client against hostile server replies, SOCKS5-UDP datagram, Frame::from_buffer) fed arbitrary bytes or a valid message from the reference encoders with 0-3 mutations (bit flip, byte set, truncation, insertion, slice duplication, length-field boundary values), under a generated segmentation, then EOF; oracle: no panic (dev-profile overflow checks on), terminates; non-trivial = valid base message for that decoder mutated at offset >= 2 (reaches past the first field) and not fully valid",
            quick: 40_000,
            thorough: 3_000_000,
            max_shrink: 600,
            strategy: case_strategy,
            case: run_case,
        }),
    ]
}
