//! C09 — the parser accepts the documented grammar, precedence and associativity (milu/readme.md),
//! and filler between tokens never changes the result.
use crate::harness::util::{catch, sel};
use milu::parser::parse;
use milu::script::stdlib::*;
use milu::script::{Call, Value};
use proptest::prelude::*;
use serde::{Deserialize, Serialize};
use serde_json::json;
use std::sync::Arc;
use vcore::{fail, CaseInfo, Failure, Part, SubCheck, Tier};

/// The README table, transcribed: (canonical spelling, alternative spellings, precedence x10, constructor).
pub struct BinOp {
    pub spell: &'static str,
    pub alt: &'static [&'static str],
    pub prec: u16,
    pub ctor: fn(Value, Value) -> Value,
}

pub const BIN: &[BinOp] = &[
    BinOp { spell: "*", alt: &[], prec: 60, ctor: |a, b| Multiply::make_call(a, b).into() },
    BinOp { spell: "/", alt: &[], prec: 60, ctor: |a, b| Divide::make_call(a, b).into() },
    BinOp { spell: "%", alt: &[], prec: 60, ctor: |a, b| Mod::make_call(a, b).into() },
    BinOp { spell: "+", alt: &[], prec: 50, ctor: |a, b| Plus::make_call(a, b).into() },
    BinOp { spell: "-", alt: &[], prec: 50, ctor: |a, b| Minus::make_call(a, b).into() },
    BinOp { spell: "<<", alt: &[], prec: 41, ctor: |a, b| ShiftLeft::make_call(a, b).into() },
    BinOp { spell: ">>", alt: &[], prec: 41, ctor: |a, b| ShiftRight::make_call(a, b).into() },
    BinOp { spell: ">>>", alt: &[], prec: 41, ctor: |a, b| ShiftRightUnsigned::make_call(a, b).into() },
    BinOp { spell: "<", alt: &[], prec: 40, ctor: |a, b| Lesser::make_call(a, b).into() },
    BinOp { spell: "<=", alt: &[], prec: 40, ctor: |a, b| LesserOrEqual::make_call(a, b).into() },
    BinOp { spell: ">", alt: &[], prec: 40, ctor: |a, b| Greater::make_call(a, b).into() },
    BinOp { spell: ">=", alt: &[], prec: 40, ctor: |a, b| GreaterOrEqual::make_call(a, b).into() },
    BinOp { spell: "==", alt: &[], prec: 30, ctor: |a, b| Equal::make_call(a, b).into() },
    BinOp { spell: "!=", alt: &[], prec: 30, ctor: |a, b| NotEqual::make_call(a, b).into() },
    BinOp { spell: "=~", alt: &[], prec: 30, ctor: |a, b| Like::make_call(a, b).into() },
    BinOp { spell: "!~", alt: &[], prec: 30, ctor: |a, b| NotLike::make_call(a, b).into() },
    BinOp { spell: "_:", alt: &[], prec: 30, ctor: |a, b| IsMemberOf::make_call(a, b).into() },
    BinOp { spell: "&", alt: &[], prec: 25, ctor: |a, b| BitAnd::make_call(a, b).into() },
    BinOp { spell: "^", alt: &[], prec: 24, ctor: |a, b| BitXor::make_call(a, b).into() },
    BinOp { spell: "|", alt: &[], prec: 23, ctor: |a, b| BitOr::make_call(a, b).into() },
    BinOp { spell: "&&", alt: &["and", "AND", "And", "aNd"], prec: 20, ctor: |a, b| And::make_call(a, b).into() },
    BinOp { spell: "^^", alt: &["xor", "XOR", "Xor", "xOr"], prec: 15, ctor: |a, b| Xor::make_call(a, b).into() },
    BinOp { spell: "||", alt: &["or", "OR", "Or", "oR"], prec: 10, ctor: |a, b| Or::make_call(a, b).into() },
];

pub const UN: &[(&str, fn(Value) -> Value)] = &[
    ("!", |a| Not::make_call(a).into()),
    ("~", |a| BitNot::make_call(a).into()),
    ("-", |a| Negative::make_call(a).into()),
];

#[derive(Clone, Debug, PartialEq, Serialize, Deserialize)]
pub enum E {
    Id(String),
    Int(u64, u8),
    Str(String),
    Bool(bool),
    /// (operator index, spelling index: 0 = canonical, k = alt[k-1])
    Bin(u8, u8, Box<E>, Box<E>),
    Un(u8, Box<E>),
    Index(Box<E>, Box<E>),
    Access(Box<E>, String),
    TupleAccess(Box<E>, u8),
    Call(Box<E>, Vec<E>),
    Cond(Box<E>, Box<E>, Box<E>),
    If(Box<E>, Box<E>, Box<E>),
    Let(Vec<(String, E)>, Box<E>),
    Array(Vec<E>),
    Tuple(Vec<E>),
    /// literal pieces and elements alternate: (literal text, element)
    Template(Vec<(String, Option<E>)>),
}

fn prec(e: &E) -> u16 {
    match e {
        E::Bin(i, _, _, _) => BIN[*i as usize].prec,
        E::Un(..) => 70,
        E::Index(..) | E::Access(..) | E::TupleAccess(..) | E::Call(..) => 80,
        E::Cond(..) | E::If(..) | E::Let(..) => 0,
        _ => 99,
    }
}

fn escape_str(s: &str) -> String {
    let mut o = String::from("\"");
    for c in s.chars() {
        match c {
            '"' => o.push_str("\\\""),
            '\\' => o.push_str("\\\\"),
            '\n' => o.push_str("\\n"),
            '\t' => o.push_str("\\t"),
            '\r' => o.push_str("\\r"),
            c => o.push(c),
        }
    }
    o.push('"');
    o
}

/// Print into tokens. `full` = parenthesise every non-leaf operand.
fn toks(e: &E, full: bool, out: &mut Vec<String>) {
    let wrap = |child: &E, need: bool, out: &mut Vec<String>| {
        let need = if full { prec(child) < 99 } else { need };
        if need {
            out.push("(".into());
            toks(child, full, out);
            out.push(")".into());
        } else {
            toks(child, full, out);
        }
    };
    match e {
        E::Id(s) => out.push(s.clone()),
        E::Int(v, radix) => out.push(match radix {
            1 => format!("0x{:x}", v),
            2 => format!("0o{:o}", v),
            3 => format!("0b{:b}", v),
            4 => format!("0X{:X}", v),
            _ => format!("{}", v),
        }),
        E::Str(s) => out.push(escape_str(s)),
        E::Bool(b) => out.push(b.to_string()),
        E::Bin(i, sp, l, r) => {
            let op = &BIN[*i as usize];
            wrap(l, prec(l) < op.prec, out);
            out.push(if *sp == 0 { op.spell.to_string() } else { op.alt[(*sp as usize - 1) % op.alt.len().max(1)].to_string() });
            wrap(r, prec(r) <= op.prec, out);
        }
        E::Un(i, c) => {
            out.push(UN[*i as usize].0.to_string());
            wrap(c, prec(c) < 70, out);
        }
        E::Index(o, i) => {
            wrap(o, prec(o) < 80, out);
            out.push("[".into());
            toks(i, full, out);
            out.push("]".into());
        }
        E::Access(o, f) => {
            wrap(o, prec(o) < 80, out);
            out.push(".".into());
            out.push(f.clone());
        }
        E::TupleAccess(o, n) => {
            wrap(o, prec(o) < 80, out);
            out.push(".".into());
            out.push(n.to_string());
        }
        E::Call(f, args) => {
            wrap(f, prec(f) < 80, out);
            out.push("(".into());
            for (k, a) in args.iter().enumerate() {
                if k > 0 {
                    out.push(",".into());
                }
                toks(a, full, out);
            }
            out.push(")".into());
        }
        E::Cond(c, y, n) => {
            // right-to-left: a condition of equal precedence needs parentheses
            wrap(c, prec(c) == 0, out);
            out.push("?".into());
            wrap(y, false, out);
            out.push(":".into());
            wrap(n, prec(n) == 0 && !matches!(**n, E::Cond(..)), out);
        }
        E::If(c, y, n) => {
            out.push("if".into());
            wrap(c, false, out);
            out.push("then".into());
            wrap(y, false, out);
            out.push("else".into());
            wrap(n, prec(n) == 0 && !matches!(**n, E::If(..)), out);
        }
        E::Let(vars, body) => {
            out.push("let".into());
            for (k, (name, v)) in vars.iter().enumerate() {
                if k > 0 {
                    out.push(";".into());
                }
                out.push(name.clone());
                out.push("=".into());
                wrap(v, false, out);
            }
            out.push("in".into());
            wrap(body, prec(body) == 0 && !matches!(**body, E::Let(..)), out);
        }
        E::Array(items) => {
            out.push("[".into());
            for (k, a) in items.iter().enumerate() {
                if k > 0 {
                    out.push(",".into());
                }
                toks(a, full, out);
            }
            out.push("]".into());
        }
        E::Tuple(items) => {
            out.push("(".into());
            for a in items.iter() {
                toks(a, full, out);
                out.push(",".into());
            }
            if items.len() >= 2 {
                out.pop();
            }
            out.push(")".into());
        }
        E::Template(parts) => {
            // token boundaries: "`lit${" expr "}lit${" expr "}lit`" — the literal pieces are atomic
            let mut cur = String::from("`");
            for (lit, el) in parts {
                cur.push_str(lit);
                if let Some(el) = el {
                    cur.push_str("${");
                    out.push(std::mem::take(&mut cur));
                    toks(el, full, out);
                    cur.push('}');
                }
            }
            cur.push('`');
            out.push(cur);
        }
    }
}

fn build(e: &E) -> Value {
    match e {
        E::Id(s) => Value::Identifier(s.clone()),
        E::Int(v, _) => Value::Integer(*v as i64),
        E::Str(s) => Value::String(s.clone()),
        E::Bool(b) => Value::Boolean(*b),
        E::Bin(i, _, l, r) => (BIN[*i as usize].ctor)(build(l), build(r)),
        E::Un(i, c) => (UN[*i as usize].1)(build(c)),
        E::Index(o, i) => Index::make_call(build(o), build(i)).into(),
        E::Access(o, f) => Access::make_call(build(o), Value::Identifier(f.clone())).into(),
        E::TupleAccess(o, n) => Access::make_call(build(o), Value::Integer(*n as i64)).into(),
        E::Call(f, args) => {
            let mut v = vec![build(f)];
            v.extend(args.iter().map(build));
            Call::new(v).into()
        }
        E::Cond(c, y, n) | E::If(c, y, n) => If::make_call(build(c), build(y), build(n)).into(),
        E::Let(vars, body) => {
            let vs: Vec<Value> = vars
                .iter()
                .map(|(n, v)| Value::Tuple(Arc::new(vec![Value::Identifier(n.clone()), build(v)])))
                .collect();
            Scope::make_call(vs.into(), build(body)).into()
        }
        E::Array(items) => Value::Array(Arc::new(items.iter().map(build).collect())),
        E::Tuple(items) => Value::Tuple(Arc::new(items.iter().map(build).collect())),
        E::Template(parts) => {
            let mut v: Vec<Value> = vec![];
            let mut cur = String::new();
            for (lit, el) in parts {
                cur.push_str(lit);
                if let Some(el) = el {
                    if !cur.is_empty() {
                        v.push(Value::String(std::mem::take(&mut cur)));
                    }
                    v.push(build(el));
                }
            }
            if !cur.is_empty() {
                v.push(Value::String(cur));
            }
            StringConcat::make_call(Value::Array(Arc::new(v))).into()
        }
    }
}

fn is_word(c: char) -> bool {
    c.is_ascii_alphanumeric() || c == '_'
}

/// Must two adjacent tokens be separated to stay two tokens?
fn must_separate(a: &str, b: &str) -> bool {
    let la = a.chars().last().unwrap_or(' ');
    let fb = b.chars().next().unwrap_or(' ');
    if is_word(la) && is_word(fb) {
        return true;
    }
    // operator characters that would fuse into a different token
    let opc = |c: char| "<>=!~&|^*/%+-_:#.?".contains(c);
    (opc(la) && opc(fb)) || (is_word(la) && fb == '_') || (la == '_' && is_word(fb))
}

pub const FILLERS: &[&str] = &[" ", "\t", "\n", "\r\n", "  ", "/**/", "/* c */", "/* a\n * b */", "/* # */", "# eol\n", "#\n", "#x\r\n", " /* / * */ ", "\n\n#//\n"];

fn join(tokens: &[String], fill: &dyn Fn(usize) -> Option<&'static str>) -> String {
    let mut s = String::new();
    for (i, t) in tokens.iter().enumerate() {
        if i > 0 {
            match fill(i) {
                Some(f) => s.push_str(f),
                None => {
                    if must_separate(&tokens[i - 1], t) {
                        s.push(' ');
                    }
                }
            }
        }
        s.push_str(t);
    }
    s
}

/// minimal-parentheses rendering with single blanks (used by C08 / C18 to print generated programs)
pub fn render_min(e: &E) -> String {
    let mut t = vec![];
    toks(e, false, &mut t);
    let mut s = String::new();
    for (i, x) in t.iter().enumerate() {
        if i > 0 && !x.starts_with('}') && !t[i - 1].ends_with("${") {
            s.push(' ');
        }
        s.push_str(x);
    }
    s
}
pub fn op_key_pub(e: &E) -> String {
    op_key(e)
}
pub fn count_ops_pub(e: &E, levels: &mut Vec<u16>) {
    count_ops(e, levels);
    levels.sort();
    levels.dedup();
}

fn describe(e: &E) -> String {
    let mut t = vec![];
    toks(e, false, &mut t);
    join(&t, &|_| Some(" "))
}

fn count_ops(e: &E, levels: &mut Vec<u16>) {
    match e {
        E::Bin(_, _, l, r) => {
            levels.push(prec(e));
            count_ops(l, levels);
            count_ops(r, levels);
        }
        E::Un(_, c) => {
            levels.push(70);
            count_ops(c, levels);
        }
        E::Index(o, i) => {
            levels.push(80);
            count_ops(o, levels);
            count_ops(i, levels);
        }
        E::Access(o, _) | E::TupleAccess(o, _) => {
            levels.push(80);
            count_ops(o, levels);
        }
        E::Call(f, a) => {
            levels.push(80);
            count_ops(f, levels);
            a.iter().for_each(|x| count_ops(x, levels));
        }
        E::Cond(c, y, n) | E::If(c, y, n) => {
            levels.push(0);
            count_ops(c, levels);
            count_ops(y, levels);
            count_ops(n, levels);
        }
        E::Let(v, b) => {
            levels.push(0);
            v.iter().for_each(|(_, x)| count_ops(x, levels));
            count_ops(b, levels);
        }
        E::Array(v) | E::Tuple(v) => v.iter().for_each(|x| count_ops(x, levels)),
        E::Template(p) => p.iter().for_each(|(_, x)| {
            if let Some(x) = x {
                count_ops(x, levels)
            }
        }),
        _ => {}
    }
}

fn op_key(e: &E) -> String {
    // the root operator and the first operator below it: a stable, input-shaped key
    fn name(e: &E) -> String {
        match e {
            E::Bin(i, sp, _, _) => {
                let op = &BIN[*i as usize];
                if *sp == 0 {
                    op.spell.to_string()
                } else {
                    op.alt[(*sp as usize - 1) % op.alt.len().max(1)].to_ascii_lowercase()
                }
            }
            E::Un(i, _) => format!("u{}", UN[*i as usize].0),
            E::Index(..) => "[]".into(),
            E::Access(..) | E::TupleAccess(..) => ".".into(),
            E::Call(..) => "()".into(),
            E::Cond(..) => "?:".into(),
            E::If(..) => "if".into(),
            E::Let(..) => "let".into(),
            E::Array(..) => "array".into(),
            E::Tuple(..) => "tuple".into(),
            E::Template(..) => "template".into(),
            _ => "leaf".into(),
        }
    }
    fn first_child_op(e: &E) -> Option<String> {
        let kids: Vec<&E> = match e {
            E::Bin(_, _, l, r) => vec![l, r],
            E::Un(_, c) => vec![c],
            E::Index(o, i) => vec![o, i],
            E::Access(o, _) | E::TupleAccess(o, _) => vec![o],
            E::Call(f, a) => std::iter::once(&**f).chain(a.iter()).collect(),
            E::Cond(c, y, n) | E::If(c, y, n) => vec![c, y, n],
            E::Let(v, b) => v.iter().map(|(_, x)| x).chain(std::iter::once(&**b)).collect(),
            E::Array(v) | E::Tuple(v) => v.iter().collect(),
            E::Template(p) => p.iter().filter_map(|(_, x)| x.as_ref()).collect(),
            _ => vec![],
        };
        kids.into_iter().find(|k| prec(k) < 99 || matches!(k, E::Array(..) | E::Tuple(..) | E::Template(..))).map(name)
    }
    match first_child_op(e) {
        Some(c) => format!("{}/{}", name(e), c),
        None => name(e),
    }
}

/// Check one expression in its three renderings.
fn check_expr(e: &E, fills: &[Vec<u16>], info: &mut CaseInfo) -> Result<(), Failure> {
    let want = build(e);
    let mut tmin = vec![];
    toks(e, false, &mut tmin);
    let mut tfull = vec![];
    toks(e, true, &mut tfull);
    // base renderings: one blank between tokens, except at the inner edges of a template element
    // (filler there is exercised separately below)
    let base = |t: &[String]| -> String {
        let mut s = String::new();
        for (i, x) in t.iter().enumerate() {
            if i > 0 && !x.starts_with('}') && !t[i - 1].ends_with("${") {
                s.push(' ');
            }
            s.push_str(x);
        }
        s
    };
    let smin = base(&tmin);
    let sfull = base(&tfull);
    let key = op_key(e);
    for (what, src) in [("minimal", &smin), ("full", &sfull)] {
        let r = match catch(|| parse(src)) {
            Ok(r) => r,
            Err(p) => fail!(format!("parser-panic:{}", key), "parse({:?}) panicked: {}", src, p.msg),
        };
        match r {
            Ok(v) => {
                if v != want {
                    fail!(
                        format!("wrong-tree:{}:{}", what, key),
                        "{:?} ({} parentheses) parsed to {} but the table gives {}",
                        src,
                        what,
                        v,
                        want
                    );
                }
            }
            Err(err) if err.to_string().contains("nested too deep") => {
                info.class("nesting-limit");
                return Ok(());
            }
            Err(err) => fail!(
                format!("rejected:{}:{}", what, key),
                "{:?} ({} parentheses) is rejected: {}",
                src,
                what,
                err.to_string().lines().next().unwrap_or("")
            ),
        }
    }
    // filler at token boundaries of the minimal rendering
    let mut comment = false;
    for f in fills {
        if f.is_empty() {
            continue;
        }
        let pick = |i: usize| -> Option<&'static str> {
            let s = f[i % f.len()];
            // 0 => nothing (if allowed), otherwise a filler
            let k = sel(s, FILLERS.len() + 1);
            if k == 0 {
                None
            } else {
                Some(FILLERS[k - 1])
            }
        };
        let src = join(&tmin, &pick);
        if src.contains("/*") || src.contains('#') {
            comment = true;
        }
        let r = match catch(|| parse(&src)) {
            Ok(r) => r,
            Err(p) => fail!(format!("parser-panic:{}", key), "parse({:?}) panicked: {}", src, p.msg),
        };
        let kind = if src.contains("#\n") {
            "empty-eol-comment"
        } else if src.contains('#') {
            "eol-comment"
        } else if src.contains("/*") {
            "block-comment"
        } else {
            "blank"
        };
        match r {
            Ok(v) => {
                if v != want {
                    fail!(format!("filler-changes-tree:{}:{}", kind, key), "{:?} parsed to {} but without filler to {}", src, v, want);
                }
            }
            Err(err) if err.to_string().contains("nested too deep") => {
                info.class("nesting-limit");
            }
            Err(err) => {
                let in_template = matches!(e, E::Template(..)) || src.contains("${");
                fail!(
                    format!("filler-rejected:{}{}", kind, if in_template { ":template" } else { "" }),
                    "{:?} is rejected although {:?} parses: {}",
                    src,
                    smin,
                    err.to_string().lines().next().unwrap_or("")
                );
            }
        }
    }
    let mut levels = vec![];
    count_ops(e, &mut levels);
    levels.sort();
    levels.dedup();
    info.nontrivial = levels.len() >= 2 || comment;
    Ok(())
}

// ------------------------------------------------------------------ enumerations

fn leaf(n: &mut usize) -> E {
    *n += 1;
    E::Id(format!("{}{}", ["x", "y", "z", "w", "v", "u"][(*n - 1) % 6], *n))
}

/// all trees with exactly k operator nodes (binary: canonical spellings)
fn trees(k: usize) -> Vec<E> {
    fn shapes(k: usize) -> Vec<E> {
        if k == 0 {
            return vec![E::Id(String::new())];
        }
        let mut out = vec![];
        for t in shapes(k - 1) {
            for u in 0..UN.len() {
                out.push(E::Un(u as u8, Box::new(t.clone())));
            }
            out.push(E::Index(Box::new(t.clone()), Box::new(E::Id(String::new()))));
            out.push(E::Access(Box::new(t.clone()), "f".into()));
            out.push(E::Call(Box::new(t.clone()), vec![E::Id(String::new())]));
        }
        for i in 0..k {
            let ls = shapes(i);
            let rs = shapes(k - 1 - i);
            for l in &ls {
                for r in &rs {
                    for b in 0..BIN.len() {
                        out.push(E::Bin(b as u8, 0, Box::new(l.clone()), Box::new(r.clone())));
                    }
                }
            }
        }
        for i in 0..k {
            for j in 0..(k - i) {
                let l = k - 1 - i - j;
                if i + j + l != k - 1 {
                    continue;
                }
                // bound: at most one non-leaf child pair
                for c in shapes(i) {
                    for y in shapes(j) {
                        for n in shapes(l) {
                            out.push(E::Cond(Box::new(c.clone()), Box::new(y.clone()), Box::new(n.clone())));
                        }
                    }
                }
            }
        }
        out
    }
    fn name_leaves(e: &mut E, n: &mut usize) {
        match e {
            E::Id(s) => {
                if s.is_empty() {
                    *e = leaf(n);
                }
            }
            E::Bin(_, _, l, r) => {
                name_leaves(l, n);
                name_leaves(r, n);
            }
            E::Un(_, c) => name_leaves(c, n),
            E::Index(o, i) => {
                name_leaves(o, n);
                name_leaves(i, n);
            }
            E::Access(o, _) | E::TupleAccess(o, _) => name_leaves(o, n),
            E::Call(f, a) => {
                name_leaves(f, n);
                a.iter_mut().for_each(|x| name_leaves(x, n));
            }
            E::Cond(c, y, z) | E::If(c, y, z) => {
                name_leaves(c, n);
                name_leaves(y, n);
                name_leaves(z, n);
            }
            _ => {}
        }
    }
    let mut v = shapes(k);
    for e in v.iter_mut() {
        let mut n = 0;
        name_leaves(e, &mut n);
    }
    v
}

fn singles() -> Vec<E> {
    let id = |s: &str| Box::new(E::Id(s.to_string()));
    let mut v = vec![];
    for (i, op) in BIN.iter().enumerate() {
        for sp in 0..=op.alt.len() {
            v.push(E::Bin(i as u8, sp as u8, id("x1"), id("y2")));
        }
    }
    for u in 0..UN.len() {
        v.push(E::Un(u as u8, id("x1")));
        v.push(E::Un(u as u8, Box::new(E::Un(((u + 1) % 3) as u8, id("x1")))));
    }
    v.push(E::Index(id("x1"), id("y2")));
    v.push(E::Access(id("x1"), "field".into()));
    v.push(E::TupleAccess(id("x1"), 0));
    v.push(E::Call(id("f1"), vec![]));
    v.push(E::Call(id("f1"), vec![E::Id("x1".into()), E::Id("y2".into())]));
    v.push(E::Cond(id("x1"), id("y2"), id("z3")));
    v.push(E::If(id("x1"), id("y2"), id("z3")));
    v.push(E::Let(vec![("a1".into(), E::Int(1, 0))], id("a1")));
    v.push(E::Let(vec![("a1".into(), E::Int(1, 0)), ("b2".into(), E::Id("q".into()))], Box::new(E::Bin(3, 0, id("a1"), id("b2")))));
    // same-kind tail nesting (right-to-left / pinned by the repository's own tests)
    v.push(E::Cond(id("x1"), id("y2"), Box::new(E::Cond(id("z3"), id("w4"), id("v5")))));
    v.push(E::Cond(Box::new(E::Cond(id("x1"), id("y2"), id("z3"))), id("w4"), id("v5")));
    v.push(E::If(id("x1"), id("y2"), Box::new(E::If(id("z3"), id("w4"), id("v5")))));
    v.push(E::If(Box::new(E::If(id("x1"), id("y2"), id("z3"))), id("w4"), id("v5")));
    for r in 0..5u8 {
        v.push(E::Int(255, r));
    }
    v.push(E::Int(i64::MAX as u64, 0));
    v.push(E::Array(vec![]));
    v.push(E::Array(vec![E::Int(1, 0), E::Int(2, 0)]));
    v.push(E::Tuple(vec![]));
    v.push(E::Tuple(vec![E::Int(1, 0)]));
    v.push(E::Tuple(vec![E::Int(1, 0), E::Str("a".into())]));
    v.push(E::Str("a \"q\" \\ \n\t b".into()));
    v.push(E::Template(vec![("a=".into(), Some(E::Bin(3, 0, id("x1"), id("y2")))), ("!".into(), None)]));
    v.push(E::Template(vec![("".into(), Some(E::Id("x1".into()))), ("".into(), Some(E::Template(vec![("n=".into(), Some(E::Id("y2".into())))])))]));
    v
}

#[derive(Clone, Debug, Serialize, Deserialize)]
pub struct ExprCase {
    pub e: E,
    pub fills: Vec<Vec<u16>>,
}

fn run_expr_case(c: &ExprCase, info: &mut CaseInfo) -> Result<(), Failure> {
    check_expr(&c.e, &c.fills, info)?;
    info.sample = Some(json!({"expr": describe(&c.e)}));
    Ok(())
}

struct TableCheck;
impl SubCheck for TableCheck {
    fn property(&self) -> &'static str {
        "C09"
    }
    fn name(&self) -> &'static str {
        "table"
    }
    fn rule(&self) -> String {
        "exhaustive over the README table: every operator and spelling alone (incl. mixed-case and/or/xor, ^^, >=, <=, >>>, _:, =~, !~, ?:, if, let, index, access, call, literals, arrays, tuples, templates), every expression tree with exactly 2 operator nodes over {23 binary, 3 unary, index/access/call, ?:} (2142 trees), and (quick: a seeded sample of 30000; thorough: all ~170 000) trees with 3 operator nodes; each printed with only the parentheses the table requires and fully parenthesised, each with 3 filler patterns (blank / block comment / eol comment incl. empty ones) at every token boundary; oracle: parses to the tree built directly from the builtin constructors; non-trivial = operators of >= 2 precedence levels or a comment filler".into()
    }
    fn run(&self, part: &mut Part) {
        let fills: Vec<Vec<u16>> = vec![vec![6000], vec![30000, 0, 50000, 20000], vec![45000, 65000, 9000, 0, 62000]];
        let mut all: Vec<E> = singles();
        all.extend(trees(2));
        let t3 = trees(3);
        let total3 = t3.len();
        if part.tier == Tier::Thorough {
            all.extend(t3);
            part.exhaustive = true;
        } else {
            // seeded sample without replacement (stride walk)
            let n = 30000usize.min(total3);
            let start = (part.sub_seed("t3") as usize) % total3;
            let stride = 7919usize; // prime, coprime with the count in practice
            let mut idx = start;
            for _ in 0..n {
                all.push(t3[idx].clone());
                idx = (idx + stride) % total3;
            }
        }
        part.extra.insert("trees_with_3_operators".into(), json!(total3));
        for (k, e) in all.iter().enumerate() {
            // rotate filler patterns so that every pattern meets every operator
            let f = vec![fills[k % 3].clone(), fills[(k + 1) % 3].iter().map(|x| x.wrapping_mul(3).wrapping_add(k as u16)).collect()];
            let c = ExprCase { e: e.clone(), fills: f };
            part.run_case(&c, &|c, i| run_expr_case(c, i));
        }
        part.samples.truncate(0);
        for e in all.iter().step_by(all.len() / 4 + 1) {
            part.samples.push(json!({"expr": describe(e)}));
        }
    }
    fn replay(&self, case: &serde_json::Value) -> Result<(), Failure> {
        let c: ExprCase = serde_json::from_value(case.clone()).map_err(|e| Failure::new("replay-decode", e.to_string()))?;
        run_expr_case(&c, &mut CaseInfo::default())
    }
}

// ------------------------------------------------------------------ random deeper trees

fn ident() -> impl Strategy<Value = String> {
    (0usize..6, 1u8..10).prop_map(|(a, n)| format!("{}{}", ["x", "y", "z", "w", "v", "q"][a], n))
}

pub fn expr_strategy() -> impl Strategy<Value = E> {
    let leaf = prop_oneof![
        4 => ident().prop_map(E::Id),
        2 => (prop_oneof![Just(0u64), Just(1), Just(63), Just(64), Just(i64::MAX as u64), any::<u32>().prop_map(|x| x as u64)], 0u8..5).prop_map(|(v, r)| E::Int(v, r)),
        1 => any::<bool>().prop_map(E::Bool),
        2 => "[ -~]{0,12}".prop_map(E::Str),
        1 => "[a-z #/*\\\\\"\n\t]{0,8}".prop_map(E::Str),
    ];
    leaf.prop_recursive(5, 40, 4, |inner| {
        prop_oneof![
            6 => (0..BIN.len() as u8, 0u8..5, inner.clone(), inner.clone()).prop_map(|(i, sp, l, r)| {
                let sp = if BIN[i as usize].alt.is_empty() { 0 } else { sp % (BIN[i as usize].alt.len() as u8 + 1) };
                E::Bin(i, sp, Box::new(l), Box::new(r))
            }),
            2 => (0..UN.len() as u8, inner.clone()).prop_map(|(i, c)| E::Un(i, Box::new(c))),
            1 => (inner.clone(), inner.clone()).prop_map(|(o, i)| E::Index(Box::new(o), Box::new(i))),
            1 => (inner.clone(), ident()).prop_map(|(o, f)| E::Access(Box::new(o), f)),
            1 => (ident(), 0u8..4).prop_map(|(o, n)| E::TupleAccess(Box::new(E::Id(o)), n)),
            1 => (inner.clone(), prop::collection::vec(inner.clone(), 0..3)).prop_map(|(f, a)| E::Call(Box::new(f), a)),
            1 => (inner.clone(), inner.clone(), inner.clone()).prop_map(|(c, y, n)| E::Cond(Box::new(c), Box::new(y), Box::new(n))),
            1 => (inner.clone(), inner.clone(), inner.clone()).prop_map(|(c, y, n)| E::If(Box::new(c), Box::new(y), Box::new(n))),
            1 => (prop::collection::vec((ident(), inner.clone()), 1..3), inner.clone()).prop_map(|(v, b)| E::Let(v, Box::new(b))),
            1 => prop::collection::vec(inner.clone(), 0..4).prop_map(E::Array),
            1 => prop::collection::vec(inner.clone(), 0..4).prop_map(E::Tuple),
            1 => prop::collection::vec(("[a-z =]{0,5}", prop::option::of(inner.clone())), 1..3).prop_map(E::Template),
        ]
    })
}

fn bracket_depth(e: &E) -> usize {
    // parse time doubles per bracket level (DESIGN §4 #38): keep generated nesting moderate
    let mut t = vec![];
    toks(e, true, &mut t);
    let mut d = 0usize;
    let mut m = 0usize;
    for x in &t {
        if x == "(" || x == "[" || x.ends_with("${") {
            d += 1;
            m = m.max(d);
        } else if x == ")" || x == "]" || x.starts_with('}') {
            d = d.saturating_sub(1);
        }
    }
    m
}

pub fn checks() -> Vec<Box<dyn SubCheck>> {
    vec![
        Box::new(TableCheck),
        Box::new(vcore::PropCheck {
            property: "C09",
            name: "random",
            rule: "random expression trees to depth 5 over every construct of the table plus literals (decimal/0x/0o/0b integers, strings with escapes, booleans), arrays, tuples, templates with nested ${}, let with 1-2 bindings, if, ?:; printed minimally and fully parenthesised and with 2 generated filler patterns (blank / comments incl. empty and multi-line) at every token boundary; bracket nesting of the fully parenthesised form capped at 12 (the parser limits nesting to 16 levels); oracle: tree built from the builtin constructors; non-trivial = >= 2 precedence levels or a comment filler",
            quick: 12_000,
            thorough: 400_000,
            max_shrink: 3000,
            strategy: || {
                (expr_strategy().prop_filter("bracket nesting", |e| bracket_depth(e) <= 12), prop::collection::vec(prop::collection::vec(any::<u16>(), 1..8), 2..3))
                    .prop_map(|(e, fills)| ExprCase { e, fills })
            },
            case: run_expr_case,
        }),
    ]
}
