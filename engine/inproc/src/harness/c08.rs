//! C08 — rule-language type soundness: an expression the checker accepts with type T never panics and
//! never fails with a type error at request time; it yields a T (equal to the reference value where the
//! documentation defines one) or an inherently dynamic error.
use crate::context::{ContextProps, Feature, TargetAddress};
use crate::harness::c09::{E, BIN, UN};
use crate::harness::util::catch;
use crate::rules::script_ext::create_context;
use milu::parser::parse;
use milu::script::{Evaluatable, ScriptContextRef, Type, Value};
use proptest::prelude::*;
use serde::{Deserialize, Serialize};
use serde_json::json;
use std::collections::BTreeSet;
use std::net::SocketAddr;
use std::rc::Rc;
use std::sync::Arc;
use vcore::{fail, CaseInfo, Failure, Part, SubCheck, Tier};

#[derive(Clone, Debug, PartialEq, Eq, Serialize, Deserialize)]
pub enum Ty {
    Int,
    Str,
    Bool,
    Arr(Box<Ty>),
    Tup(Vec<Ty>),
}

#[derive(Clone, Debug, Serialize, Deserialize)]
pub struct EnvSpec {
    pub listener: u8,
    pub connector: u8,
    pub source_v6: bool,
    pub source_port: u16,
    pub target_kind: u8,
    pub target_host: u8,
    pub target_port: u16,
    pub feature: u8,
}

const LISTENERS: &[&str] = &["http", "socks", "", "l-1", "LONG"];
const HOSTS: &[&str] = &["example.com", "a", "", "80", "10.1.2.3", "x,y", "LONG"];

fn long_string() -> String {
    // large compared to anything a client protocol carries in practice; a regex whose *pattern* is this
    // string costs O(n^2), which bounds the size that is affordable per case
    "h".repeat(8192)
}

pub fn make_props(env: &EnvSpec) -> ContextProps {
    // the 8 KiB string is used for ~3% of the draws (it dominates the run time otherwise)
    let pick = |tbl: &[&str], i: u8| -> String {
        if i >= 248 {
            return long_string();
        }
        let n = tbl.len() - 1;
        tbl[i as usize % n].to_string()
    };
    let source: SocketAddr = if env.source_v6 {
        format!("[2001:db8::7]:{}", env.source_port).parse().unwrap()
    } else {
        format!("192.0.2.9:{}", env.source_port).parse().unwrap()
    };
    let target = match env.target_kind % 3 {
        0 => TargetAddress::DomainPort(pick(HOSTS, env.target_host), env.target_port),
        1 => TargetAddress::from((0x0a010203u32, env.target_port)),
        _ => TargetAddress::from(([0x20, 1, 0xd, 0xb8, 0, 0, 0, 0, 0, 0, 0, 0, 0, 0, 0, 9], env.target_port)),
    };
    ContextProps {
        id: 1,
        listener: pick(LISTENERS, env.listener),
        connector: if env.connector % 3 == 0 { None } else { Some(pick(LISTENERS, env.connector)) },
        source,
        target,
        request_feature: match env.feature % 4 {
            0 => Feature::TcpForward,
            1 => Feature::UdpForward,
            2 => Feature::UdpBind,
            _ => Feature::TcpBind,
        },
        ..Default::default()
    }
}

// ------------------------------------------------------------------ reference interpreter

#[derive(Clone, Debug, PartialEq)]
pub enum V {
    I(i64),
    S(String),
    /// a string whose content the documentation does not pin (to_string of a string)
    SOpaque,
    B(bool),
    A(Vec<Thunk>),
    T(Vec<Thunk>),
    Request,
    Target,
    Source,
    Func(&'static str),
}

#[derive(Clone, Debug, PartialEq, Eq, PartialOrd, Ord)]
pub enum Dyn {
    DivZero,
    Overflow,
    Index,
    Regex,
    NotNumeric,
}

#[derive(Clone, Debug, PartialEq)]
pub enum RErr {
    Dyn(Dyn),
    /// the reference semantics does not define this evaluation (ill-typed at run time)
    Stuck(String),
}

#[derive(Clone, Debug, PartialEq)]
pub struct Thunk {
    e: E,
    env: Env,
}

#[derive(Clone, Debug, PartialEq)]
pub struct Env(pub Option<Rc<EnvNode>>);
#[derive(Debug, PartialEq)]
pub struct EnvNode {
    vars: Vec<(String, Thunk)>,
    parent: Env,
}

impl Env {
    fn lookup(&self, name: &str) -> Option<Thunk> {
        let mut cur = self;
        while let Some(n) = &cur.0 {
            if let Some((_, t)) = n.vars.iter().rev().find(|(k, _)| k == name) {
                return Some(t.clone());
            }
            cur = &n.parent;
        }
        None
    }
}

pub struct Interp<'a> {
    pub props: &'a ContextProps,
    /// set when an operation had an overflow-like result (wrap / masked shift / negative index)
    pub maybe: BTreeSet<Dyn>,
    pub fuel: u32,
}

fn stuck<T>(s: &str) -> Result<T, RErr> {
    Err(RErr::Stuck(s.to_string()))
}

impl<'a> Interp<'a> {
    fn as_str(&mut self, v: V) -> Result<Option<String>, RErr> {
        match v {
            V::S(s) => Ok(Some(s)),
            V::SOpaque => Ok(None),
            V::Target => Ok(Some(self.props.target.to_string())),
            V::Source => Ok(Some(self.props.source.to_string())),
            _ => stuck("string expected"),
        }
    }
    fn force(&mut self, t: &Thunk) -> Result<V, RErr> {
        self.eval(&t.e, &t.env)
    }
    pub fn eval(&mut self, e: &E, env: &Env) -> Result<V, RErr> {
        if self.fuel == 0 {
            return stuck("fuel");
        }
        self.fuel -= 1;
        match e {
            E::Int(v, _) => Ok(V::I(*v as i64)),
            E::Str(s) => Ok(V::S(s.clone())),
            E::Bool(b) => Ok(V::B(*b)),
            E::Id(name) => {
                if let Some(t) = env.lookup(name) {
                    return self.force(&t);
                }
                match name.as_str() {
                    "request" => Ok(V::Request),
                    "to_string" => Ok(V::Func("to_string")),
                    "to_integer" => Ok(V::Func("to_integer")),
                    "split" => Ok(V::Func("split")),
                    "strcat" => Ok(V::Func("strcat")),
                    "cidr_match" => Ok(V::Func("cidr_match")),
                    _ => stuck("undefined identifier"),
                }
            }
            E::Array(items) => Ok(V::A(items.iter().map(|e| Thunk { e: e.clone(), env: env.clone() }).collect())),
            E::Tuple(items) => Ok(V::T(items.iter().map(|e| Thunk { e: e.clone(), env: env.clone() }).collect())),
            E::Template(parts) => {
                let mut out = String::new();
                let mut opaque = false;
                for (lit, el) in parts {
                    out.push_str(lit);
                    if let Some(el) = el {
                        let v = self.eval(el, env)?;
                        match self.as_str(v)? {
                            Some(s) => out.push_str(&s),
                            None => opaque = true,
                        }
                    }
                }
                Ok(if opaque { V::SOpaque } else { V::S(out) })
            }
            E::Un(i, c) => {
                let v = self.eval(c, env)?;
                match (UN[*i as usize].0, v) {
                    ("!", V::B(b)) => Ok(V::B(!b)),
                    ("~", V::I(x)) => Ok(V::I(!x)),
                    ("-", V::I(x)) => {
                        if x == i64::MIN {
                            self.maybe.insert(Dyn::Overflow);
                        }
                        Ok(V::I(x.wrapping_neg()))
                    }
                    _ => stuck("unary operand type"),
                }
            }
            E::Bin(i, _, l, r) => self.bin(BIN[*i as usize].spell, l, r, env),
            E::Cond(c, y, n) | E::If(c, y, n) => match self.eval(c, env)? {
                V::B(true) => self.eval(y, env),
                V::B(false) => self.eval(n, env),
                _ => stuck("condition type"),
            },
            E::Let(vars, body) => {
                let node = EnvNode {
                    vars: vars.iter().map(|(n, e)| (n.clone(), Thunk { e: e.clone(), env: env.clone() })).collect(),
                    parent: env.clone(),
                };
                self.eval(body, &Env(Some(Rc::new(node))))
            }
            E::Index(o, i) => {
                let idx = match self.eval(i, env)? {
                    V::I(x) => x,
                    _ => return stuck("index type"),
                };
                let arr = match self.eval(o, env)? {
                    V::A(a) => a,
                    _ => return stuck("indexed value is not an array"),
                };
                let len = arr.len() as i64;
                if idx >= 0 {
                    if idx < len {
                        self.force(&arr[idx as usize])
                    } else {
                        Err(RErr::Dyn(Dyn::Index))
                    }
                } else {
                    // from-the-end indexing is implemented but undocumented: either is acceptable
                    self.maybe.insert(Dyn::Index);
                    match len.checked_add(idx) {
                        Some(k) if k >= 0 => self.force(&arr[k as usize]),
                        _ => Err(RErr::Dyn(Dyn::Index)),
                    }
                }
            }
            E::TupleAccess(o, n) => match self.eval(o, env)? {
                V::T(t) => match t.get(*n as usize) {
                    Some(th) => self.force(&th.clone()),
                    None => stuck("tuple index out of range (must be rejected at load)"),
                },
                _ => stuck("tuple access on non tuple"),
            },
            E::Access(o, f) => match (self.eval(o, env)?, f.as_str()) {
                (V::Request, "listener") => Ok(V::S(self.props.listener.clone())),
                (V::Request, "connector") => Ok(V::S(self.props.connector.clone().unwrap_or_default())),
                (V::Request, "feature") => Ok(V::S(format!("{:?}", self.props.request_feature))),
                (V::Request, "target") => Ok(V::Target),
                (V::Request, "source") => Ok(V::Source),
                (V::Target, "host") => Ok(V::S(self.props.target.host())),
                (V::Target, "port") => Ok(V::I(self.props.target.port() as i64)),
                (V::Target, "type") => Ok(V::S(self.props.target.r#type().to_string())),
                (V::Source, "host") => Ok(V::S(self.props.source.ip().to_string())),
                (V::Source, "port") => Ok(V::I(self.props.source.port() as i64)),
                (V::Source, "type") => Ok(V::S(if self.props.source.is_ipv4() { "ipv4" } else { "ipv6" }.to_string())),
                _ => stuck("no such property"),
            },
            E::Call(f, args) => {
                let name = match self.eval(f, env)? {
                    V::Func(n) => n,
                    _ => return stuck("not callable"),
                };
                match (name, args.len()) {
                    ("to_string", 1) => match self.eval(&args[0], env)? {
                        V::I(x) => Ok(V::S(x.to_string())),
                        V::B(b) => Ok(V::S(b.to_string())),
                        V::S(_) | V::SOpaque | V::Target | V::Source => Ok(V::SOpaque),
                        _ => Ok(V::SOpaque),
                    },
                    ("to_integer", 1) => {
                        let v = self.eval(&args[0], env)?;
                        match self.as_str(v)? {
                            Some(s) => s.parse::<i64>().map(V::I).map_err(|_| RErr::Dyn(Dyn::NotNumeric)),
                            None => {
                                self.maybe.insert(Dyn::NotNumeric);
                                stuck("opaque string")
                            }
                        }
                    }
                    ("split", 2) => {
                        let a = self.eval(&args[0], env)?;
                        let b = self.eval(&args[1], env)?;
                        match (self.as_str(a)?, self.as_str(b)?) {
                            (Some(s), Some(d)) if !d.is_empty() => Ok(V::A(
                                s.split(d.as_str())
                                    .map(|p| Thunk { e: E::Str(p.to_string()), env: Env(None) })
                                    .collect(),
                            )),
                            _ => stuck("split with empty / opaque delimiter is judged for type only"),
                        }
                    }
                    ("strcat", 1) => match self.eval(&args[0], env)? {
                        V::A(items) => {
                            let mut out = String::new();
                            let mut opaque = false;
                            for t in &items {
                                let v = self.force(t)?;
                                match self.as_str(v)? {
                                    Some(s) => out.push_str(&s),
                                    None => opaque = true,
                                }
                            }
                            Ok(if opaque { V::SOpaque } else { V::S(out) })
                        }
                        _ => stuck("strcat argument"),
                    },
                    ("cidr_match", 2) => {
                        let a = self.eval(&args[0], env)?;
                        let b = self.eval(&args[1], env)?;
                        match (self.as_str(a)?, self.as_str(b)?) {
                            (Some(ip), Some(net)) => match ref_cidr(&ip, &net) {
                                Some(b) => Ok(V::B(b)),
                                None => stuck("non-canonical cidr: judged for type only"),
                            },
                            _ => stuck("opaque"),
                        }
                    }
                    _ => stuck("arity"),
                }
            }
        }
    }

    fn bin(&mut self, op: &str, l: &E, r: &E, env: &Env) -> Result<V, RErr> {
        match op {
            "&&" | "||" => {
                let a = match self.eval(l, env)? {
                    V::B(b) => b,
                    _ => return stuck("logic operand"),
                };
                if (op == "&&" && !a) || (op == "||" && a) {
                    return Ok(V::B(a));
                }
                match self.eval(r, env)? {
                    V::B(b) => Ok(V::B(b)),
                    _ => stuck("logic operand"),
                }
            }
            "^^" => match (self.eval(l, env)?, self.eval(r, env)?) {
                (V::B(a), V::B(b)) => Ok(V::B(a ^ b)),
                _ => stuck("logic operand"),
            },
            "_:" => {
                let a = self.eval(l, env)?;
                let arr = match self.eval(r, env)? {
                    V::A(a) => a,
                    _ => return stuck("member-of needs an array"),
                };
                let a = self.scalar(a)?;
                for t in &arr {
                    let v = self.force(t)?;
                    let v = self.scalar(v)?;
                    match (&a, &v) {
                        (V::I(_), V::I(_)) | (V::S(_), V::S(_)) | (V::B(_), V::B(_)) => {
                            if a == v {
                                return Ok(V::B(true));
                            }
                        }
                        _ => return stuck("member-of over mixed types"),
                    }
                }
                Ok(V::B(false))
            }
            "=~" | "!~" => {
                let a = self.eval(l, env)?;
                let b = self.eval(r, env)?;
                match (self.as_str(a)?, self.as_str(b)?) {
                    (Some(s), Some(p)) => match ref_regex(&s, &p) {
                        RefRe::Match(m) => Ok(V::B(if op == "=~" { m } else { !m })),
                        RefRe::Invalid => Err(RErr::Dyn(Dyn::Regex)),
                        RefRe::Unknown => {
                            self.maybe.insert(Dyn::Regex);
                            stuck("pattern outside the reference fragment: judged for type only")
                        }
                    },
                    _ => stuck("opaque"),
                }
            }
            "==" | "!=" | "<" | "<=" | ">" | ">=" => {
                let a = self.eval(l, env)?;
                let b = self.eval(r, env)?;
                let a = self.scalar(a)?;
                let b = self.scalar(b)?;
                let ord = match (&a, &b) {
                    (V::I(x), V::I(y)) => x.cmp(y),
                    (V::S(x), V::S(y)) => x.cmp(y),
                    (V::B(x), V::B(y)) => x.cmp(y),
                    _ => return stuck("comparison of different / non-scalar types"),
                };
                use std::cmp::Ordering::*;
                Ok(V::B(match op {
                    "==" => ord == Equal,
                    "!=" => ord != Equal,
                    "<" => ord == Less,
                    "<=" => ord != Greater,
                    ">" => ord == Greater,
                    _ => ord != Less,
                }))
            }
            _ => {
                let (a, b) = match (self.eval(l, env)?, self.eval(r, env)?) {
                    (V::I(a), V::I(b)) => (a, b),
                    _ => return stuck("arithmetic operand"),
                };
                let (v, of) = match op {
                    "+" => a.overflowing_add(b),
                    "-" => a.overflowing_sub(b),
                    "*" => a.overflowing_mul(b),
                    "/" => {
                        if b == 0 {
                            return Err(RErr::Dyn(Dyn::DivZero));
                        }
                        a.overflowing_div(b)
                    }
                    "%" => {
                        if b == 0 {
                            return Err(RErr::Dyn(Dyn::DivZero));
                        }
                        a.overflowing_rem(b)
                    }
                    "&" => (a & b, false),
                    "|" => (a | b, false),
                    "^" => (a ^ b, false),
                    "<<" => (a.wrapping_shl(b as u32), !(0..64).contains(&b)),
                    ">>" => (a.wrapping_shr(b as u32), !(0..64).contains(&b)),
                    ">>>" => (((a as u64).wrapping_shr(b as u32)) as i64, !(0..64).contains(&b)),
                    _ => return stuck("unknown operator"),
                };
                if of {
                    self.maybe.insert(Dyn::Overflow);
                }
                Ok(V::I(v))
            }
        }
    }

    fn scalar(&mut self, v: V) -> Result<V, RErr> {
        match v {
            V::Target => Ok(V::S(self.props.target.to_string())),
            V::Source => Ok(V::S(self.props.source.to_string())),
            V::I(_) | V::S(_) | V::B(_) => Ok(v),
            V::SOpaque => stuck("opaque"),
            _ => stuck("non-scalar operand"),
        }
    }
}

enum RefRe {
    Match(bool),
    Invalid,
    Unknown,
}

/// regex reference for literal patterns with optional ^ / $ anchors; known-invalid patterns
fn ref_regex(s: &str, p: &str) -> RefRe {
    if p == "(" || p == "[a" || p == "*a" || p == "a{2,1}" {
        return RefRe::Invalid;
    }
    let (st, body) = match p.strip_prefix('^') {
        Some(b) => (true, b),
        None => (false, p),
    };
    let (en, body) = match body.strip_suffix('$') {
        Some(b) => (true, b),
        None => (false, body),
    };
    if !body.chars().all(|c| c.is_ascii_alphanumeric() || c == ',' || c == '-' || c == ' ') {
        return RefRe::Unknown;
    }
    RefRe::Match(match (st, en) {
        (true, true) => s == body,
        (true, false) => s.starts_with(body),
        (false, true) => s.ends_with(body),
        (false, false) => s.contains(body),
    })
}

/// CIDR containment by own mask arithmetic. None = outside the reference fragment.
pub fn ref_cidr(ip: &str, net: &str) -> Option<bool> {
    use std::net::IpAddr;
    let ip: IpAddr = match ip.parse() {
        Ok(i) => i,
        Err(_) => return Some(false),
    };
    let (a, l) = net.split_once('/')?;
    let len: u32 = l.parse().ok()?;
    let a: IpAddr = a.parse().ok()?;
    match (ip, a) {
        (IpAddr::V4(i), IpAddr::V4(n)) => {
            if len > 32 {
                return None;
            }
            let mask: u32 = if len == 0 { 0 } else { !0u32 << (32 - len) };
            let n = u32::from(n);
            if n & !mask != 0 {
                return None; // host bits set: non-canonical
            }
            Some(u32::from(i) & mask == n)
        }
        (IpAddr::V6(i), IpAddr::V6(n)) => {
            if len > 128 {
                return None;
            }
            let mask: u128 = if len == 0 { 0 } else { !0u128 << (128 - len) };
            let n = u128::from(n);
            if n & !mask != 0 {
                return None;
            }
            Some(u128::from(i) & mask == n)
        }
        (IpAddr::V4(_), IpAddr::V6(n)) => {
            if len > 128 || (len < 128 && u128::from(n) & !(if len == 0 { 0 } else { !0u128 << (128 - len) }) != 0) {
                return None;
            }
            Some(false)
        }
        (IpAddr::V6(_), IpAddr::V4(n)) => {
            if len > 32 || (len < 32 && u32::from(n) & !(if len == 0 { 0 } else { !0u32 << (32 - len) }) != 0) {
                return None;
            }
            Some(false)
        }
    }
}

thread_local! {
    static UNKNOWN_SUBTERM: std::cell::Cell<bool> = std::cell::Cell::new(false);
}

/// every dynamic error some evaluation order could hit: evaluate each sub-term on its own
fn possible_errors(e: &E, env: &Env, props: &ContextProps, out: &mut BTreeSet<Dyn>) {
    let mut it = Interp { props, maybe: BTreeSet::new(), fuel: 20_000 };
    match it.eval(e, env) {
        Err(RErr::Dyn(d)) => {
            out.insert(d);
        }
        // outside the reference fragment (opaque string, ...): any dynamic error of the operators
        // below this term cannot be excluded
        Err(RErr::Stuck(_)) => {
            UNKNOWN_SUBTERM.with(|u| u.set(true));
        }
        Ok(_) => {}
    }
    out.extend(it.maybe.iter().cloned());
    let mut rec = |x: &E, env: &Env| possible_errors(x, env, props, out);
    match e {
        // && and || short-circuit, if / ?: evaluate only the taken branch (readme: "lazy evaluated"): an
        // error from the operand that must not be evaluated is not acceptable
        E::Bin(i, _, l, r) if matches!(BIN[*i as usize].spell, "&&" | "||") => {
            rec(l, env);
            let mut it = Interp { props, maybe: BTreeSet::new(), fuel: 20_000 };
            let skip = match (BIN[*i as usize].spell, it.eval(l, env)) {
                ("&&", Ok(V::B(false))) | ("||", Ok(V::B(true))) => true,
                _ => false,
            };
            if !skip {
                rec(r, env);
            }
        }
        E::Cond(c, y, n) | E::If(c, y, n) => {
            rec(c, env);
            let mut it = Interp { props, maybe: BTreeSet::new(), fuel: 20_000 };
            match it.eval(c, env) {
                Ok(V::B(true)) => rec(y, env),
                Ok(V::B(false)) => rec(n, env),
                _ => {
                    rec(y, env);
                    rec(n, env);
                }
            }
        }
        E::Bin(_, _, l, r) => {
            rec(l, env);
            rec(r, env);
        }
        E::Un(_, c) => rec(c, env),
        E::Index(o, i) => {
            rec(o, env);
            rec(i, env);
        }
        E::Access(o, _) | E::TupleAccess(o, _) => rec(o, env),
        E::Call(f, a) => {
            rec(f, env);
            a.iter().for_each(|x| rec(x, env));
        }
        E::Let(vars, body) => {
            vars.iter().for_each(|(_, x)| rec(x, env));
            let node = EnvNode {
                vars: vars.iter().map(|(n, e)| (n.clone(), Thunk { e: e.clone(), env: env.clone() })).collect(),
                parent: env.clone(),
            };
            rec(body, &Env(Some(Rc::new(node))));
        }
        E::Array(v) | E::Tuple(v) => v.iter().for_each(|x| rec(x, env)),
        E::Template(p) => p.iter().for_each(|(_, x)| {
            if let Some(x) = x {
                rec(x, env)
            }
        }),
        _ => {}
    }
}

// ------------------------------------------------------------------ type-directed generator

pub struct Tape<'a> {
    data: &'a [u16],
    pos: usize,
}
impl<'a> Tape<'a> {
    fn next(&mut self) -> u16 {
        let v = self.data.get(self.pos).cloned().unwrap_or(0);
        self.pos += 1;
        v
    }
    fn pick(&mut self, n: usize) -> usize {
        ((self.next() as usize) * n) >> 16
    }
}

fn bin_idx(spell: &str) -> u8 {
    BIN.iter().position(|b| b.spell == spell).unwrap() as u8
}
fn un_idx(spell: &str) -> u8 {
    UN.iter().position(|b| b.0 == spell).unwrap() as u8
}
fn id(s: &str) -> E {
    E::Id(s.to_string())
}
fn call(f: &str, args: Vec<E>) -> E {
    E::Call(Box::new(id(f)), args)
}
fn acc(path: &[&str]) -> E {
    let mut e = id(path[0]);
    for p in &path[1..] {
        e = E::Access(Box::new(e), p.to_string());
    }
    e
}

pub struct Gen<'a> {
    tape: Tape<'a>,
    /// countdown to the ill-typed injection (None = well-typed by construction)
    inject: Option<u32>,
    pub injected: bool,
    vars: Vec<(String, Ty)>,
    nvar: u32,
    pub native_leaf: bool,
}

impl<'a> Gen<'a> {
    pub fn new(data: &'a [u16]) -> Self {
        let mut tape = Tape { data, pos: 0 };
        let inject = if tape.pick(4) == 3 { Some(tape.pick(8) as u32) } else { None };
        Gen {
            tape,
            inject,
            injected: false,
            vars: vec![],
            nvar: 0,
            native_leaf: false,
        }
    }
    fn scalar_ty(&mut self) -> Ty {
        match self.tape.pick(3) {
            0 => Ty::Int,
            1 => Ty::Str,
            _ => Ty::Bool,
        }
    }
    fn other_ty(&mut self, ty: &Ty) -> Ty {
        let cands = [Ty::Int, Ty::Str, Ty::Bool, Ty::Arr(Box::new(Ty::Int)), Ty::Arr(Box::new(Ty::Str)), Ty::Tup(vec![Ty::Int, Ty::Str])];
        let k = self.tape.pick(cands.len());
        for i in 0..cands.len() {
            let c = &cands[(k + i) % cands.len()];
            if c != ty {
                return c.clone();
            }
        }
        Ty::Int
    }
    fn int_lit(&mut self) -> E {
        const VALS: &[i64] = &[0, 1, 2, 3, 7, 63, 64, 65, 80, 255, 65535, i64::MAX, -1, -2, -64, -i64::MAX];
        let v = VALS[self.tape.pick(VALS.len())];
        if v < 0 {
            E::Un(un_idx("-"), Box::new(E::Int((-v) as u64, 0)))
        } else {
            E::Int(v as u64, 0)
        }
    }
    fn str_lit(&mut self) -> E {
        const VALS: &[&str] = &["", "a", "abc", "80", "123", "-5", "x,y", "http", "example.com", "10.1.2.3", "9223372036854775808", " 1", "A"];
        E::Str(VALS[self.tape.pick(VALS.len())].to_string())
    }
    fn leaf(&mut self, ty: &Ty) -> E {
        // a let-bound variable of the right type
        let cands: Vec<String> = self.vars.iter().filter(|(_, t)| t == ty).map(|(n, _)| n.clone()).collect();
        if !cands.is_empty() && self.tape.pick(3) == 0 {
            let k = self.tape.pick(cands.len());
            return id(&cands[k]);
        }
        match ty {
            Ty::Int => match self.tape.pick(6) {
                0 => acc(&["request", "target", "port"]),
                1 => acc(&["request", "source", "port"]),
                _ => self.int_lit(),
            },
            Ty::Str => match self.tape.pick(14) {
                0 => acc(&["request", "listener"]),
                1 => acc(&["request", "connector"]),
                2 => acc(&["request", "feature"]),
                3 => acc(&["request", "target", "host"]),
                4 => acc(&["request", "target", "type"]),
                5 => acc(&["request", "source", "host"]),
                6 => acc(&["request", "source", "type"]),
                7 => {
                    self.native_leaf = true;
                    acc(&["request", "target"])
                }
                8 => {
                    self.native_leaf = true;
                    acc(&["request", "source"])
                }
                _ => self.str_lit(),
            },
            Ty::Bool => E::Bool(self.tape.pick(2) == 1),
            Ty::Arr(t) => {
                let n = self.tape.pick(4);
                E::Array((0..n).map(|_| self.leaf(t)).collect())
            }
            Ty::Tup(ts) => E::Tuple(ts.iter().map(|t| self.leaf(t)).collect()),
        }
    }
    pub fn gen(&mut self, ty: &Ty, depth: u32) -> E {
        if let Some(k) = self.inject {
            if k == 0 && !self.injected {
                self.injected = true;
                self.inject = None;
                let other = self.other_ty(ty);
                return self.gen(&other, depth);
            }
            if k > 0 {
                self.inject = Some(k - 1);
            }
        }
        if depth == 0 || self.tape.pick(5) == 0 {
            return self.leaf(ty);
        }
        let d = depth - 1;
        // constructs available at every type
        let generic = self.tape.pick(10);
        if generic == 0 {
            let c = self.gen(&Ty::Bool, d);
            let y = self.gen(ty, d);
            let n = self.gen(ty, d);
            return if self.tape.pick(2) == 0 { E::Cond(Box::new(c), Box::new(y), Box::new(n)) } else { E::If(Box::new(c), Box::new(y), Box::new(n)) };
        }
        if generic == 1 {
            let nb = 1 + self.tape.pick(2);
            let mut binds = vec![];
            let base = self.vars.len();
            let mut newvars = vec![];
            for _ in 0..nb {
                let t = if self.tape.pick(3) == 0 { ty.clone() } else { self.scalar_ty() };
                let v = self.gen(&t, d);
                self.nvar += 1;
                // occasionally shadow an existing name
                let name = if self.tape.pick(6) == 0 && !self.vars.is_empty() {
                    self.vars[self.tape.pick(self.vars.len())].0.clone()
                } else {
                    format!("v{}", self.nvar)
                };
                binds.push((name.clone(), v));
                newvars.push((name, t));
            }
            // bindings do not see each other: they become visible in the body only
            self.vars.extend(newvars);
            let body = self.gen(ty, d);
            self.vars.truncate(base);
            return E::Let(binds, Box::new(body));
        }
        if generic == 5 && self.tape.pick(2) == 0 {
            // a call with the wrong number of arguments must be rejected at load, whatever the types
            self.injected = true;
            let f = ["to_string", "to_integer", "split", "strcat", "cidr_match"][self.tape.pick(5)];
            let n = [0usize, 2, 3][self.tape.pick(3)];
            let right = match f {
                "split" | "cidr_match" => 2,
                _ => 1,
            };
            let n = if n == right { n + 1 } else { n };
            let args: Vec<E> = (0..n).map(|_| self.leaf(&Ty::Str)).collect();
            return call(f, args);
        }
        if generic == 2 && self.tape.pick(3) == 0 {
            // index into an array that is itself computed (let / if / split), not a literal
            let arr = self.gen(&Ty::Arr(Box::new(ty.clone())), d);
            let idx = E::Int(self.tape.pick(2) as u64, 0);
            return E::Index(Box::new(arr), Box::new(idx));
        }
        if generic == 2 {
            // index into an array of this type
            let n = 1 + self.tape.pick(3);
            let items: Vec<E> = (0..n).map(|_| self.gen(ty, d)).collect();
            let idx = match self.tape.pick(6) {
                0 => E::Un(un_idx("-"), Box::new(E::Int(1 + self.tape.pick(4) as u64, 0))),
                1 => E::Int(n as u64 + self.tape.pick(2) as u64, 0),
                2 => self.gen(&Ty::Int, d),
                _ => E::Int(self.tape.pick(n) as u64, 0),
            };
            return E::Index(Box::new(E::Array(items)), Box::new(idx));
        }
        if generic == 3 {
            // tuple access
            let n = 1 + self.tape.pick(3);
            let pos = self.tape.pick(n);
            let mut items = vec![];
            for i in 0..n {
                if i == pos {
                    items.push(self.gen(ty, d));
                } else {
                    let t = self.scalar_ty();
                    items.push(self.gen(&t, d));
                }
            }
            // out-of-range positions must be rejected at load
            let p = if self.tape.pick(8) == 0 { n as u8 + self.tape.pick(2) as u8 } else { pos as u8 };
            if p as usize != pos {
                self.injected = true;
            }
            let tup = E::Tuple(items);
            return E::TupleAccess(Box::new(tup), p);
        }
        if generic == 4 && self.tape.pick(3) == 0 {
            // ill-typed by construction, hidden behind the empty array's element type: a value of a
            // different type reaches a position that expects `ty`
            let other = self.other_ty(ty);
            self.injected = true;
            let inner = self.gen(&other, d);
            return match self.tape.pick(3) {
                0 => {
                    let c = self.gen(&Ty::Bool, d);
                    E::Index(
                        Box::new(E::If(Box::new(c), Box::new(E::Array(vec![])), Box::new(E::Array(vec![inner])))),
                        Box::new(E::Int(0, 0)),
                    )
                }
                1 => E::Index(
                    Box::new(E::Index(Box::new(E::Array(vec![E::Array(vec![]), E::Array(vec![inner])])), Box::new(E::Int(1, 0)))),
                    Box::new(E::Int(0, 0)),
                ),
                _ => {
                    let c = self.gen(&Ty::Bool, d);
                    E::Index(
                        Box::new(E::Cond(Box::new(c), Box::new(E::Array(vec![inner])), Box::new(E::Array(vec![])))),
                        Box::new(E::Int(0, 0)),
                    )
                }
            };
        }
        match ty {
            Ty::Int => match self.tape.pick(14) {
                0 => E::Un(un_idx("-"), Box::new(self.gen(&Ty::Int, d))),
                1 => E::Un(un_idx("~"), Box::new(self.gen(&Ty::Int, d))),
                2 => call("to_integer", vec![self.gen(&Ty::Str, d)]),
                k => {
                    const OPS: &[&str] = &["+", "-", "*", "/", "%", "&", "|", "^", "<<", ">>", ">>>"];
                    let op = OPS[(k - 3) % OPS.len()];
                    let l = self.gen(&Ty::Int, d);
                    let r = self.gen(&Ty::Int, d);
                    E::Bin(bin_idx(op), 0, Box::new(l), Box::new(r))
                }
            },
            Ty::Str => match self.tape.pick(5) {
                0 => {
                    let n = self.tape.pick(4);
                    call("strcat", vec![E::Array((0..n).map(|_| self.gen(&Ty::Str, d)).collect())])
                }
                1 => {
                    let n = 1 + self.tape.pick(3);
                    E::Template(
                        (0..n)
                            .map(|i| {
                                let lit = ["", "a=", " ", "x"][self.tape.pick(4)].to_string();
                                let el = if i + 1 == n && self.tape.pick(2) == 0 { None } else { Some(self.gen(&Ty::Str, d)) };
                                (lit, el)
                            })
                            .collect(),
                    )
                }
                2 => {
                    let t = self.scalar_ty();
                    call("to_string", vec![self.gen(&t, d)])
                }
                3 => {
                    let s = self.gen(&Ty::Str, d);
                    let dl = if self.tape.pick(4) == 0 { self.gen(&Ty::Str, d) } else { E::Str([",", ".", ":", "ab"][self.tape.pick(4)].to_string()) };
                    let i = E::Int(self.tape.pick(3) as u64, 0);
                    E::Index(Box::new(call("split", vec![s, dl])), Box::new(i))
                }
                _ => self.leaf(ty),
            },
            Ty::Bool => match self.tape.pick(16) {
                0 => E::Un(un_idx("!"), Box::new(self.gen(&Ty::Bool, d))),
                1 | 2 | 3 => {
                    let op = ["&&", "||", "^^"][self.tape.pick(3)];
                    let sp = self.tape.pick(2) as u8;
                    let l = self.gen(&Ty::Bool, d);
                    let r = self.gen(&Ty::Bool, d);
                    E::Bin(bin_idx(op), sp, Box::new(l), Box::new(r))
                }
                4 | 5 => {
                    let op = ["=~", "!~"][self.tape.pick(2)];
                    let s = self.gen(&Ty::Str, d);
                    const PATS: &[&str] = &["a", "^a", "a$", "^abc$", "80", "x,y", "", "(", "[a", "a.c", "^h", "com$", "*a"];
                    let p = if self.tape.pick(5) == 0 { self.gen(&Ty::Str, d) } else { E::Str(PATS[self.tape.pick(PATS.len())].to_string()) };
                    E::Bin(bin_idx(op), 0, Box::new(s), Box::new(p))
                }
                6 | 7 => {
                    let t = self.scalar_ty();
                    let a = self.gen(&t, d);
                    let n = self.tape.pick(4);
                    let arr = E::Array((0..n).map(|_| self.gen(&t, d)).collect());
                    E::Bin(bin_idx("_:"), 0, Box::new(a), Box::new(arr))
                }
                8 => {
                    const IPS: &[&str] = &["10.1.2.3", "10.1.2.4", "192.168.0.1", "2001:db8::9", "::1", "not-an-ip", ""];
                    const NETS: &[&str] = &["10.0.0.0/8", "10.1.2.3/32", "0.0.0.0/0", "10.1.2.0/24", "2001:db8::/32", "::/0", "::1/128", "10.1.2.3/8", "bogus", "10.0.0.0/33"];
                    let ip = match self.tape.pick(4) {
                        0 => acc(&["request", "target", "host"]),
                        1 => acc(&["request", "source", "host"]),
                        _ => E::Str(IPS[self.tape.pick(IPS.len())].to_string()),
                    };
                    call("cidr_match", vec![ip, E::Str(NETS[self.tape.pick(NETS.len())].to_string())])
                }
                _ => {
                    const OPS: &[&str] = &["==", "!=", "<", "<=", ">", ">="];
                    let op = OPS[self.tape.pick(OPS.len())];
                    let t = self.scalar_ty();
                    let l = self.gen(&t, d);
                    let r = self.gen(&t, d);
                    E::Bin(bin_idx(op), 0, Box::new(l), Box::new(r))
                }
            },
            Ty::Arr(t) => {
                if **t == Ty::Str && self.tape.pick(3) == 0 {
                    let s = self.gen(&Ty::Str, d);
                    call("split", vec![s, E::Str(",".into())])
                } else {
                    let n = self.tape.pick(4);
                    E::Array((0..n).map(|_| self.gen(t, d)).collect())
                }
            }
            Ty::Tup(ts) => E::Tuple(ts.iter().map(|t| self.gen(t, d)).collect()),
        }
    }
}

// ------------------------------------------------------------------ the oracle
pub static T_PARSE: std::sync::atomic::AtomicU64 = std::sync::atomic::AtomicU64::new(0);
pub static T_PE: std::sync::atomic::AtomicU64 = std::sync::atomic::AtomicU64::new(0);
pub static T_TY: std::sync::atomic::AtomicU64 = std::sync::atomic::AtomicU64::new(0);
pub static T_VAL: std::sync::atomic::AtomicU64 = std::sync::atomic::AtomicU64::new(0);

fn render(e: &E) -> String {
    crate::harness::c09::render_min(e)
}

fn classify_err(msg: &str) -> Option<Dyn> {
    let m = msg.to_ascii_lowercase();
    if m.contains("division by zero") || m.contains("divide by zero") {
        Some(Dyn::DivZero)
    } else if m.contains("overflow") {
        Some(Dyn::Overflow)
    } else if m.contains("index out of bounds") || m.contains("index out of range") || m.contains("failed to cast index") {
        Some(Dyn::Index)
    } else if m.contains("failed to compile regex") {
        Some(Dyn::Regex)
    } else if m.contains("failed to parse integer") {
        Some(Dyn::NotNumeric)
    } else {
        None
    }
}

fn type_matches(t: &Type, v: &Value) -> bool {
    match (t, v) {
        (Type::Any, _) => true,
        (Type::Integer, Value::Integer(_)) => true,
        (Type::String, Value::String(_)) => true,
        (Type::Boolean, Value::Boolean(_)) => true,
        (Type::Array(_), Value::Array(_)) => true,
        (Type::Tuple(_), Value::Tuple(_)) => true,
        (Type::NativeObject(_), Value::NativeObject(_)) => true,
        _ => false,
    }
}

fn op_shape(e: &E) -> String {
    crate::harness::c09::op_key_pub(e)
}

/// How the three consumers of the rule language load and evaluate a script.
#[derive(Clone, Copy, Debug, PartialEq, Eq, Serialize, Deserialize)]
pub enum Consumer {
    Generic,
    Filter,
    HashBy,
    LogFormat,
}

/// The reference-free core of C08 for arbitrary source text (used by the libFuzzer target): parsing, type
/// checking and evaluating never panic, and a script that a consumer would accept evaluates to a value
/// of its declared type or fails with one of the documented dynamic errors.
pub fn check_text(src: &str) -> Result<&'static str, String> {
    let parsed = match catch(|| parse(src)) {
        Ok(Ok(v)) => v,
        Ok(Err(_)) => return Ok("syntax-error"),
        Err(p) => return Err(format!("parse panicked: {} — source {:?}", p.msg, src)),
    };
    let default_ctx: ScriptContextRef = Arc::new(create_context(Default::default()));
    let t = match catch(|| parsed.real_type_of(default_ctx.clone())) {
        Ok(Ok(t)) => t,
        Ok(Err(_)) => return Ok("rejected-at-load"),
        Err(p) => return Err(format!("type check panicked: {} — source {:?}", p.msg, src)),
    };
    if matches!(t, Type::NativeObject(_)) {
        return Ok("rejected-at-load");
    }
    let env = EnvSpec { listener: 0, connector: 0, source_v6: false, source_port: 40000, target_kind: 0, target_host: 0, target_port: 443, feature: 0 };
    let props = make_props(&env);
    let rctx: ScriptContextRef = Arc::new(create_context(Arc::new(props)));
    match catch(|| parsed.real_value_of(rctx.clone())) {
        Err(p) => Err(format!("accepted with type {} but evaluation panicked: {} — source {:?}", t, p.msg, src)),
        Ok(Ok(v)) => {
            if type_matches(&t, &v) {
                Ok("value")
            } else {
                Err(format!("accepted with type {} but evaluated to {:?} — source {:?}", t, v, src))
            }
        }
        Ok(Err(err)) => {
            let msg = format!("{} {:?}", err, err.cause.as_ref().map(|c| c.to_string()));
            if classify_err(&msg).is_some() {
                Ok("dynamic-error")
            } else {
                Err(format!("accepted with type {} but evaluation failed with a non-dynamic error: {} — source {:?}", t, msg.chars().take(200).collect::<String>(), src))
            }
        }
    }
}

/// seed corpus for the milu fuzz target: sources rendered from the typed generator
pub fn emit_corpus(dir: &str, n: usize, seed: u64) -> usize {
    let _ = std::fs::create_dir_all(dir);
    let part = vcore::Part::new("C08", "corpus", vcore::Tier::Quick, seed, "");
    let cases = part.draw("corpus", n, &case_strategy());
    let mut written = 0;
    for (i, c) in cases.iter().enumerate() {
        let mut g = Gen::new(&c.tape);
        let e = g.gen(&root_ty(c.ty), c.depth as u32);
        let src = render(&e);
        if src.len() <= 2048 && std::fs::write(format!("{}/seed-{:04}", dir, i), src.as_bytes()).is_ok() {
            written += 1;
        }
    }
    written
}

pub fn check_program(e: &E, env: &EnvSpec, consumer: Consumer, info: &mut CaseInfo) -> Result<(), Failure> {
    let src = render(e);
    let shape = op_shape(e);
    let t_parse = std::time::Instant::now();
    let parsed_r = catch(|| parse(&src));
    T_PARSE.fetch_add(t_parse.elapsed().as_micros() as u64, std::sync::atomic::Ordering::Relaxed);
    if t_parse.elapsed().as_millis() > 200 && std::env::var("VERIF_TIMING").is_ok() {
        eprintln!("slow parse {} ms: {}", t_parse.elapsed().as_millis(), src);
    }
    let parsed = match parsed_r {
        Ok(Ok(v)) => v,
        Ok(Err(err)) if err.to_string().contains("nested too deep") => {
            info.class("nesting-limit");
            return Ok(());
        }
        Ok(Err(err)) => fail!(
            format!("unparseable:{}", shape),
            "generated source {:?} does not parse: {}",
            src,
            err.to_string().lines().next().unwrap_or("")
        ),
        Err(p) => fail!(format!("panic:parse:{}", p.class()), "parse({:?}) panicked: {}", src, p.msg),
    };
    let default_ctx: ScriptContextRef = Arc::new(create_context(Default::default()));
    // ---- load-time check, exactly as the consumer does it
    // all three consumers (Filter::validate/evaluate, the hashBy loader, ScriptFormater) use real_type_of / real_value_of
    let use_real = true;
    let t_ty = std::time::Instant::now();
    let t = match catch(|| if use_real { parsed.real_type_of(default_ctx.clone()) } else { parsed.type_of(default_ctx.clone()) }) {
        Ok(Ok(t)) => t,
        Ok(Err(_)) => {
            info.class("rejected-at-load");
            return Ok(());
        }
        Err(p) => fail!(format!("panic:type_of:{}:{}", shape, p.class()), "type_of({:?}) panicked: {}", src, p.msg),
    };
    T_TY.fetch_add(t_ty.elapsed().as_micros() as u64, std::sync::atomic::Ordering::Relaxed);
    let accepted = match consumer {
        Consumer::Filter => t == Type::Boolean,
        Consumer::HashBy | Consumer::LogFormat => t == Type::String,
        // no consumer of the language accepts a script whose type is an opaque native object
        Consumer::Generic => !matches!(t, Type::NativeObject(_)),
    };
    if !accepted {
        info.class("rejected-at-load");
        return Ok(());
    }
    info.class("accepted");
    // ---- request time
    let props = make_props(env);
    let rctx: ScriptContextRef = Arc::new(create_context(Arc::new(props.clone())));
    let t_val = std::time::Instant::now();
    let got_r = catch(|| if use_real { parsed.real_value_of(rctx.clone()) } else { parsed.value_of(rctx.clone()) });
    T_VAL.fetch_add(t_val.elapsed().as_micros() as u64, std::sync::atomic::Ordering::Relaxed);
    let got = match got_r {
        Ok(g) => g,
        Err(p) => fail!(
            format!("panic:value_of:{}:{}", shape, p.class()),
            "accepted with type {} but evaluation panicked: {} — source {:?}",
            t,
            p.msg,
            src
        ),
    };
    let t_pe = std::time::Instant::now();
    let mut possible = BTreeSet::new();
    UNKNOWN_SUBTERM.with(|u| u.set(false));
    possible_errors(e, &Env(None), &props, &mut possible);
    let unknown_subterm = UNKNOWN_SUBTERM.with(|u| u.get());
    T_PE.fetch_add(t_pe.elapsed().as_micros() as u64, std::sync::atomic::Ordering::Relaxed);
    let mut it = Interp { props: &props, maybe: BTreeSet::new(), fuel: 50_000 };
    let reference = it.eval(e, &Env(None));
    match got {
        Err(err) => {
            let msg = format!("{} {:?}", err, err.cause.as_ref().map(|c| c.to_string()));
            match classify_err(&msg) {
                None => fail!(
                    format!("runtime-type-error:{}", shape),
                    "accepted with type {} but evaluation failed with a non-dynamic error: {} — source {:?}",
                    t,
                    msg,
                    src
                ),
                Some(d) => {
                    info.class(format!("dynamic-error:{:?}", d));
                    if !possible.contains(&d) && !unknown_subterm && !matches!(reference, Err(RErr::Stuck(_))) {
                        fail!(
                            format!("spurious-dynamic-error:{:?}:{}", d, shape),
                            "evaluation failed with {:?} ({}) but no sub-term can produce it — source {:?}",
                            d,
                            msg,
                            src
                        );
                    }
                }
            }
        }
        Ok(v) => {
            if !type_matches(&t, &v) {
                fail!(
                    format!("value-of-wrong-type:{}", shape),
                    "accepted with type {} but evaluated to {} — source {:?}",
                    t,
                    v,
                    src
                );
            }
            // consumer-side cast
            match (consumer, &v) {
                (Consumer::Filter, Value::Boolean(_)) | (Consumer::LogFormat, Value::String(_)) | (Consumer::HashBy, _) | (Consumer::Generic, _) => {}
                _ => fail!(format!("value-of-wrong-type:{}", shape), "consumer {:?} cannot use value {} of a script accepted as {}", consumer, v, t),
            }
            match reference {
                Ok(rv) => {
                    let same = match (&rv, &v) {
                        (V::I(a), Value::Integer(b)) => a == b,
                        (V::B(a), Value::Boolean(b)) => a == b,
                        (V::S(a), Value::String(b)) => a == b,
                        (V::SOpaque, Value::String(_)) => true,
                        (V::Target | V::Source, _) => true,
                        (V::A(_), Value::Array(_)) | (V::T(_), Value::Tuple(_)) => true,
                        _ => false,
                    };
                    if !same {
                        fail!(
                            format!("wrong-value:{}", shape),
                            "evaluated to {} but the documented semantics gives {:?} — source {:?}",
                            v,
                            rv,
                            src
                        );
                    }
                    info.class("value-compared");
                }
                Err(RErr::Dyn(d)) => {
                    // an error was mandatory (division by zero, index out of range, bad regex, non-numeric)
                    fail!(
                        format!("value-instead-of-error:{:?}:{}", d, shape),
                        "evaluated to {} although the evaluation must fail with {:?} — source {:?}",
                        v,
                        d,
                        src
                    );
                }
                Err(RErr::Stuck(_)) => info.class("type-only"),
            }
        }
    }
    Ok(())
}

#[derive(Clone, Debug, Serialize, Deserialize)]
pub struct Case {
    pub tape: Vec<u16>,
    pub ty: u8,
    pub depth: u8,
    pub env: EnvSpec,
    pub consumer: u8,
}

fn env_strategy() -> impl Strategy<Value = EnvSpec> {
    (
        any::<u8>(),
        any::<u8>(),
        any::<bool>(),
        prop_oneof![Just(0u16), Just(65535), any::<u16>()],
        any::<u8>(),
        any::<u8>(),
        prop_oneof![Just(0u16), Just(65535), Just(80), any::<u16>()],
        any::<u8>(),
    )
        .prop_map(|(listener, connector, source_v6, source_port, target_kind, target_host, target_port, feature)| EnvSpec {
            listener,
            connector,
            source_v6,
            source_port,
            target_kind,
            target_host,
            target_port,
            feature,
        })
}

pub fn case_strategy() -> impl Strategy<Value = Case> {
    (prop::collection::vec(any::<u16>(), 4..160), 0u8..8, 1u8..5, env_strategy(), 0u8..6).prop_map(|(tape, ty, depth, env, consumer)| Case {
        tape,
        ty,
        depth,
        env,
        consumer,
    })
}

fn root_ty(k: u8) -> Ty {
    match k {
        0 | 1 | 2 => Ty::Bool,
        3 | 4 => Ty::Str,
        5 => Ty::Int,
        6 => Ty::Arr(Box::new(Ty::Str)),
        _ => Ty::Tup(vec![Ty::Int, Ty::Bool]),
    }
}

pub static T_ALL: std::sync::atomic::AtomicU64 = std::sync::atomic::AtomicU64::new(0);
pub static T_GEN: std::sync::atomic::AtomicU64 = std::sync::atomic::AtomicU64::new(0);
pub fn run_case(c: &Case, info: &mut CaseInfo) -> Result<(), Failure> {
    let t_all = std::time::Instant::now();
    let r = run_case_inner(c, info);
    T_ALL.fetch_add(t_all.elapsed().as_micros() as u64, std::sync::atomic::Ordering::Relaxed);
    r
}
fn run_case_inner(c: &Case, info: &mut CaseInfo) -> Result<(), Failure> {
    let ty = root_ty(c.ty);
    let mut g = Gen::new(&c.tape);
    let e = g.gen(&ty, c.depth as u32);
    let consumer = match (c.consumer, &ty) {
        (0 | 1, Ty::Bool) => Consumer::Filter,
        (0, Ty::Str) => Consumer::HashBy,
        (1, Ty::Str) => Consumer::LogFormat,
        _ => Consumer::Generic,
    };
    let injected = g.injected;
    check_program(&e, &c.env, consumer, info)?;
    if std::env::var("VERIF_TIMING").is_ok() {
        static N: std::sync::atomic::AtomicU64 = std::sync::atomic::AtomicU64::new(0);
        let n = N.fetch_add(1, std::sync::atomic::Ordering::Relaxed);
        if n % 2000 == 1999 {
            eprintln!("timing: {} cases, all {} ms, parse {} ms, type_of {} ms, value_of {} ms, possible_errors {} ms", n + 1, T_ALL.load(std::sync::atomic::Ordering::Relaxed) / 1000, T_PARSE.load(std::sync::atomic::Ordering::Relaxed) / 1000, T_TY.load(std::sync::atomic::Ordering::Relaxed) / 1000, T_VAL.load(std::sync::atomic::Ordering::Relaxed) / 1000, T_PE.load(std::sync::atomic::Ordering::Relaxed) / 1000);
        }
    }
    let accepted = info.classes.iter().any(|c| c == "accepted");
    if injected {
        info.class(if accepted { "ill-typed-accepted" } else { "ill-typed-rejected" });
    } else if !accepted {
        info.class("well-typed-rejected");
    }
    let mut levels = vec![];
    crate::harness::c09::count_ops_pub(&e, &mut levels);
    info.nontrivial = accepted && levels.len() >= 2;
    info.sample = Some(json!({"source": render(&e).chars().take(200).collect::<String>(), "type": format!("{:?}", ty), "accepted": accepted, "ill_typed_by_construction": injected}));
    Ok(())
}

/// bounded-exhaustive: every binary / unary operator over a leaf set of all types, at depth 1, and at
/// depth 2 over a smaller leaf set
#[derive(Clone, Debug, Serialize, Deserialize)]
pub struct SmallCase {
    pub e: E,
}
fn small_leaves() -> Vec<E> {
    vec![
        E::Int(0, 0),
        E::Int(1, 0),
        E::Int(64, 0),
        E::Int(i64::MAX as u64, 0),
        E::Un(un_idx("-"), Box::new(E::Int(1, 0))),
        E::Str("".into()),
        E::Str("a".into()),
        E::Str("80".into()),
        E::Bool(true),
        E::Bool(false),
        E::Array(vec![]),
        E::Array(vec![E::Int(1, 0), E::Int(2, 0)]),
        E::Array(vec![E::Str("a".into())]),
        E::Tuple(vec![E::Int(1, 0), E::Str("a".into())]),
        acc(&["request", "target", "port"]),
        acc(&["request", "target", "host"]),
        acc(&["request", "target"]),
        acc(&["request", "listener"]),
    ]
}
fn run_small(c: &SmallCase, info: &mut CaseInfo) -> Result<(), Failure> {
    let env = EnvSpec {
        listener: 0,
        connector: 0,
        source_v6: false,
        source_port: 0,
        target_kind: 0,
        target_host: 0,
        target_port: 65535,
        feature: 0,
    };
    check_program(&c.e, &env, Consumer::Generic, info)?;
    info.nontrivial = info.classes.iter().any(|c| c == "accepted");
    Ok(())
}
struct SmallCheck;
impl SubCheck for SmallCheck {
    fn property(&self) -> &'static str {
        "C08"
    }
    fn name(&self) -> &'static str {
        "small"
    }
    fn rule(&self) -> String {
        "bounded-exhaustive: every binary operator x 18 x 18 leaves (integers incl. 0/64/MAX/-1, strings, booleans, empty and non-empty arrays, a tuple, request.target.port/.host, request.target, request.listener), every unary operator, index, tuple access, ?: over the leaves; depth 2 (op(op(l,l),l) and op(l,op(l,l))) over 7 leaves (quick: arithmetic/comparison subset; thorough: all 23 operators); all combinations, well- and ill-typed; oracle as in 'typed'; non-trivial = accepted by the checker".into()
    }
    fn run(&self, part: &mut Part) {
        let leaves = small_leaves();
        let mut progs: Vec<E> = vec![];
        for b in 0..BIN.len() {
            for l in &leaves {
                for r in &leaves {
                    progs.push(E::Bin(b as u8, 0, Box::new(l.clone()), Box::new(r.clone())));
                }
            }
        }
        for u in 0..UN.len() {
            for l in &leaves {
                progs.push(E::Un(u as u8, Box::new(l.clone())));
            }
        }
        for l in &leaves {
            for r in &leaves {
                progs.push(E::Index(Box::new(l.clone()), Box::new(r.clone())));
            }
            for n in 0..3u8 {
                progs.push(E::TupleAccess(Box::new(l.clone()), n));
            }
            for f in ["to_string", "to_integer", "strcat"] {
                progs.push(call(f, vec![l.clone()]));
            }
            for y in &leaves {
                progs.push(E::Cond(Box::new(l.clone()), Box::new(y.clone()), Box::new(leaves[0].clone())));
                progs.push(E::If(Box::new(E::Bool(false)), Box::new(l.clone()), Box::new(y.clone())));
                progs.push(call("split", vec![l.clone(), y.clone()]));
                progs.push(call("cidr_match", vec![l.clone(), y.clone()]));
            }
        }
        let small: Vec<E> = vec![leaves[0].clone(), leaves[2].clone(), leaves[3].clone(), leaves[4].clone(), leaves[6].clone(), leaves[8].clone(), leaves[14].clone()];
        let ops: Vec<usize> = if part.tier == Tier::Thorough {
            (0..BIN.len()).collect()
        } else {
            ["+", "*", "/", "%", "<<", ">>>", "<", "==", "&&"].iter().map(|s| bin_idx(s) as usize).collect()
        };
        for a in &ops {
            for b in &ops {
                for x in &small {
                    for y in &small {
                        for z in &small {
                            progs.push(E::Bin(*a as u8, 0, Box::new(E::Bin(*b as u8, 0, Box::new(x.clone()), Box::new(y.clone()))), Box::new(z.clone())));
                            progs.push(E::Bin(*a as u8, 0, Box::new(x.clone()), Box::new(E::Bin(*b as u8, 0, Box::new(y.clone()), Box::new(z.clone())))));
                        }
                    }
                }
            }
        }
        for e in &progs {
            let c = SmallCase { e: e.clone() };
            part.run_case(&c, &|c, i| run_small(c, i));
        }
        part.exhaustive = true;
        part.samples.truncate(0);
        for e in progs.iter().step_by(progs.len() / 4 + 1) {
            part.samples.push(json!({"source": render(e)}));
        }
    }
    fn replay(&self, case: &serde_json::Value) -> Result<(), Failure> {
        let c: SmallCase = serde_json::from_value(case.clone()).map_err(|e| Failure::new("replay-decode", e.to_string()))?;
        run_small(&c, &mut CaseInfo::default())
    }
}

pub fn checks() -> Vec<Box<dyn SubCheck>> {
    vec![
        Box::new(SmallCheck),
        Box::new(vcore::PropCheck {
            property: "C08",
            name: "typed",
            rule: "type-directed generation (depth 1-4) of expressions of type Boolean/String/Integer/[String]/(Integer,Boolean) over all documented operators, literals incl. i64 extremes, arrays, tuples + .n (incl. out of range), indexing (incl. negative / out of range), let (incl. shadowing), if / ?:, templates, to_string/to_integer/split/strcat, request.{listener,connector,feature,source,target}{,.host,.port,.type}, cidr_match; 25% of programs get one sub-term of a different type (ill-typed by construction); loaded exactly as Filter::validate / the hashBy loader / the log-format loader do, then evaluated under generated request attributes (port 0/65535, empty and 8 KiB strings, v4/v6/domain, every feature); oracle: accepted => no panic, value of the accepted type equal to an independent reference interpreter where the documentation defines it, or one of the inherently dynamic errors that some sub-term can produce; non-trivial = accepted and uses operators of >= 2 precedence levels",
            quick: 100_000,
            thorough: 3_000_000,
            max_shrink: 4000,
            strategy: case_strategy,
            case: run_case,
        }),
    ]
}
