//! C03 — destination integrity through every protocol re-encoding (codec composition against
//! independent reference encoders / parsers).
use crate::common::fragment::Fragmentable;
use crate::common::frames::{Frame, FrameWriter};
use crate::common::socks::frames::encode_socks_frame;
use crate::harness::codec::{dest_of, drive, run_async, target_of, Decoder, DriveFail};
use crate::harness::util::catch;
use bytes::{Buf, Bytes};
use proptest::prelude::*;
use serde::{Deserialize, Serialize};
use serde_json::json;
use vcore::refcodec::{self as rc, Dest, Host};
use vcore::{fail, CaseInfo, Failure, SubCheck};

#[derive(Clone, Copy, Debug, PartialEq, Eq, Serialize, Deserialize)]
pub enum Pin {
    Connect,
    Socks4,
    Socks5,
    Socks5Udp,
    Rpfm,
    /// no inbound codec: the TargetAddress is constructed directly (what a faithful reader would yield)
    Direct,
}

#[derive(Clone, Copy, Debug, PartialEq, Eq, Serialize, Deserialize)]
pub enum Pout {
    Connect,
    ConnectUdp,
    Socks4,
    Socks5,
    Socks5Auth,
    Socks5Udp,
    RpfmHeader,
    RpfmStream,
    RpfmFragment,
}

const PINS: &[Pin] = &[Pin::Connect, Pin::Socks4, Pin::Socks5, Pin::Socks5Udp, Pin::Rpfm, Pin::Direct];
const POUTS: &[Pout] = &[
    Pout::Connect,
    Pout::ConnectUdp,
    Pout::Socks4,
    Pout::Socks5,
    Pout::Socks5Auth,
    Pout::Socks5Udp,
    Pout::RpfmHeader,
    Pout::RpfmStream,
    Pout::RpfmFragment,
];

#[derive(Clone, Debug, Serialize, Deserialize)]
pub struct Case {
    pub dest: Dest,
    pub class: String,
    pub pin: Pin,
    pub pout: Pout,
    pub body_len: u8,
}

fn hostile_name() -> BoxedStrategy<(String, Vec<u8>)> {
    fn with(class: &'static str, s: BoxedStrategy<Vec<u8>>) -> BoxedStrategy<(String, Vec<u8>)> {
        s.prop_map(move |v| (class.to_string(), v)).boxed()
    }
    let ldh = "[a-z0-9]([a-z0-9.-]{0,40}[a-z0-9])?".prop_map(|s| s.into_bytes()).boxed();
    let inject = |ch: &'static [u8]| -> BoxedStrategy<Vec<u8>> {
        ("[a-z0-9.]{0,12}", "[a-zA-Z0-9:. /-]{0,24}")
            .prop_map(move |(a, b)| {
                let mut v = a.into_bytes();
                v.extend_from_slice(ch);
                v.extend_from_slice(b.as_bytes());
                v
            })
            .boxed()
    };
    let long = |n: usize| -> BoxedStrategy<Vec<u8>> {
        any::<u8>()
            .prop_map(move |c| {
                let mut v = vec![b'a' + (c % 26); n];
                if n > 10 {
                    v[n / 2] = b'.';
                }
                v
            })
            .boxed()
    };
    // many multi-byte characters: the byte length and the character count fall on different sides of 255
    let utf8_long = (0usize..4, 60usize..262, "[a-z.]{0,6}")
        .prop_map(|(k, n, tail)| {
            let ch = ["é", "中", "😀", "ü"][k];
            let mut s = ch.repeat(n);
            s.push_str(&tail);
            s.into_bytes()
        })
        .boxed();
    prop_oneof![
        3 => with("ldh", ldh),
        3 => with("utf8-long", utf8_long),
        1 => with("empty", Just(vec![]).boxed()),
        1 => with("short", "[a-z]{1,3}".prop_map(|s| s.into_bytes()).boxed()),
        2 => with("space", inject(b" ")),
        2 => with("crlf", inject(b"\r\nX-Injected: 1\r\n")),
        1 => with("lf", inject(b"\n")),
        1 => with("cr", inject(b"\r")),
        2 => with("nul", inject(b"\0")),
        1 => with("tab", inject(b"\t")),
        2 => with("colon", inject(b":")),
        1 => with("brackets", inject(b"[")),
        1 => with("brackets", inject(b"]")),
        1 => with("at", inject(b"@")),
        1 => with("c0", (inject(b"\x01"))),
        1 => with("c0", (inject(b"\x1b"))),
        1 => with("del", inject(b"\x7f")),
        2 => with("utf8", inject("é中".as_bytes())),
        2 => with("invalid-utf8", inject(b"\xff\xfe")),
        1 => with("invalid-utf8", inject(b"\xc3")),
        1 => with("looks-ipv4", any::<[u8;4]>().prop_map(|a| std::net::Ipv4Addr::from(a).to_string().into_bytes()).boxed()),
        1 => with("looks-ipv6", any::<[u8;16]>().prop_map(|a| std::net::Ipv6Addr::from(a).to_string().into_bytes()).boxed()),
        1 => with("bracketed-ipv6", any::<[u8;16]>().prop_map(|a| format!("[{}]", std::net::Ipv6Addr::from(a)).into_bytes()).boxed()),
        1 => with("len-253", long(253)),
        1 => with("len-254", long(254)),
        1 => with("len-255", long(255)),
        1 => with("len-256", long(256)),
        1 => with("len-257", long(257)),
        1 => with("len-300", long(300)),
        1 => with("len-250..260", (250usize..260).prop_flat_map(long).boxed()),
        1 => with("random-bytes", prop::collection::vec(any::<u8>(), 1..40).boxed()),
    ]
    .boxed()
}

pub fn case_strategy() -> impl Strategy<Value = Case> {
    let port = prop_oneof![Just(0u16), Just(1), Just(80), Just(255), Just(256), Just(65535), any::<u16>()];
    let host = prop_oneof![
        8 => hostile_name().prop_map(|(c, v)| (c, Host::Name(v))),
        1 => any::<[u8; 4]>().prop_map(|a| ("ipv4".to_string(), Host::V4(a))),
        1 => any::<[u8; 16]>().prop_map(|a| ("ipv6".to_string(), Host::V6(a))),
    ];
    (host, port, 0usize..PINS.len(), 0usize..POUTS.len(), any::<u8>()).prop_map(|((class, host), port, pi, po, body_len)| Case {
        dest: Dest { host, port },
        class,
        pin: PINS[pi],
        pout: POUTS[po],
        body_len,
    })
}

/// Can P_in carry this destination at all (protocol syntax, not proxy policy)?
fn encode_in(pin: Pin, d: &Dest, body: &[u8]) -> Option<(Decoder, Vec<u8>)> {
    match pin {
        Pin::Connect => {
            // the request-target ends at the first SP; CR/LF end the line; RFC 7230 §3.5 lets a recipient
            // treat any whitespace as the separator, so no whitespace can be carried in a target
            if let Host::Name(n) = &d.host {
                if n.iter().any(|c| matches!(c, b' ' | b'\r' | b'\n' | b'\t' | 0x0b | 0x0c)) {
                    return None;
                }
            }
            let t = d.authority();
            let mut b = rc::encode_connect(&t, &[(b"Host".to_vec(), t.clone())]);
            b.extend_from_slice(body);
            Some((Decoder::H11cHandshake, b))
        }
        Pin::Socks4 => {
            if let Host::Name(n) = &d.host {
                if n.contains(&0) {
                    return None;
                }
            }
            if let Host::V4(a) = &d.host {
                if a[0] == 0 && a[1] == 0 && a[2] == 0 {
                    return None; // that range is the 4a marker
                }
            }
            let mut b = rc::encode_socks4(1, d, b"id")?;
            b.extend_from_slice(body);
            Some((Decoder::SocksReq { required: false }, b))
        }
        Pin::Socks5 => {
            let mut b = rc::encode_socks5_greeting(&[0]);
            b.extend_from_slice(&rc::encode_socks5_request(1, d)?);
            b.extend_from_slice(body);
            Some((Decoder::SocksReq { required: false }, b))
        }
        Pin::Socks5Udp => Some((Decoder::SocksUdp, rc::encode_socks5_udp(d, body)?)),
        Pin::Rpfm => Some((
            Decoder::FrameBuf,
            rc::encode_rpfm(&rc::Rpfm {
                session: 9,
                addr: Some(d.clone()),
                body: body.to_vec(),
            })?,
        )),
        Pin::Direct => None,
    }
}

fn hostile(class: &str) -> bool {
    !matches!(class, "ldh" | "ipv4" | "ipv6" | "short")
}

/// Judge the bytes the proxy wrote for P_out against the destination it was asked to reach.
fn judge_out(pout: Pout, want: &Dest, w: &[u8], body: &[u8]) -> Result<(), Failure> {
    let pn = format!("{:?}", pout);
    let mism = |got: &Dest, what: &str| -> Failure {
        Failure::new(
            format!("out-reinterpreted:{}:{}", pn, what),
            format!("{:?}: asked for {} but the outgoing message names {}", pout, want.render(), got.render()),
        )
    };
    match pout {
        Pout::Connect | Pout::ConnectUdp => {
            let head = match rc::parse_http_head(w, false) {
                Some(h) => h,
                None => {
                    return Err(Failure::new(
                        format!("out-malformed:{}", pn),
                        format!("{:?}: outgoing CONNECT for {} is not one well-formed request head: {:?}", pout, want.render(), String::from_utf8_lossy(&w[..w.len().min(120)])),
                    ))
                }
            };
            if head.consumed != w.len() {
                return Err(Failure::new(format!("out-residue:{}", pn), format!("{} extra bytes after the CONNECT head", w.len() - head.consumed)));
            }
            if head.start.0 != b"CONNECT" || head.start.2 != b"HTTP/1.1" {
                return Err(Failure::new(format!("out-malformed:{}", pn), "request line is not CONNECT … HTTP/1.1".to_string()));
            }
            let got = match rc::parse_authority(&head.start.1) {
                Some(g) => g,
                None => return Err(Failure::new(format!("out-malformed:{}", pn), format!("request-target {:?} is not host:port", String::from_utf8_lossy(&head.start.1)))),
            };
            if got.canon() != want.canon() {
                return Err(mism(&got, "target"));
            }
            let allowed: &[&str] = if pout == Pout::Connect {
                &["host"]
            } else {
                &["host", "proxy-protocol", "proxy-channel", "udp-bind-source"]
            };
            for (k, v) in &head.headers {
                let kl = String::from_utf8_lossy(k).to_ascii_lowercase();
                if !allowed.contains(&kl.as_str()) {
                    return Err(Failure::new(format!("out-extra-field:{}", pn), format!("unexpected header {:?}: {:?}", kl, String::from_utf8_lossy(v))));
                }
                if kl == "host" && v != &head.start.1 {
                    return Err(Failure::new(format!("out-reinterpreted:{}:host-header", pn), format!("Host header {:?} differs from request-target {:?}", String::from_utf8_lossy(v), String::from_utf8_lossy(&head.start.1))));
                }
            }
            Ok(())
        }
        Pout::Socks4 => {
            let r = match rc::parse_socks4(w) {
                Some(r) => r,
                None => return Err(Failure::new(format!("out-malformed:{}", pn), format!("not a SOCKS4 request: {:02x?}", &w[..w.len().min(40)]))),
            };
            if r.consumed != w.len() {
                return Err(Failure::new(format!("out-residue:{}", pn), format!("{} extra bytes after the SOCKS4 request (host re-split at a NUL?)", w.len() - r.consumed)));
            }
            if r.dest.canon() != want.canon() {
                return Err(mism(&r.dest, "target"));
            }
            if r.cmd != 1 {
                return Err(Failure::new(format!("out-malformed:{}", pn), "cmd"));
            }
            Ok(())
        }
        Pout::Socks5 | Pout::Socks5Auth => {
            if w.len() < 2 || w[0] != 5 {
                return Err(Failure::new(format!("out-malformed:{}", pn), "greeting"));
            }
            let n = w[1] as usize;
            let mut pos = 2 + n;
            if w.len() < pos {
                return Err(Failure::new(format!("out-malformed:{}", pn), "greeting methods"));
            }
            if pout == Pout::Socks5Auth {
                // RFC 1929 sub-negotiation
                if w.len() < pos + 2 || w[pos] != 1 {
                    return Err(Failure::new(format!("out-malformed:{}", pn), "userpass"));
                }
                let ul = w[pos + 1] as usize;
                let pl = *w.get(pos + 2 + ul).ok_or_else(|| Failure::new(format!("out-malformed:{}", pn), "userpass"))? as usize;
                pos += 2 + ul + 1 + pl;
            }
            let m = match rc::parse_socks5_msg(w.get(pos..).unwrap_or(&[])) {
                Some(m) => m,
                None => return Err(Failure::new(format!("out-malformed:{}", pn), format!("request does not parse: {:02x?}", &w[pos.min(w.len())..w.len().min(pos + 24)]))),
            };
            if pos + m.consumed != w.len() {
                return Err(Failure::new(format!("out-residue:{}", pn), format!("{} extra bytes after the SOCKS5 request (length byte truncated?)", w.len() - pos - m.consumed)));
            }
            if m.ver != 5 || m.code != 1 {
                return Err(Failure::new(format!("out-malformed:{}", pn), "ver/cmd"));
            }
            if m.dest.canon() != want.canon() {
                return Err(mism(&m.dest, "target"));
            }
            Ok(())
        }
        Pout::Socks5Udp => {
            let (_h, d, payload) = match rc::parse_socks5_udp(w) {
                Some(x) => x,
                None => return Err(Failure::new(format!("out-malformed:{}", pn), "udp header")),
            };
            if d.canon() != want.canon() {
                return Err(mism(&d, "target"));
            }
            if payload != body {
                return Err(Failure::new(format!("out-residue:{}", pn), "payload changed"));
            }
            Ok(())
        }
        Pout::RpfmHeader | Pout::RpfmStream | Pout::RpfmFragment => {
            let (f, used) = match rc::parse_rpfm(w) {
                Ok(Some(x)) => x,
                other => return Err(Failure::new(format!("out-malformed:{}", pn), format!("frame does not parse: {:?}", other.err()))),
            };
            if used != w.len() {
                return Err(Failure::new(format!("out-residue:{}", pn), format!("{} extra bytes after the frame", w.len() - used)));
            }
            match &f.addr {
                Some(d) if d.canon() == want.canon() => {}
                Some(d) => return Err(mism(d, "target")),
                // a frame without address is never delivered to a wrong destination: counted as refusal
                None => return Err(Failure::new(format!("out-malformed:{}:addr-dropped", pn), "the frame lost its address")),
            }
            if f.body != body {
                return Err(Failure::new(format!("out-residue:{}", pn), "body changed"));
            }
            Ok(())
        }
    }
}

pub fn run_case(case: &Case, info: &mut CaseInfo) -> Result<(), Failure> {
    let body = vcore::payload(77, (case.body_len % 40) as usize);
    let want = case.dest.clone();
    // ---------------- stage 1: inbound
    let target = match encode_in(case.pin, &want, &body) {
        Some((dec, bytes)) => {
            let res = run_async(async { drive(dec, &bytes, &[], None).await });
            let out = match res {
                Ok(o) => o,
                Err(DriveFail::Panic(p)) => fail!(format!("panic:in:{:?}:{}", case.pin, p.class()), "inbound {:?} panicked: {}", case.pin, p.msg),
                Err(DriveFail::Wedged) => fail!(format!("wedged:in:{:?}", case.pin), "inbound {:?} did not terminate", case.pin),
            };
            match (&out.parsed, &out.dest) {
                (Some(_), Some(got)) => {
                    if got.canon() != want.canon() {
                        let how = if matches!(&want.host, Host::Name(n) if std::str::from_utf8(n).is_err()) {
                            "non-utf8-rewritten"
                        } else if matches!(&want.host, Host::Name(n) if n.len() < 4) {
                            "short-host"
                        } else {
                            "other"
                        };
                        fail!(
                            format!("in-reinterpreted:{:?}:{}", case.pin, how),
                            "{:?}: the client asked for {:?} port {} but the request was read as {}",
                            case.pin,
                            want.host,
                            want.port,
                            got.render()
                        );
                    }
                    // the payload behind the inbound message must be intact as well
                    if out.rest != body && !matches!(case.pin, Pin::Connect) {
                        fail!(format!("in-residue:{:?}", case.pin), "payload behind the request changed ({} vs {} bytes)", out.rest.len(), body.len());
                    }
                    info.class("in-accepted");
                    target_of(got)
                }
                (Some(_), None) => fail!(format!("in-reinterpreted:{:?}:no-dest", case.pin), "accepted without a destination"),
                (None, _) => {
                    info.class("in-refused");
                    // refusal is always acceptable; but a perfectly ordinary destination must not be refused
                    if !hostile(&case.class) {
                        let k = if matches!(&want.host, Host::Name(n) if n.len() < 4) { "short-host" } else { "ordinary" };
                        fail!(
                            format!("in-refused-ordinary:{:?}:{}", case.pin, k),
                            "{:?} refused an ordinary destination {}: {:?}",
                            case.pin,
                            want.render(),
                            out.err
                        );
                    }
                    None
                }
            }
        }
        None => {
            info.class("in-not-encodable");
            if case.pin == Pin::Direct {
                target_of(&want)
            } else {
                None
            }
        }
    };
    let target = match target {
        Some(t) => t,
        None => {
            info.nontrivial = hostile(&case.class);
            info.sample = Some(json!({"class": case.class, "pin": format!("{:?}", case.pin), "stage": "inbound-only", "host_len": match &want.host { Host::Name(n) => n.len(), _ => 0 }}));
            return Ok(());
        }
    };
    // what the rules saw
    let seen = dest_of(&target).unwrap();
    // ---------------- stage 2: outbound
    let pout = case.pout;
    let res: Result<Option<(Vec<u8>, bool)>, DriveFail> = match pout {
        Pout::Connect | Pout::ConnectUdp => {
            let reply = b"HTTP/1.1 200 OK\r\nSession-Id: 5\r\n\r\n".to_vec();
            run_async(async { drive(Decoder::H11cConnect { udp: pout == Pout::ConnectUdp }, &reply, &[], Some(&seen)).await })
                .map(|o| if o.parsed.is_some() || !o.writes.is_empty() { Some((o.writes, o.parsed.is_none())) } else { None })
        }
        Pout::Socks5 | Pout::Socks5Auth => {
            let mut reply = if pout == Pout::Socks5Auth { vec![5u8, 2, 1, 0] } else { vec![5u8, 0] };
            reply.extend_from_slice(&[5, 0, 0, 1, 127, 0, 0, 1, 0, 80]);
            run_async(async { drive(Decoder::SocksClient { v5: true, auth: pout == Pout::Socks5Auth }, &reply, &[], Some(&seen)).await })
                .map(|o| if o.parsed.is_some() || !o.writes.is_empty() { Some((o.writes, o.parsed.is_none())) } else { None })
        }
        Pout::Socks4 => {
            let reply = vec![0u8, 90, 0, 80, 127, 0, 0, 1];
            run_async(async { drive(Decoder::SocksClient { v5: false, auth: false }, &reply, &[], Some(&seen)).await })
                .map(|o| if o.parsed.is_some() || !o.writes.is_empty() { Some((o.writes, o.parsed.is_none())) } else { None })
        }
        Pout::Socks5Udp => {
            let t = target.clone();
            let b = body.clone();
            match catch(move || {
                let mut f = Frame::from_body(Bytes::from(b));
                f.addr = Some(t);
                encode_socks_frame(f).ok().map(|b| (b.to_vec(), false))
            }) {
                Ok(x) => Ok(x),
                Err(p) => Err(DriveFail::Panic(p)),
            }
        }
        Pout::RpfmHeader | Pout::RpfmFragment => {
            let t = target.clone();
            let b = body.clone();
            let frag = pout == Pout::RpfmFragment;
            match catch(move || {
                let mut f = Frame::from_body(Bytes::from(b.clone()));
                f.addr = Some(t);
                f.session_id = 3;
                if frag {
                    let mut buf = f.as_buffer();
                    let mut v = vec![];
                    while buf.has_remaining() {
                        let c = buf.chunk().to_vec();
                        buf.advance(c.len());
                        v.extend_from_slice(&c);
                    }
                    Some((v, false))
                } else {
                    let mut v = f.make_header().to_vec();
                    v.extend_from_slice(&b);
                    Some((v, false))
                }
            }) {
                Ok(x) => Ok(x),
                Err(p) => Err(DriveFail::Panic(p)),
            }
        }
        Pout::RpfmStream => {
            let t = target.clone();
            let b = body.clone();
            run_async(async move {
                let (near, mut far) = tokio::io::duplex(1 << 20);
                let (_r, mut w) = crate::common::frames::frames_from_stream(3, near);
                let mut f = Frame::from_body(Bytes::from(b));
                f.addr = Some(t);
                let r = w.write(f).await;
                let _ = w.shutdown().await;
                drop(w);
                drop(_r);
                let mut out = vec![];
                use tokio::io::AsyncReadExt;
                let _ = far.read_to_end(&mut out).await;
                if r.is_ok() || !out.is_empty() {
                    Some((out, r.is_err()))
                } else {
                    None
                }
            })
        }
    };
    let written = match res {
        Ok(w) => w,
        Err(DriveFail::Panic(p)) => fail!(format!("panic:out:{:?}:{}", pout, p.class()), "outbound {:?} panicked for {}: {}", pout, seen.render(), p.msg),
        Err(DriveFail::Wedged) => fail!(format!("wedged:out:{:?}", pout), "outbound {:?} did not terminate", pout),
    };
    match written {
        None => {
            info.class("out-refused");
            // refusing is fine when the protocol cannot carry the destination; an ordinary destination
            // that the protocol can carry must go through
            let representable = match (pout, &seen.host) {
                (Pout::Socks4, Host::V6(_)) => false,
                _ => true,
            };
            if !hostile(&case.class) && representable {
                fail!(format!("out-refused-ordinary:{:?}", pout), "{:?} refused an ordinary destination {}", pout, seen.render());
            }
        }
        Some((w, errored)) => {
            match judge_out(pout, &want, &w, &body) {
                Ok(()) => info.class("out-written"),
                // the writer gave up part-way: an incomplete message followed by a close names no
                // destination, which is a refusal
                Err(f) if errored && f.key.starts_with("out-malformed") => info.class("out-refused-midway"),
                Err(f) if f.key.ends_with(":addr-dropped") && hostile(&case.class) => info.class("out-refused-addr-dropped"),
                Err(f) => return Err(f),
            }
        }
    }
    info.class(format!("class:{}", case.class));
    info.class(format!("pair:{:?}->{:?}", case.pin, case.pout));
    info.nontrivial = hostile(&case.class) || matches!(&want.host, Host::V6(_)) && pout == Pout::Socks4;
    info.sample = Some(json!({"class": case.class, "pin": format!("{:?}", case.pin), "pout": format!("{:?}", case.pout), "dest": want.render(), "host_len": match &want.host { Host::Name(n) => n.len(), _ => 0 }}));
    Ok(())
}

pub fn checks() -> Vec<Box<dyn SubCheck>> {
    vec![Box::new(vcore::PropCheck {
        property: "C03",
        name: "codec-composition",
        rule: "destination D = (host bytes from 31 classes: LDH, empty, 1-3 chars, SP, CRLF+header, LF, CR, NUL, TAB, ':', '[', ']', '@', C0, DEL, non-ASCII UTF-8, 60-261 multi-byte characters (120-1050 bytes), invalid UTF-8, IPv4/IPv6/bracketed-IPv6 look-alikes, lengths 250..260 and 300, random bytes; or an IPv4/IPv6 address) x port (boundary-biased) x inbound codec {CONNECT, SOCKS4/4a, SOCKS5, SOCKS5-UDP, RPFM, direct} x outbound writer {CONNECT tcp/udp, SOCKS4, SOCKS5, SOCKS5+auth, SOCKS5-UDP, RPFM header/stream/fragment buffer}; reference-encode -> real reader -> real writer -> reference-parse; oracle: refusal or exactly one well-formed message naming canon(D), no residue, no extra header, Host == request-target; non-trivial = hostile host class or an unrepresentable family",
        quick: 60_000,
        thorough: 600_000,
        max_shrink: 800,
        strategy: case_strategy,
        case: run_case,
    })]
}
