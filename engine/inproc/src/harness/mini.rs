//! The mini-proxy: the real GlobalState / create_context / process_request / copy_bidi / gc_thread
//! wired to harness connectors and in-memory streams (what main() wires together, minus sockets).
use crate::connectors::Connector;
use crate::context::{
    make_buffered_stream, Context, ContextCallback, ContextRef, ContextRefOps, Feature, GlobalState as Contexts, TargetAddress,
};
use crate::rules::Rule;
use crate::GlobalState;
use async_trait::async_trait;
use easy_error::{err_msg, Error};
use std::net::SocketAddr;
use std::sync::atomic::{AtomicUsize, Ordering};
use std::sync::{Arc, Mutex};
use tokio::io::DuplexStream;

/// What a harness connector does when `connect` is called.
#[derive(Clone, Debug)]
pub enum Behaviour {
    /// succeed; the server stream is the near end of a duplex whose far end is handed to the harness
    Accept,
    /// succeed with a server stream that is already at EOF
    AcceptEof,
    /// fail with an error
    Refuse,
}

pub struct RecordingConnector {
    pub name: String,
    pub features: Vec<Feature>,
    pub behaviour: Behaviour,
    /// ids of the contexts for which `connect` ran, in order
    pub calls: Mutex<Vec<u64>>,
    /// far ends of accepted server streams, by context id
    pub far_ends: Mutex<Vec<(u64, DuplexStream)>>,
    pub pipe_capacity: usize,
    pub sched: Mutex<Option<crate::harness::util::Sched>>,
}

impl RecordingConnector {
    pub fn new(name: &str, features: Vec<Feature>, behaviour: Behaviour) -> Arc<Self> {
        Arc::new(RecordingConnector {
            name: name.to_string(),
            features,
            behaviour,
            calls: Mutex::new(vec![]),
            far_ends: Mutex::new(vec![]),
            pipe_capacity: 1 << 16,
            sched: Mutex::new(None),
        })
    }
    pub fn with_capacity(name: &str, features: Vec<Feature>, cap: usize, sched: Option<crate::harness::util::Sched>) -> Arc<Self> {
        Arc::new(RecordingConnector {
            name: name.to_string(),
            features,
            behaviour: Behaviour::Accept,
            calls: Mutex::new(vec![]),
            far_ends: Mutex::new(vec![]),
            pipe_capacity: cap,
            sched: Mutex::new(sched),
        })
    }
    pub fn take_far_end(&self, id: u64) -> Option<DuplexStream> {
        let mut g = self.far_ends.lock().unwrap();
        let pos = g.iter().position(|(i, _)| *i == id)?;
        Some(g.remove(pos).1)
    }
}

#[async_trait]
impl Connector for RecordingConnector {
    fn name(&self) -> &str {
        &self.name
    }
    fn features(&self) -> &[Feature] {
        &self.features
    }
    async fn connect(self: Arc<Self>, _state: Arc<GlobalState>, ctx: ContextRef) -> Result<(), Error> {
        let id = ctx.read().await.props().id;
        self.calls.lock().unwrap().push(id);
        match self.behaviour {
            Behaviour::Refuse => Err(err_msg(format!("{}: refused by harness", self.name))),
            Behaviour::Accept | Behaviour::AcceptEof => {
                let (near, far) = tokio::io::duplex(self.pipe_capacity.max(1));
                let sched = self.sched.lock().unwrap().clone();
                let stream = match sched {
                    Some(s) => make_buffered_stream(crate::harness::util::Scripted::new(near, s)),
                    None => make_buffered_stream(near),
                };
                ctx.write()
                    .await
                    .set_server_stream(stream)
                    .set_local_addr("127.0.0.1:1".parse().unwrap())
                    .set_server_addr("127.0.0.1:2".parse().unwrap());
                if matches!(self.behaviour, Behaviour::Accept) {
                    self.far_ends.lock().unwrap().push((id, far));
                }
                Ok(())
            }
        }
    }
}

/// Records which callbacks the client side of a context saw.
#[derive(Default)]
pub struct CallbackLog {
    pub on_connect: AtomicUsize,
    pub on_error: AtomicUsize,
    pub on_finish: AtomicUsize,
    pub error_text: Mutex<Option<String>>,
}

pub struct RecordingCallback(pub Arc<CallbackLog>);

#[async_trait]
impl ContextCallback for RecordingCallback {
    async fn on_connect(&self, _ctx: &mut Context) {
        self.0.on_connect.fetch_add(1, Ordering::SeqCst);
    }
    async fn on_error(&self, _ctx: &mut Context, error: Error) {
        self.0.on_error.fetch_add(1, Ordering::SeqCst);
        *self.0.error_text.lock().unwrap() = Some(error.to_string());
    }
    async fn on_finish(&self, _ctx: &mut Context) {
        self.0.on_finish.fetch_add(1, Ordering::SeqCst);
    }
}

pub struct Mini {
    pub state: Arc<GlobalState>,
    pub connectors: Vec<Arc<RecordingConnector>>,
}

pub fn rule_from(target: &str, filter: Option<&str>) -> Result<Arc<Rule>, String> {
    let v = match filter {
        Some(f) => serde_json::json!({"target": target, "filter": f}),
        None => serde_json::json!({"target": target}),
    };
    serde_json::from_value::<Rule>(v).map(Arc::new).map_err(|e| e.to_string())
}

impl Mini {
    /// Build a GlobalState the way main() does: connectors first, then set_rules.
    pub async fn new(
        connectors: Vec<Arc<RecordingConnector>>,
        extra: Vec<(String, Arc<dyn Connector>)>,
        rules: Vec<(String, Option<String>)>,
        history_size: usize,
        buffer_size: usize,
    ) -> Result<Mini, String> {
        let mut state: GlobalState = Default::default();
        for c in &connectors {
            state.connectors.insert(c.name.clone(), c.clone() as Arc<dyn Connector>);
        }
        for (n, c) in extra {
            state.connectors.insert(n, c);
        }
        {
            let ctxs = Arc::get_mut(&mut state.contexts).unwrap();
            ctxs.history_size = history_size;
            ctxs.default_timeout = 600;
        }
        state.io_params.buffer_size = buffer_size;
        state.io_params.use_splice = false;
        let mut rs = vec![];
        for (t, f) in &rules {
            rs.push(rule_from(t, f.as_deref())?);
        }
        state.set_rules(rs).await.map_err(|e| format!("{} {:?}", e, e.cause))?;
        Ok(Mini {
            state: Arc::new(state),
            connectors,
        })
    }

    pub fn contexts(&self) -> &Arc<Contexts> {
        &self.state.contexts
    }

    /// Create a context as a listener would, with a recording callback.
    pub async fn request(
        &self,
        listener: &str,
        source: SocketAddr,
        target: TargetAddress,
        feature: Feature,
        client_stream: Option<DuplexStream>,
    ) -> (ContextRef, Arc<CallbackLog>) {
        let ctx = self.state.contexts.create_context(listener.to_string(), source).await;
        let log = Arc::new(CallbackLog::default());
        {
            let mut g = ctx.write().await;
            g.set_target(target).set_feature(feature).set_callback(RecordingCallback(log.clone()));
            if let Some(s) = client_stream {
                g.set_client_stream(make_buffered_stream(s));
            }
        }
        (ctx, log)
    }

    /// enqueue + process, as the main loop does
    pub async fn process(&self, ctx: ContextRef) {
        let (tx, mut rx) = tokio::sync::mpsc::channel(1);
        if ctx.clone().enqueue(&tx).await.is_ok() {
            if let Some(c) = rx.recv().await {
                crate::process_request(c, self.state.clone()).await;
            }
        }
    }
}
