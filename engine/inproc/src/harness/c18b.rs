//! C18(b,c,d) — the real binary: `-t` and start-up over generated documents with traffic afterwards,
//! `POST /api/rules` with arbitrary bodies, and the nesting / chain-length ladder.
use crate::harness::bin::{self, Bin, Echo, Exit};
use crate::harness::c08::{Gen, Ty};
use crate::harness::c09::render_min;
use crate::harness::c18::{build_doc, case_strategy, Case};
use proptest::prelude::*;
use serde::{Deserialize, Serialize};
use serde_json::{json, Value as J};
use serde_yaml::Value as Y;
use std::sync::Mutex;
use std::time::{Duration, Instant};
use vcore::{fail, CaseInfo, Failure, Part, SubCheck};

lazy_static::lazy_static! {
    static ref ECHO: Echo = Echo::start();
}

#[derive(Debug, Clone)]
struct L {
    name: String,
    ty: String,
    udp: bool,
    tls: bool,
    port: u16,
}

/// give every listener (and the API) an address the harness knows
fn assign_ports(text: &str) -> (String, Vec<L>, Option<u16>) {
    let mut doc: Y = match serde_yaml::from_str(text) {
        Ok(d) => d,
        Err(_) => return (text.to_string(), vec![], None),
    };
    let mut ls = vec![];
    let mut api = None;
    if let Some(Y::Sequence(seq)) = doc.get_mut("listeners") {
        for l in seq.iter_mut() {
            if let Y::Mapping(m) = l {
                let name = m.get(&Y::String("name".into())).and_then(|v| v.as_str()).unwrap_or("").to_string();
                let ty = m.get(&Y::String("type".into())).and_then(|v| v.as_str()).map(|s| s.to_string()).unwrap_or_else(|| name.clone());
                let udp = m.get(&Y::String("protocol".into())).and_then(|v| v.as_str()) == Some("udp") || ty == "quic";
                let tls = m.get(&Y::String("tls".into())).map(|v| !v.is_null()).unwrap_or(false);
                if let Some(Y::String(b)) = m.get_mut(&Y::String("bind".into())) {
                    if b.parse::<std::net::SocketAddr>().is_ok() {
                        let port = bin::free_port();
                        *b = format!("127.0.0.1:{}", port);
                        ls.push(L { name, ty, udp, tls, port });
                    }
                }
            }
        }
    }
    if let Some(Y::Mapping(m)) = doc.get_mut("metrics") {
        if let Some(Y::String(b)) = m.get_mut(&Y::String("bind".into())) {
            if b.parse::<std::net::SocketAddr>().is_ok() {
                let port = bin::free_port();
                *b = format!("127.0.0.1:{}", port);
                api = Some(port);
            }
        }
    }
    (serde_yaml::to_string(&doc).unwrap_or_else(|_| text.to_string()), ls, api)
}

fn panicked(out: &str) -> Option<String> {
    out.lines().find(|l| l.contains("panicked at") || l.contains("overflowed its stack")).map(|l| l.chars().take(200).collect())
}

fn connect_req(target: &str) -> Vec<u8> {
    format!("CONNECT {} HTTP/1.1\r\nHost: {}\r\n\r\n", target, target).into_bytes()
}

/// traffic for one listener; never judges the answers
fn traffic(l: &L) {
    let origin = format!("127.0.0.1:{}", ECHO.port);
    let short = Duration::from_millis(400);
    if l.udp {
        if let Ok(s) = std::net::UdpSocket::bind("127.0.0.1:0") {
            let _ = s.send_to(&[0xc0u8; 1200], ("127.0.0.1", l.port));
            let _ = s.send_to(b"\x12\x34\x01\x00\x00\x01\x00\x00\x00\x00\x00\x00\x01a\x00\x00\x01\x00\x01", ("127.0.0.1", l.port));
        }
        return;
    }
    match l.ty.as_str() {
        "http" if !l.tls => {
            std::thread::scope(|s| {
                for t in [origin.as_str(), "deny-me.com:80", "127.0.0.1:80", "localhost:1", "[::1]:9"] {
                    s.spawn(move || {
                        let _ = bin::poke(l.port, &connect_req(t), short);
                    });
                }
            });
            let _ = bin::poke(l.port, b"GET / HTTP/1.1\r\nHost: x\r\n\r\n", short);
        }
        "socks" if !l.tls => {
            let mut req = vec![5u8, 1, 0, 5, 1, 0, 1, 127, 0, 0, 1];
            req.extend_from_slice(&ECHO.port.to_be_bytes());
            let _ = bin::poke(l.port, &req, short);
            let mut req = vec![5u8, 1, 2, 1, 1, b'a', 1, b'a', 5, 1, 0, 1, 127, 0, 0, 1];
            req.extend_from_slice(&ECHO.port.to_be_bytes());
            let _ = bin::poke(l.port, &req, short);
            let mut req = vec![4u8, 1];
            req.extend_from_slice(&ECHO.port.to_be_bytes());
            req.extend_from_slice(&[127, 0, 0, 1, 0]);
            let _ = bin::poke(l.port, &req, short);
            // udp associate
            let _ = bin::poke(l.port, &[5u8, 1, 0, 5, 3, 0, 1, 0, 0, 0, 0, 0, 0], short);
        }
        _ => {
            let _ = bin::poke(l.port, b"\x16\x03\x01\x00\x05hello world, this is not your protocol\r\n\r\n", short);
        }
    }
}

pub fn run_binary_case(c: &Case, info: &mut CaseInfo) -> Result<(), Failure> {
    let scratch = bin::run_dir().join("scratch");
    let _ = std::fs::create_dir_all(&scratch);
    let (text, desc) = build_doc(c, scratch.to_str().unwrap_or("/tmp"));
    let (text, ls, api) = assign_ports(&text);
    let what = desc.join("; ");
    if let Ok(p) = std::env::var("VERIF_DUMP_CONFIG") {
        let _ = std::fs::write(p, &text);
    }
    let (exit, out, _) = bin::config_test(&text, Duration::from_secs(30));
    let head: String = text.chars().take(400).collect();
    match exit {
        Exit::Signal(s) => fail!(format!("config-test-killed:signal-{}", s), "`redproxy-rs -t` died by signal {} — mutations: {} — output: {} — document starts: {:?}", s, what, out.chars().take(300).collect::<String>(), head),
        Exit::Running => fail!("config-test-hangs", "`redproxy-rs -t` did not finish in 30 s — mutations: {}", what),
        Exit::Code(101) => fail!("config-test-panic", "`redproxy-rs -t` panicked — mutations: {} — output: {}", what, out.chars().take(400).collect::<String>()),
        Exit::Code(0) => {}
        Exit::Code(n) => {
            if let Some(p) = panicked(&out) {
                fail!("config-test-panic", "`redproxy-rs -t` panicked (exit {}) — mutations: {} — {}", n, what, p);
            }
            if out.trim().is_empty() {
                fail!("rejected-without-message", "`redproxy-rs -t` exited with {} and printed nothing — mutations: {}", n, what);
            }
            info.class("rejected");
            if matches!(c.extra, crate::harness::c18::Extra::LbGraph(_)) {
                info.class("lb-graph-rejected");
            }
            info.nontrivial = !c.muts.is_empty() || !matches!(c.extra, crate::harness::c18::Extra::None);
            return Ok(());
        }
    }
    info.class("accepted-by-t");
    // ---- accepted: run it for real and send traffic
    let ready: Vec<u16> = ls.iter().filter(|l| !l.udp).map(|l| l.port).chain(api).collect();
    let mut b = Bin::start(&text, &ready, Duration::from_secs(8)).map_err(|e| Failure::new("infrastructure", e))?;
    match b.exit() {
        Exit::Running => {}
        Exit::Signal(s) => fail!(format!("start-killed:signal-{}", s), "a configuration accepted by -t died by signal {} at start — mutations: {} — {}", s, what, b.tail(4)),
        Exit::Code(101) => fail!("start-panic", "a configuration accepted by -t panicked at start — mutations: {} — {}", what, b.tail(4)),
        Exit::Code(_) => {
            // e.g. an address that cannot be bound: an error exit with a message is a rejection
            if b.output().trim().is_empty() {
                fail!("start-exit-without-message", "accepted by -t, exits at start without a message — mutations: {}", what);
            }
            info.class("accepted-by-t-but-refused-at-start");
            info.nontrivial = true;
            return Ok(());
        }
    }
    info.class("started");
    if matches!(c.extra, crate::harness::c18::Extra::LbGraph(_)) {
        info.class("lb-graph-started");
    }
    std::thread::scope(|s| {
        for l in &ls {
            s.spawn(move || traffic(l));
        }
    });
    if let Some(p) = api {
        for path in ["/api/status", "/api/rules", "/api/live", "/api/history", "/api/metrics", "/metrics", "/"] {
            let _ = bin::http(p, "GET", path, None, Duration::from_millis(800));
        }
    }
    std::thread::sleep(Duration::from_millis(150));
    match b.exit() {
        Exit::Running => {}
        e => fail!(
            format!("died-under-traffic:{}", match e { Exit::Signal(s) => format!("signal-{}", s), Exit::Code(c) => format!("exit-{}", c), _ => String::new() }),
            "a configuration accepted by -t and started died when traffic arrived ({:?}) — mutations: {} — log: {}",
            e,
            what,
            b.tail(5)
        ),
    }
    if let Some(p) = panicked(&b.output()) {
        fail!("panic-under-traffic", "a task of the started proxy panicked under traffic — mutations: {} — {}", what, p);
    }
    for l in ls.iter().filter(|l| !l.udp) {
        if let Err(e) = bin::poke(l.port, b"", Duration::from_millis(50)) {
            fail!(format!("listener-stopped:{}", l.ty), "listener {} ({}) no longer accepts after the traffic: {} — mutations: {}", l.name, l.ty, e, what);
        }
    }
    info.nontrivial = true;
    info.sample = Some(json!({"mutations": desc, "listeners": ls.iter().map(|l| format!("{}:{}{}", l.name, l.ty, if l.udp { "/udp" } else { "" })).collect::<Vec<_>>(), "verdict": "accepted, started, alive after traffic"}));
    Ok(())
}

// ------------------------------------------------------------------ (c) POST /api/rules

struct Shared {
    bin: Bin,
    http: u16,
    api: u16,
    log_seen: usize,
}

lazy_static::lazy_static! {
    static ref SHARED: Mutex<Option<Shared>> = Mutex::new(None);
}

fn shared_start() -> Result<Shared, String> {
    let (http, api) = (bin::free_port(), bin::free_port());
    let yaml = format!(
        "apiVersion: v1\nkind: t\nlisteners:\n  - name: http\n    bind: 127.0.0.1:{}\nconnectors:\n  - name: direct\n  - name: lb\n    type: loadbalance\n    connectors: [direct]\nrules:\n  - target: direct\nmetrics:\n  bind: 127.0.0.1:{}\ntimeouts:\n  idle: 5\n",
        http, api
    );
    let mut bin = Bin::start(&yaml, &[http, api], Duration::from_secs(10))?;
    if bin.exit() != Exit::Running {
        return Err(format!("shared proxy did not start: {}", bin.tail(5)));
    }
    Ok(Shared { bin, http, api, log_seen: 0 })
}

/// POST a body and probe; Err(key, description) when the process is hurt
fn post_and_probe(body: &[u8], what: &str) -> Result<(String, f64), Failure> {
    let mut g = SHARED.lock().unwrap_or_else(|e| e.into_inner());
    if g.is_none() {
        *g = Some(shared_start().map_err(|e| Failure::new("infrastructure", e))?);
    }
    let sh = g.as_mut().unwrap();
    let t0 = Instant::now();
    let r = bin::http(sh.api, "POST", "/api/rules", Some(body), Duration::from_secs(60));
    let dt = t0.elapsed().as_secs_f64();
    let verdict = (|| {
        std::thread::sleep(Duration::from_millis(20));
        let dead = |sh: &mut Shared| match sh.bin.exit() {
            Exit::Running => None,
            Exit::Signal(s) => Some(format!("signal-{}", s)),
            Exit::Code(c) => Some(format!("exit-{}", c)),
        };
        if let Some(d) = dead(sh) {
            fail!(format!("post-rules-kills-process:{}", d), "POST /api/rules with {} ({} bytes) killed the proxy ({}): {}", what, body.len(), d, sh.bin.tail(3));
        }
        let class = match &r {
            Ok((s, _)) => format!("status-{}", s),
            Err(e) if e == "timeout" => fail!("post-rules-hangs", "POST /api/rules with {} ({} bytes) got no answer in 60 s", what, body.len()),
            Err(e) => {
                if body.len() < 1_000_000 {
                    fail!("post-rules-no-response", "POST /api/rules with {} ({} bytes) got no HTTP response: {}", what, body.len(), e);
                }
                "no-response-to-oversized-body".to_string()
            }
        };
        // the rules now in force meet a request
        let origin = format!("127.0.0.1:{}", ECHO.port);
        let _ = bin::poke(sh.http, &connect_req(&origin), Duration::from_millis(800));
        let _ = bin::poke(sh.http, &connect_req("127.0.0.1:1"), Duration::from_millis(300));
        match bin::http(sh.api, "GET", "/api/rules", None, Duration::from_secs(5)) {
            Ok((200, _)) => {}
            other => {
                if let Some(d) = dead(sh) {
                    fail!(format!("request-after-post-kills-process:{}", d), "after POST /api/rules with {} was answered with {}, the next request killed the proxy ({}): {}", what, class, d, sh.bin.tail(3));
                }
                fail!("api-dead-after-post", "after POST /api/rules with {}, GET /api/rules answers {:?}", what, other.map(|(s, _)| s));
            }
        }
        if let Some(d) = dead(sh) {
            fail!(format!("request-after-post-kills-process:{}", d), "after POST /api/rules with {} was answered with {}, the next request killed the proxy ({})", what, class, d);
        }
        let out = sh.bin.output();
        let new = &out[sh.log_seen.min(out.len())..];
        let p = panicked(new);
        sh.log_seen = out.len();
        if let Some(p) = p {
            fail!("panic-after-post", "after POST /api/rules with {} a task panicked: {}", what, p);
        }
        Ok(class)
    })();
    match verdict {
        Ok(c) => Ok((c, dt)),
        Err(f) => {
            *g = None; // fresh process for the next case
            Err(f)
        }
    }
}

#[derive(Debug, Clone, Serialize, Deserialize)]
pub enum Filter {
    None,
    Tape(Vec<u16>, bool),
    Nasty(u8),
    Chain(u8, u16),
}

#[derive(Debug, Clone, Serialize, Deserialize)]
pub struct RuleSpec {
    filter: Filter,
    target: u8,
    twist: u8,
}

#[derive(Debug, Clone, Serialize, Deserialize)]
pub enum Body {
    Rules(Vec<RuleSpec>),
    Shape(u8, u16),
    Bytes(Vec<u8>),
    Truncated(Vec<RuleSpec>, u16),
}

const NASTY: &[&str] = &[
    "", " ", "(", ")", "1", "\"", "`${`", "request", "request.", "request.target.port ==", "true;;", "1/0 == 1", "9223372036854775807 + 1 == 0", "-9223372036854775808 / -1 == 0",
    "1 << 64 == 0", "request.nothing == 1", "[] _: []", "1 _: []", "(1,2).5 == 1", "[1][5] == 1", "[1][-1] == 1", "\"a\" =~ \"(\"", "\"a\" =~ \"(a*)*b\"", "to_integer(\"x\") == 1",
    "split(\"a\", \"\")[0] == \"a\"", "cidr_match(\"1.1.1.1\", \"garbage\")", "cidr_match(\"1.1.1.1\", \"1.1.1.1/99\")", "to_string() == \"\"", "to_string(1,2) == \"\"", "let a=a in a", "let in true",
    "if true then 1 else \"a\"", "true ? 1 : \"a\"", "\u{0}", "\u{feff}true", "tr\u{fc}e", "true /* unterminated", "# only a comment", "request.target.host =~ request.target.host",
    "strcat([\"a\"]) == \"a\"", "\"\\u{110000}\" == \"\"", "\"\\x\" == \"\"", "0x == 1", "0b2 == 1", "1_ == 1", "99999999999999999999 == 1",
];
const CHAIN_OPS: &[&str] = &["+", "*", "-", "&&", "||", "or", "and", "xor", "|", "&", "^", "<<", "==", "/", "%", "_:", "=~"];

fn filter_text(f: &Filter) -> Option<String> {
    match f {
        Filter::None => None,
        Filter::Tape(t, b) => {
            let mut g = Gen::new(t);
            let e = g.gen(if *b { &Ty::Bool } else { &Ty::Str }, 3);
            Some(render_min(&e))
        }
        Filter::Nasty(i) => Some(NASTY[*i as usize % NASTY.len()].to_string()),
        Filter::Chain(op, n) => {
            let op = CHAIN_OPS[*op as usize % CHAIN_OPS.len()];
            let atom = if ["&&", "||", "or", "and", "xor"].contains(&op) { "true" } else { "1" };
            let mut s = atom.to_string();
            for _ in 0..*n {
                s.push(' ');
                s.push_str(op);
                s.push(' ');
                s.push_str(atom);
            }
            Some(s)
        }
    }
}

fn rule_json(r: &RuleSpec) -> J {
    let target = ["direct", "deny", "lb", "nobody", "", "DIRECT"][r.target as usize % 6];
    let mut m = serde_json::Map::new();
    m.insert("target".into(), json!(target));
    if let Some(f) = filter_text(&r.filter) {
        m.insert("filter".into(), json!(f));
    }
    match r.twist % 12 {
        1 => {
            m.insert("filter".into(), json!(5));
        }
        2 => {
            m.insert("target".into(), json!([]));
        }
        3 => {
            m.remove("target");
        }
        4 => {
            m.insert("surplus".into(), json!({"a": [1, 2, {"b": null}]}));
        }
        5 => {
            m.insert("filter".into(), J::Null);
        }
        6 => {
            m.insert("target".into(), J::Null);
        }
        7 => {
            m.insert("filter".into(), json!(["true"]));
        }
        _ => {}
    }
    J::Object(m)
}

fn body_bytes(b: &Body) -> (Vec<u8>, String) {
    match b {
        Body::Rules(rs) => {
            let j = J::Array(rs.iter().map(rule_json).collect());
            let s = j.to_string();
            let d = format!("a rule list {}", s.chars().take(300).collect::<String>());
            (s.into_bytes(), d)
        }
        Body::Shape(k, n) => {
            let n = *n as usize;
            let s = match k % 10 {
                0 => "null".to_string(),
                1 => "42".to_string(),
                2 => "\"rules\"".to_string(),
                3 => "{}".to_string(),
                4 => "{\"rules\": []}".to_string(),
                5 => format!("{}{}", "[".repeat(n), "]".repeat(n)),
                6 => format!("[{}]", vec!["1"; n].join(",")),
                7 => format!("[{}]", vec!["{}"; n].join(",")),
                8 => format!("[{{\"target\":\"direct\",\"filter\":\"{}\"}}]", "a".repeat(n * 64)),
                _ => format!("{}{}", "{\"a\":".repeat(n), "1").to_string() + &"}".repeat(n),
            };
            let d = format!("JSON of shape #{} size {}", k % 10, n);
            (s.into_bytes(), d)
        }
        Body::Bytes(b) => (b.clone(), format!("{} raw bytes {:?}", b.len(), String::from_utf8_lossy(&b[..b.len().min(40)]))),
        Body::Truncated(rs, at) => {
            let j = J::Array(rs.iter().map(rule_json).collect()).to_string().into_bytes();
            let cut = (*at as usize * (j.len() + 1)) >> 16;
            (j[..cut.min(j.len())].to_vec(), format!("a rule list cut at byte {} of {}", cut, j.len()))
        }
    }
}

pub fn body_strategy() -> impl Strategy<Value = Body> {
    let filter = prop_oneof![
        1 => Just(Filter::None),
        5 => (prop::collection::vec(any::<u16>(), 4..60), any::<bool>()).prop_map(|(t, b)| Filter::Tape(t, b)),
        3 => any::<u8>().prop_map(Filter::Nasty),
        2 => (any::<u8>(), prop_oneof![4 => 0u16..40, 2 => 200u16..300, 1 => 300u16..3000]).prop_map(|(o, n)| Filter::Chain(o, n)),
    ];
    let rule = (filter, any::<u8>(), prop_oneof![3 => Just(0u8), 1 => any::<u8>()]).prop_map(|(filter, target, twist)| RuleSpec { filter, target, twist });
    let rules = prop::collection::vec(rule, 0..5);
    prop_oneof![
        8 => rules.clone().prop_map(Body::Rules),
        2 => (any::<u8>(), prop_oneof![3 => 0u16..20, 2 => 100u16..200, 1 => 1000u16..40000]).prop_map(|(k, n)| Body::Shape(k, n)),
        1 => prop::collection::vec(any::<u8>(), 0..200).prop_map(Body::Bytes),
        1 => (rules, any::<u16>()).prop_map(|(r, at)| Body::Truncated(r, at)),
    ]
}

pub fn run_post_case(b: &Body, info: &mut CaseInfo) -> Result<(), Failure> {
    let (bytes, what) = body_bytes(b);
    let (class, _dt) = post_and_probe(&bytes, &what)?;
    info.class(class.clone());
    info.class(match b {
        Body::Rules(_) => "rule-list",
        Body::Shape(..) => "other-shape",
        Body::Bytes(_) => "raw-bytes",
        Body::Truncated(..) => "truncated",
    });
    info.nontrivial = !matches!(b, Body::Rules(r) if r.is_empty());
    info.sample = Some(json!({"body": what.chars().take(200).collect::<String>(), "answer": class}));
    Ok(())
}

// ------------------------------------------------------------------ (d) ladder

pub const CONSTRUCTS: &[&str] = &[
    "paren", "array", "tuple", "call", "index", "access", "not", "neg", "bitnot", "template", "if", "let", "cond", "let-bindings", "wide-array", "member-of", "strcat-args", "long-string",
    "long-identifier", "whitespace", "comment", "or-regex", "and-eq", "chain:+", "chain:*", "chain:-", "chain:&&", "chain:||", "chain:xor", "chain:|", "chain:&", "chain:^", "chain:<<",
    "chain:==", "chain:/", "index-chain-on-call", "call-chain", "call-chain-on-call", "mixed-postfix-chain", "many-rules",
];

pub fn construct(kind: &str, n: usize) -> String {
    match kind {
        "paren" => format!("{}1{} == 1", "(".repeat(n), ")".repeat(n)),
        "array" => format!("{}1{} == 1", "[".repeat(n), "]".repeat(n)),
        "tuple" => format!("{}1{} == 1", "(1,".repeat(n), ")".repeat(n)),
        "call" => format!("{}1{} == \"1\"", "to_string(".repeat(n), ")".repeat(n)),
        "index" => format!("[1]{} == 1", "[0]".repeat(n)),
        "access" => format!("request{} == 1", ".target".repeat(n)),
        "not" => format!("{}true", "!".repeat(n)),
        "neg" => format!("{}1 == 1", "-".repeat(n)),
        "bitnot" => format!("{}1 == 1", "~".repeat(n)),
        "template" => {
            let mut s = "1".to_string();
            for _ in 0..n {
                s = format!("`x${{{}}}`", s);
            }
            format!("{} == \"x\"", s)
        }
        "if" => format!("{}true{}", "if true then ".repeat(n), " else false".repeat(n)),
        "let" => format!("{}a == 1", "let a=1 in ".repeat(n)),
        "cond" => format!("{}true{}", "true ? ".repeat(n), " : false".repeat(n)),
        "let-bindings" => format!("let {} in a0 == 1", (0..n.max(1)).map(|i| format!("a{}=1", i)).collect::<Vec<_>>().join(";")),
        "wide-array" => format!("[{}1][0] == 1", "1,".repeat(n)),
        "member-of" => format!("1 _: [{}1]", "2,".repeat(n)),
        "strcat-args" => format!("strcat([{}\"a\"]) == \"a\"", "\"a\",".repeat(n)),
        "long-string" => format!("\"{}\" == \"b\"", "a".repeat(n * 16)),
        "long-identifier" => format!("{} == 1", "a".repeat(n * 16)),
        "whitespace" => format!("1{}=={}1", " ".repeat(n * 16), "\n\t".repeat(n * 8)),
        "comment" => format!("1 /*{}*/ == 1 #{}", "/*".repeat(n), "#".repeat(n)),
        "or-regex" => (0..n.max(1)).map(|i| format!("request.target.host =~ \"a{}\"", i)).collect::<Vec<_>>().join(" || "),
        "and-eq" => (0..n.max(1)).map(|i| format!("request.target.port != {}", i)).collect::<Vec<_>>().join(" && "),
        "index-chain-on-call" => format!("split(\"a\",\"b\"){} == \"a\"", "[0]".repeat(n)),
        "call-chain" => format!("x{} == 1", "(1)".repeat(n)),
        "call-chain-on-call" => format!("to_string(1){} == \"1\"", "(1)".repeat(n)),
        "mixed-postfix-chain" => format!("request{} == 1", ".target(1)[0]".repeat(n / 3 + 1)),
        "many-rules" => "true".to_string(),
        k if k.starts_with("chain:") => {
            let op = &k[6..];
            let atom = if ["&&", "||", "xor"].contains(&op) { "true" } else { "1" };
            let mut s = atom.to_string();
            for _ in 0..n {
                s.push_str(&format!(" {} {}", op, atom));
            }
            if atom == "1" && op != "==" {
                s.push_str(" == 1");
            }
            s
        }
        _ => "true".into(),
    }
}

pub struct Ladder;
impl SubCheck for Ladder {
    fn property(&self) -> &'static str {
        "C18"
    }
    fn name(&self) -> &'static str {
        "ladder"
    }
    fn rule(&self) -> String {
        format!("bounded enumeration on the real binary: {} syntactic constructs (brackets, arrays, tuples, calls, index / member / call chains, unary chains, nested templates, if / let / ?: nests, wide arrays, long literals / identifiers / blanks / comments, realistic || and && lists, a chain of every binary operator, many rules) at sizes 1 ... 16384 (thorough: ... 65536) with the rungs around the parser limits (15, 16, 17, 255, 256, 257); each filter is (1) loaded with `redproxy-rs -t` from a configuration file (main thread) and (2) posted to /api/rules of a running proxy (worker thread), followed by a request that evaluates the rules; oracle: exit 0 or error exit with a message within 30 s / an HTTP status within 60 s, the process never dies by a signal or panics, the API and the listener answer afterwards; non-trivial = size >= 16", CONSTRUCTS.len())
    }
    fn run(&self, part: &mut Part) {
        let sizes: Vec<usize> = if part.tier == vcore::Tier::Quick { vec![1, 8, 16, 17, 64, 255, 256, 257, 600, 2048, 16384] } else { vec![1, 2, 4, 8, 15, 16, 17, 32, 64, 128, 255, 256, 257, 400, 512, 1024, 4096, 16384, 65536] };
        let mut jobs = vec![];
        for k in CONSTRUCTS {
            for n in &sizes {
                jobs.push((k.to_string(), *n));
            }
        }
        // (1) -t in parallel
        let results: Mutex<Vec<(String, usize, Exit, String, f64)>> = Mutex::new(vec![]);
        let next = std::sync::atomic::AtomicUsize::new(0);
        std::thread::scope(|s| {
            for _ in 0..8 {
                s.spawn(|| loop {
                    let i = next.fetch_add(1, std::sync::atomic::Ordering::SeqCst);
                    if i >= jobs.len() {
                        break;
                    }
                    let (k, n) = &jobs[i];
                    let yaml = ladder_yaml(k, *n);
                    let (e, out, dt) = bin::config_test(&yaml, Duration::from_secs(30));
                    results.lock().unwrap().push((k.clone(), *n, e, out, dt));
                });
            }
        });
        let mut results = results.into_inner().unwrap();
        results.sort_by(|a, b| (a.0.as_str(), a.1).cmp(&(b.0.as_str(), b.1)));
        let mut table = serde_json::Map::new();
        for (k, n, e, out, dt) in results {
            let mut info = CaseInfo::default();
            info.class(format!("t:{}", k));
            info.nontrivial = n >= 16;
            let verdict: Result<&str, Failure> = match e {
                Exit::Signal(s) => Err(Failure::new(format!("ladder-crash:{}:config-test", k), format!("`redproxy-rs -t` died by signal {} on a filter with construct {} at size {}: {}", s, k, n, out.chars().take(200).collect::<String>()))),
                Exit::Running => Err(Failure::new(format!("ladder-hang:{}:config-test", k), format!("`redproxy-rs -t` did not finish within 30 s on construct {} at size {}", k, n))),
                Exit::Code(101) => Err(Failure::new(format!("ladder-panic:{}:config-test", k), format!("`redproxy-rs -t` panicked on construct {} at size {}: {}", k, n, out.chars().take(300).collect::<String>()))),
                Exit::Code(0) => Ok("accepted"),
                Exit::Code(_) if out.trim().is_empty() => Err(Failure::new(format!("ladder-silent-reject:{}", k), format!("construct {} size {} rejected without a message", k, n))),
                Exit::Code(_) => Ok("rejected"),
            };
            match verdict {
                Ok(v) => {
                    info.class(v);
                    table.insert(format!("t:{}:{}", k, n), json!(format!("{} {:.2}s", v, dt)));
                    part.account(vcore::fnv(format!("t{}{}", k, n).as_bytes()), info);
                }
                Err(f) => {
                    part.account(vcore::fnv(format!("t{}{}", k, n).as_bytes()), info);
                    part.record_failure(f, json!({"mode": "t", "construct": k, "size": n}));
                }
            }
        }
        // (2) POST, sequentially on the shared proxy
        for (k, n) in &jobs {
            let mut info = CaseInfo::default();
            info.class(format!("post:{}", k));
            info.nontrivial = *n >= 16;
            let body = ladder_body(k, *n);
            match post_and_probe(&body, &format!("construct {} at size {}", k, n)) {
                Ok((class, dt)) => {
                    info.class(class.clone());
                    table.insert(format!("post:{}:{}", k, n), json!(format!("{} {:.2}s", class, dt)));
                    part.account(vcore::fnv(format!("p{}{}", k, n).as_bytes()), info);
                }
                Err(f) if f.key == "infrastructure" => {
                    info.inconclusive = true;
                    part.note(f.desc);
                    part.account(vcore::fnv(format!("p{}{}", k, n).as_bytes()), info);
                }
                Err(mut f) => {
                    f.key = format!("ladder:{}:{}", k, f.key);
                    part.account(vcore::fnv(format!("p{}{}", k, n).as_bytes()), info);
                    part.record_failure(f, json!({"mode": "post", "construct": k, "size": n}));
                }
            }
        }
        part.exhaustive = true;
        part.samples.push(json!({"verdict and seconds per rung (sample)": table.iter().filter(|(k, _)| k.contains(":chain:||:") || k.contains(":paren:") || k.contains(":wide-array:")).map(|(k, v)| (k.clone(), v.clone())).collect::<serde_json::Map<_, _>>()}));
        *SHARED.lock().unwrap_or_else(|e| e.into_inner()) = None;
    }
    fn replay(&self, case: &J) -> Result<(), Failure> {
        let k = case["construct"].as_str().unwrap_or("paren").to_string();
        let n = case["size"].as_u64().unwrap_or(1) as usize;
        if case["mode"] == "t" {
            let (e, out, _) = bin::config_test(&ladder_yaml(&k, n), Duration::from_secs(30));
            match e {
                Exit::Code(0) => Ok(()),
                Exit::Code(c) if c != 101 && !out.trim().is_empty() => Ok(()),
                other => Err(Failure::new(format!("ladder-crash:{}:config-test", k), format!("{:?}: {}", other, out.chars().take(200).collect::<String>()))),
            }
        } else {
            let r = post_and_probe(&ladder_body(&k, n), &format!("construct {} at size {}", k, n)).map(|_| ()).map_err(|mut f| {
                f.key = format!("ladder:{}:{}", k, f.key);
                f
            });
            *SHARED.lock().unwrap_or_else(|e| e.into_inner()) = None;
            r
        }
    }
}

fn ladder_rules(k: &str, n: usize) -> Vec<J> {
    if k == "many-rules" {
        (0..n).map(|i| json!({"filter": format!("request.target.port == {}", i), "target": "direct"})).collect()
    } else {
        vec![json!({"filter": construct(k, n), "target": "direct"}), json!({"target": "direct"})]
    }
}
fn ladder_body(k: &str, n: usize) -> Vec<u8> {
    J::Array(ladder_rules(k, n)).to_string().into_bytes()
}
fn ladder_yaml(k: &str, n: usize) -> String {
    let doc = json!({
        "apiVersion": "v1", "kind": "t",
        "listeners": [{"name": "http", "bind": "127.0.0.1:0"}],
        "connectors": [{"name": "direct"}],
        "rules": ladder_rules(k, n),
    });
    serde_yaml::to_string(&doc).unwrap_or_default()
}

pub struct Cleanup;

pub fn checks() -> Vec<Box<dyn SubCheck>> {
    vec![
        Box::new(vcore::PropCheck {
            property: "C18",
            name: "binary",
            rule: "the documents of the loader sub-check (three bases, 0-2 tree mutations, generated load-balancer graphs and scripts), with every listener and the API moved to harness-chosen loopback ports, given to the real binary: (1) `redproxy-rs -t`: exit 0, or a non-zero exit with a message, within 30 s - never a signal, a panic or silence; (2) every document accepted by -t is started for real and receives traffic on every listener according to its kind (HTTP CONNECT to an echo origin / to names the shipped rules deny / to low ports routed to load balancers, SOCKS5 no-auth, SOCKS5 user-pass, SOCKS4, UDP associate, garbage and TLS-looking bytes, UDP datagrams to reverse / QUIC listeners) and GETs on the API: the process must be running afterwards, no task may have panicked, every TCP listener must still accept; an error exit with a message at start (address in use ...) counts as a rejection; non-trivial = a mutated document, or one that was started",
            quick: 220,
            thorough: 6000,
            max_shrink: 60,
            strategy: case_strategy,
            case: run_binary_case,
        }),
        Box::new(vcore::PropCheck {
            property: "C18",
            name: "post-rules",
            rule: "POST /api/rules on a running real proxy with generated bodies: rule lists of 0-4 rules whose filter is absent / generated by the C08 generator (well- and ill-typed) / one of 46 hostile strings (division by zero, overflow, bad regex, wrong arity, unterminated comment, NUL, BOM ...) / an operator chain of 0-3000 terms of one of 17 operators, whose target is direct / deny / a load balancer / unknown / empty, and whose fields may be mistyped, null, missing or surplus; other JSON shapes (null, number, object, arrays nested to 40000, 40000 elements, 2.5 MB string); raw bytes; rule lists cut at a generated byte; after each POST a CONNECT is sent through the listener (so that accepted rules are evaluated) and GET /api/rules must answer 200; oracle: an HTTP status within 60 s (no response tolerated only for bodies over 1 MB), process alive (no signal, no exit), no panic in its log; non-trivial = anything but the empty list".into(),
            quick: 500,
            thorough: 30000,
            max_shrink: 100,
            strategy: body_strategy,
            case: run_post_case,
        }),
        Box::new(Ladder),
    ]
}
