//! C11 — fragmentation / reassembly exact under reordering and duplication (model-based).
use crate::common::fragment::{Fragmentable, Fragments};
use crate::common::frames::Frame;
use crate::context::TargetAddress;
use crate::harness::util::{catch, sel};
use bytes::Bytes;
use proptest::prelude::*;
use serde::{Deserialize, Serialize};
use serde_json::json;
use std::collections::{BTreeMap, HashMap, HashSet};
use std::time::Duration;
use vcore::{fail, CaseInfo, Failure, Part, SubCheck, Tier};

/// Raw-bytes Fragmentable (same as the repository's own test helper).
#[derive(Debug, PartialEq, Eq, Clone)]
pub struct RawBuf(pub Bytes);
impl Fragmentable for RawBuf {
    type Buffer = Bytes;
    fn as_buffer(&self) -> Bytes {
        self.0.clone()
    }
    fn from_buffer(buf: Bytes) -> Option<Self> {
        Some(RawBuf(buf))
    }
}

#[derive(Clone, Debug, Serialize, Deserialize)]
pub struct FrameSpec {
    pub id: u16,
    /// raw: buffer length (>=1); framed: body length
    pub len: u32,
    pub tag: u64,
    pub mtu: u32,
    /// 0 = none, 1 = v4, 2 = v6, 3 = host
    pub addr: u8,
    pub session: u32,
}

#[derive(Clone, Debug, Serialize, Deserialize)]
pub struct Junk {
    pub pos: u16,
    /// 0 short datagram, 1 total=0, 2 seq>=total, 3 total>128, 4 orphan (valid header, never completed)
    pub kind: u8,
    pub id: u16,
    pub a: u8,
    pub b: u8,
    pub len: u8,
}

#[derive(Clone, Debug, Serialize, Deserialize)]
pub struct Epoch {
    pub frames: Vec<FrameSpec>,
    pub keys: Vec<u16>,
    /// (fragment selector, delay selector, altered payload)
    pub dups: Vec<(u16, u16, bool)>,
    /// (frame selector, fragment selector): fragments never delivered
    pub drops: Vec<(u16, u16)>,
    pub junk: Vec<Junk>,
    pub expire: bool,
}

#[derive(Clone, Debug, Serialize, Deserialize)]
pub struct Case {
    pub framed: bool,
    pub epochs: Vec<Epoch>,
}

fn mtu_strategy() -> impl Strategy<Value = u32> {
    prop_oneof![
        3 => prop_oneof![Just(5u32), Just(6), Just(7), Just(8), Just(16), Just(64)],
        3 => 5u32..200,
        3 => 1100u32..1500,
        1 => prop_oneof![Just(576u32), Just(9000), Just(65535)],
        1 => 5u32..65536,
    ]
}

fn spec_strategy(framed: bool) -> impl Strategy<Value = FrameSpec> {
    let id = prop_oneof![
        4 => 0u16..6,
        3 => 65530u16..=65535,
        1 => any::<u16>(),
    ];
    (id, mtu_strategy(), any::<u64>(), 0u8..4, any::<u32>(), any::<u16>(), 0u8..10).prop_map(
        move |(id, mtu, tag, addr, session, lsel, lclass)| {
            // choose a length relative to the mtu so that fragment counts of 1..~140 are all common
            let sz = (mtu - 4) as u64;
            let nfrag_target: u64 = match lclass {
                0 => 1,
                1 => 2,
                2 | 3 => 2 + (lsel as u64 % 5),
                4 | 5 => 3 + (lsel as u64 % 14),
                6 => 120 + (lsel as u64 % 12),
                7 => 126 + (lsel as u64 % 6),
                8 => 129 + (lsel as u64 % 140),
                _ => 1 + (lsel as u64 % 40),
            };
            let hdr: u64 = if framed {
                12 + match addr {
                    1 => 8,
                    2 => 20,
                    3 => 2 + 13 + 2,
                    _ => 0,
                }
            } else {
                0
            };
            // total buffer length aimed at nfrag_target fragments, with boundary jitter
            let jitter = [0i64, -1, 1, 0][(lsel % 4) as usize];
            let mut total = (nfrag_target * sz) as i64 + jitter - (lsel as i64 % sz as i64).min(sz as i64 - 1) * ((lsel >> 3) as i64 % 2);
            if total < 1 {
                total = 1;
            }
            let mut total = total as u64;
            let max_total = 65535 + hdr;
            if total > max_total {
                total = max_total;
            }
            let len = if framed { total.saturating_sub(hdr) } else { total.max(1) };
            FrameSpec {
                id,
                len: len as u32,
                tag,
                mtu,
                addr: if framed { addr } else { 0 },
                session,
            }
        },
    )
}

fn junk_strategy() -> impl Strategy<Value = Junk> {
    (any::<u16>(), 0u8..5, prop_oneof![100u16..110, any::<u16>()], any::<u8>(), any::<u8>(), 0u8..40)
        .prop_map(|(pos, kind, id, a, b, len)| Junk { pos, kind, id, a, b, len })
}

fn epoch_strategy(framed: bool) -> impl Strategy<Value = Epoch> {
    (
        prop::collection::vec(spec_strategy(framed), 1..5),
        prop::collection::vec(any::<u16>(), 0..48),
        prop::collection::vec((any::<u16>(), any::<u16>(), any::<bool>()), 0..4),
        prop::collection::vec((any::<u16>(), any::<u16>()), 0..2),
        prop::collection::vec(junk_strategy(), 0..3),
        prop::bool::weighted(0.6),
    )
        .prop_map(|(frames, keys, dups, drops, junk, expire)| Epoch {
            frames,
            keys,
            dups,
            drops,
            junk,
            expire,
        })
}

pub fn case_strategy() -> impl Strategy<Value = Case> {
    any::<bool>().prop_flat_map(|framed| {
        prop::collection::vec(epoch_strategy(framed), 1..4).prop_map(move |epochs| Case { framed, epochs })
    })
}

fn host_for(tag: u64) -> String {
    format!("h{:012x}", tag & 0xffff_ffff_ffff)
}

fn make_frame(s: &FrameSpec) -> Frame {
    let addr = match s.addr {
        1 => Some(TargetAddress::from(((s.tag as u32) | 0x0100_0000, (s.tag >> 32) as u16))),
        2 => {
            let mut a = [0u8; 16];
            a[..8].copy_from_slice(&s.tag.to_le_bytes());
            a[15] = 1;
            Some(TargetAddress::from((a, (s.tag >> 40) as u16)))
        }
        3 => Some(TargetAddress::DomainPort(host_for(s.tag), (s.tag >> 16) as u16)),
        _ => None,
    };
    Frame {
        addr,
        session_id: s.session,
        body: Bytes::from(vcore::payload(s.tag, s.len as usize)),
    }
}

fn frame_eq(a: &Frame, b: &Frame) -> bool {
    a.addr == b.addr && a.session_id == b.session_id && a.body == b.body
}

/// An arrival in the schedule.
#[derive(Clone)]
struct Arrival {
    bytes: Vec<u8>,
    /// Some((frame index, seq, altered)) for genuine fragments / duplicates
    genuine: Option<(usize, usize, bool)>,
    junk_kind: Option<u8>,
}

/// independent reference reassembler (first writer wins; complete when all seqs present)
#[derive(Default)]
struct Model {
    groups: HashMap<u16, (usize, BTreeMap<usize, Vec<u8>>)>,
}

impl Model {
    fn feed(&mut self, d: &[u8]) -> Option<Vec<u8>> {
        if d.len() < 4 {
            return None;
        }
        let id = u16::from_be_bytes([d[0], d[1]]);
        let total = d[2] as usize;
        let seq = d[3] as usize;
        let payload = d[4..].to_vec();
        if total == 0 || seq >= total || total > 128 {
            return None;
        }
        if total == 1 {
            return Some(payload);
        }
        let g = self.groups.entry(id).or_insert_with(|| (total, BTreeMap::new()));
        if seq >= g.0 {
            return None;
        }
        g.1.entry(seq).or_insert(payload);
        if g.1.len() == g.0 {
            let (_, parts) = self.groups.remove(&id).unwrap();
            let mut out = vec![];
            for (_, p) in parts {
                out.extend_from_slice(&p);
            }
            Some(out)
        } else {
            None
        }
    }
    fn expire(&mut self) {
        self.groups.clear();
    }
}

enum Thing {
    Raw(Fragments<RawBuf>),
    Framed(Fragments<Frame>),
}

pub fn run_case(case: &Case, info: &mut CaseInfo) -> Result<(), Failure> {
    let mut thing = if case.framed {
        Thing::Framed(Fragments::new(Duration::ZERO))
    } else {
        Thing::Raw(Fragments::new(Duration::ZERO))
    };
    let mut model = Model::default();
    let mut tainted: HashSet<u16> = HashSet::new();
    let mut nontrivial = false;

    for (ei, ep) in case.epochs.iter().enumerate() {
        // ---- fragment every frame with the real splitter
        let mut used_ids: HashSet<u16> = HashSet::new();
        struct Built {
            spec: FrameSpec,
            buffer: Vec<u8>,
            frags: Vec<Vec<u8>>,
            representable: bool,
        }
        let mut built: Vec<Built> = vec![];
        for spec in &ep.frames {
            if tainted.contains(&spec.id) || !used_ids.insert(spec.id) {
                info.class("frame-skipped-id-in-use");
                continue;
            }
            let frame = make_frame(spec);
            let buffer: Vec<u8> = if case.framed {
                let mut b = frame.make_header().to_vec();
                b.extend_from_slice(&frame.body);
                b
            } else {
                frame.body.to_vec()
            };
            let sz = (spec.mtu - 4) as usize;
            let nfrag = (buffer.len() + sz - 1) / sz;
            let representable = nfrag >= 1 && nfrag <= 128;
            let mut next_id = spec.id;
            let mtu = spec.mtu as usize;
            let framed = case.framed;
            let body = frame.body.clone();
            let fr = catch(move || -> Vec<Vec<u8>> {
                if framed {
                    Fragments::<Frame>::make_fragments(mtu, &mut next_id, frame)
                        .map(|b| b.to_vec())
                        .collect()
                } else {
                    Fragments::<RawBuf>::make_fragments(mtu, &mut next_id, RawBuf(body))
                        .map(|b| b.to_vec())
                        .collect()
                }
            });
            let frags = match fr {
                Ok(f) => f,
                Err(p) => {
                    let class = if spec.id == 65535 {
                        "id-wrap"
                    } else if !representable {
                        "unrepresentable"
                    } else {
                        "representable"
                    };
                    fail!(
                        format!("split-panic:{}", class),
                        "make_fragments panicked ({}) for id={} len={} mtu={}",
                        p.msg,
                        spec.id,
                        buffer.len(),
                        spec.mtu
                    );
                }
            };
            if representable {
                // fragmentation law: headers, sizes, concatenation
                let want = vcore::refcodec::split_fragments(spec.id, mtu, &buffer).unwrap();
                if frags != want {
                    let k = if frags.len() != want.len() { "count" } else { "content" };
                    fail!(
                        format!("split-wrong:{}", k),
                        "fragments differ from reference split: id={} len={} mtu={} got {} fragments want {}",
                        spec.id,
                        buffer.len(),
                        spec.mtu,
                        frags.len(),
                        want.len()
                    );
                }
                info.class(format!(
                    "nfrag:{}",
                    match nfrag {
                        1 => "1",
                        2..=6 => "2-6",
                        7..=32 => "7-32",
                        33..=127 => "33-127",
                        _ => "128",
                    }
                ));
            } else {
                info.class("unrepresentable");
                // whatever it emitted must respect the MTU
                if frags.iter().any(|f| f.len() > mtu) {
                    fail!("split-wrong:oversize", "fragment larger than MTU for unrepresentable frame");
                }
            }
            built.push(Built {
                spec: spec.clone(),
                buffer,
                frags,
                representable,
            });
        }

        // ---- arrival schedule
        let mut arrivals: Vec<Arrival> = vec![];
        let mut dropped: HashSet<(usize, usize)> = HashSet::new();
        for (fs, gs) in &ep.drops {
            if built.is_empty() {
                break;
            }
            let fi = sel(*fs, built.len());
            if built[fi].frags.len() >= 2 {
                dropped.insert((fi, sel(*gs, built[fi].frags.len())));
            }
        }
        for (fi, b) in built.iter().enumerate() {
            for (si, f) in b.frags.iter().enumerate() {
                if dropped.contains(&(fi, si)) {
                    continue;
                }
                arrivals.push(Arrival {
                    bytes: f.clone(),
                    genuine: Some((fi, si, false)),
                    junk_kind: None,
                });
            }
        }
        // permutation by keys (stable; missing keys = 0)
        let mut idx: Vec<usize> = (0..arrivals.len()).collect();
        if !ep.keys.is_empty() {
            idx.sort_by_key(|i| (ep.keys[*i % ep.keys.len()], *i));
        }
        let identity = idx.iter().enumerate().all(|(a, b)| a == *b);
        let mut arrivals: Vec<Arrival> = idx.into_iter().map(|i| arrivals[i].clone()).collect();
        // duplicates: copy of an arrival inserted at a later position
        let mut had_dup = false;
        for (fsel, dsel, alter) in &ep.dups {
            if arrivals.is_empty() {
                break;
            }
            let src = sel(*fsel, arrivals.len());
            let mut a = arrivals[src].clone();
            if a.genuine.is_none() {
                continue;
            }
            // an altered copy of a single-fragment frame is simply a different frame: only multi-fragment
            // groups can tell a conflicting duplicate from the original
            if *alter && a.bytes.len() > 4 && a.bytes[2] >= 2 {
                for x in a.bytes[4..].iter_mut() {
                    *x ^= 0x5a;
                }
                a.genuine = a.genuine.map(|(f, s, _)| (f, s, true));
            }
            let pos = src + 1 + sel(*dsel, arrivals.len() - src);
            arrivals.insert(pos.min(arrivals.len()), a);
            had_dup = true;
        }
        // junk: ids disjoint from this epoch's genuine ids and from tainted ids
        let mut junk_ids: HashSet<u16> = HashSet::new();
        for j in &ep.junk {
            if used_ids.contains(&j.id) || tainted.contains(&j.id) {
                info.class("junk-skipped");
                continue;
            }
            let mut d: Vec<u8> = j.id.to_be_bytes().to_vec();
            match j.kind {
                0 => {
                    d = vcore::payload(j.id as u64, (j.len % 4) as usize);
                }
                1 => {
                    d.push(0);
                    d.push(j.b);
                }
                2 => {
                    let total = (j.a % 127) + 2; // 2..=128
                    d.push(total);
                    d.push(total.saturating_add(j.b % 128)); // seq >= total (may be >= 128)
                }
                3 => {
                    d.push(129u8.saturating_add(j.a % 127));
                    d.push(j.b);
                }
                _ => {
                    let total = (j.a % 127) + 2;
                    d.push(total);
                    d.push(j.b % total);
                }
            }
            if j.kind != 0 {
                d.extend_from_slice(&vcore::payload(j.a as u64, j.len as usize));
            }
            junk_ids.insert(j.id);
            let pos = sel(j.pos, arrivals.len() + 1);
            arrivals.insert(
                pos,
                Arrival {
                    bytes: d,
                    genuine: None,
                    junk_kind: Some(j.kind),
                },
            );
        }

        // ---- deliver
        let complete: Vec<bool> = built
            .iter()
            .enumerate()
            .map(|(fi, b)| b.representable && !(0..b.frags.len()).any(|s| dropped.contains(&(fi, s))))
            .collect();
        let mut outputs: Vec<usize> = vec![0; built.len()];
        let mut late_dup = false;
        let mut done: HashSet<usize> = HashSet::new();
        for (step, a) in arrivals.iter().enumerate() {
            if let Some((fi, _, _)) = a.genuine {
                if done.contains(&fi) {
                    late_dup = true;
                }
            }
            // an altered duplicate that arrives after its group completed cannot be told from a new
            // frame by any reassembler; deliver the unaltered copy instead (late duplicate)
            let a = &match a.genuine {
                Some((fi, si, true)) if done.contains(&fi) => Arrival {
                    bytes: built[fi].frags[si].clone(),
                    genuine: Some((fi, si, false)),
                    junk_kind: None,
                },
                _ => a.clone(),
            };
            let bytes = Bytes::from(a.bytes.clone());
            let got: Result<Option<Vec<u8>>, _> = match &mut thing {
                Thing::Raw(f) => catch(|| f.reassemble(bytes).map(|r| r.0.to_vec())),
                Thing::Framed(f) => catch(|| {
                    f.reassemble(bytes).map(|fr| {
                        let mut b = fr.make_header().to_vec();
                        b.extend_from_slice(&fr.body);
                        b
                    })
                }),
            };
            let got = match got {
                Ok(g) => g,
                Err(p) => {
                    let shape = match (a.genuine, a.junk_kind) {
                        (_, Some(0)) => "short-datagram".to_string(),
                        (_, Some(1)) => "total=0".to_string(),
                        (_, Some(2)) => "seq>=total".to_string(),
                        (_, Some(3)) => "total>128".to_string(),
                        (_, Some(_)) => "orphan".to_string(),
                        (Some((fi, _, _)), _) => {
                            if built[fi].representable {
                                "genuine".to_string()
                            } else {
                                "unrepresentable".to_string()
                            }
                        }
                        _ => "other".to_string(),
                    };
                    fail!(
                        format!("reassemble-panic:{}", shape),
                        "reassemble panicked ({}) at epoch {} step {} on datagram {:02x?}…",
                        p.msg,
                        ei,
                        step,
                        &a.bytes[..a.bytes.len().min(6)]
                    );
                }
            };
            // reference model, fed only what the property defines (the framed model output is the raw buffer)
            let want = {
                let unrep = a.genuine.map(|(fi, _, _)| !built[fi].representable).unwrap_or(false);
                if unrep {
                    None
                } else {
                    model.feed(&a.bytes)
                }
            };
            // junk never yields anything (raw single-fragment junk is not generated: total>=2 or total=0)
            match (&got, a.genuine) {
                (Some(g), Some((fi, _, _))) => {
                    if !built[fi].representable {
                        fail!(
                            "unrepresentable:frame-emitted",
                            "a frame needing {} fragments (>128) produced output instead of being refused",
                            built[fi].frags.len()
                        );
                    }
                    if *g != built[fi].buffer {
                        fail!(
                            if had_dup { "wrong-frame:with-dup" } else { "wrong-frame" },
                            "reassembled frame differs from the original (id={} len={} got len={}) at epoch {} step {}",
                            built[fi].spec.id,
                            built[fi].buffer.len(),
                            g.len(),
                            ei,
                            step
                        );
                    }
                    outputs[fi] += 1;
                    done.insert(fi);
                }
                (Some(g), None) => {
                    fail!(
                        "phantom-frame",
                        "malformed datagram kind {:?} produced a frame of {} bytes",
                        a.junk_kind,
                        g.len()
                    );
                }
                (None, _) => {}
            }
            if !late_dup {
                // strict: output exactly when the model completes
                let w = want.is_some();
                if w != got.is_some() {
                    fail!(
                        if w { "missing-frame" } else { "early-frame" },
                        "model {} a frame at epoch {} step {} but the implementation {}",
                        if w { "completes" } else { "does not complete" },
                        ei,
                        step,
                        if got.is_some() { "emitted one" } else { "emitted nothing" }
                    );
                }
            }
        }
        for (fi, c) in complete.iter().enumerate() {
            if *c && outputs[fi] == 0 {
                fail!(
                    "missing-frame",
                    "frame id={} ({} fragments) fully delivered but never reassembled",
                    built[fi].spec.id,
                    built[fi].frags.len()
                );
            }
            if *c && !late_dup && outputs[fi] != 1 {
                fail!("duplicate-frame", "frame id={} emitted {} times", built[fi].spec.id, outputs[fi]);
            }
            if !*c && outputs[fi] > 0 {
                fail!("incomplete-frame-emitted", "frame id={} emitted although a fragment was never delivered", built[fi].spec.id);
            }
        }
        // taint bookkeeping
        for (fi, b) in built.iter().enumerate() {
            let multi = b.frags.len() >= 2;
            if multi && (!complete[fi] || late_dup) {
                tainted.insert(b.spec.id);
            }
            if !b.representable {
                tainted.insert(b.spec.id);
            }
        }
        tainted.extend(junk_ids.iter());
        if ep.expire {
            std::thread::sleep(Duration::from_micros(2));
            let r = match &mut thing {
                Thing::Raw(f) => catch(|| f.timer()),
                Thing::Framed(f) => catch(|| f.timer()),
            };
            if let Err(p) = r {
                fail!("timer-panic", "timer() panicked: {}", p.msg);
            }
            model.expire();
            tainted.clear();
            info.class("expire");
        }
        if !identity {
            info.class("reordered");
        }
        if had_dup {
            info.class("dup");
        }
        if late_dup {
            info.class("late-dup");
        }
        if built.len() >= 2 {
            info.class("interleaved");
        }
        if ei > 0 {
            info.class("later-epoch");
        }
        if !ep.junk.is_empty() {
            info.class("junk");
        }
        if !identity || had_dup || built.len() >= 2 || ei > 0 {
            nontrivial = true;
        }
    }
    info.nontrivial = nontrivial;
    if info.sample.is_none() {
        info.sample = Some(json!({
            "framed": case.framed,
            "epochs": case.epochs.iter().map(|e| json!({
                "frames": e.frames.iter().map(|f| json!({"id": f.id, "len": f.len, "mtu": f.mtu})).collect::<Vec<_>>(),
                "dups": e.dups.len(), "drops": e.drops.len(), "junk": e.junk.iter().map(|j| j.kind).collect::<Vec<_>>(), "expire": e.expire,
            })).collect::<Vec<_>>()
        }));
    }
    Ok(())
}

/// Exhaustive: every permutation of the fragments of one frame (n <= nmax), with each single
/// duplicate position, for the raw type.
#[derive(Clone, Debug, Serialize, Deserialize)]
pub struct PermCase {
    pub n: usize,
    pub perm: Vec<usize>,
    /// optional duplicate: (fragment, insert position)
    pub dup: Option<(usize, usize)>,
    pub id: u16,
}

fn permutations(n: usize) -> Vec<Vec<usize>> {
    fn rec(cur: &mut Vec<usize>, used: &mut Vec<bool>, n: usize, out: &mut Vec<Vec<usize>>) {
        if cur.len() == n {
            out.push(cur.clone());
            return;
        }
        for i in 0..n {
            if !used[i] {
                used[i] = true;
                cur.push(i);
                rec(cur, used, n, out);
                cur.pop();
                used[i] = false;
            }
        }
    }
    let mut out = vec![];
    rec(&mut vec![], &mut vec![false; n], n, &mut out);
    out
}

pub fn run_perm(c: &PermCase, info: &mut CaseInfo) -> Result<(), Failure> {
    let mtu = 8usize;
    let buffer = vcore::payload(c.n as u64 * 77 + 1, (c.n - 1) * 4 + 3);
    let mut next = c.id;
    let frags: Vec<Vec<u8>> = match catch(|| {
        Fragments::<RawBuf>::make_fragments(mtu, &mut next, RawBuf(Bytes::from(buffer.clone())))
            .map(|b| b.to_vec())
            .collect()
    }) {
        Ok(f) => f,
        Err(p) => fail!("split-panic:perm", "make_fragments panicked: {}", p.msg),
    };
    if frags.len() != c.n {
        fail!("split-wrong:count", "expected {} fragments got {}", c.n, frags.len());
    }
    let mut order: Vec<usize> = c.perm.clone();
    if let Some((f, pos)) = c.dup {
        order.insert(pos.min(order.len()), f);
    }
    let mut f: Fragments<RawBuf> = Fragments::new(Duration::from_secs(5));
    let mut seen: HashSet<usize> = HashSet::new();
    let mut emitted = 0;
    for (step, fi) in order.iter().enumerate() {
        let already_done = seen.len() == c.n;
        seen.insert(*fi);
        let got = match catch(|| f.reassemble(Bytes::from(frags[*fi].clone()))) {
            Ok(g) => g,
            Err(p) => fail!("reassemble-panic:genuine", "panic {} at step {} order {:?}", p.msg, step, order),
        };
        if already_done {
            // a late duplicate of a multi-fragment group only starts a new group: no output
            if got.is_some() && c.n > 1 {
                fail!("early-frame", "late duplicate produced a frame, order {:?}", order);
            }
            continue;
        }
        let want = seen.len() == c.n;
        match got {
            Some(g) => {
                if !want {
                    fail!("early-frame", "frame emitted before all fragments arrived, order {:?}", order);
                }
                if g.0 != buffer {
                    fail!("wrong-frame", "reassembled bytes differ, order {:?}", order);
                }
                emitted += 1;
            }
            None => {
                if want {
                    fail!("missing-frame", "all fragments delivered but no frame, order {:?}", order);
                }
            }
        }
    }
    if emitted != 1 {
        fail!("duplicate-frame", "emitted {} frames, order {:?}", emitted, order);
    }
    info.nontrivial = c.perm.iter().enumerate().any(|(a, b)| a != *b) || c.dup.is_some();
    Ok(())
}

struct PermCheck;
impl SubCheck for PermCheck {
    fn property(&self) -> &'static str {
        "C11"
    }
    fn name(&self) -> &'static str {
        "perm"
    }
    fn rule(&self) -> String {
        "exhaustive: every permutation of the n fragments of one frame (n<=5 quick, n<=6 thorough; plus n<=4 with every single duplicate at every position), ids 0 and 65534; non-trivial = not the identity order or has a duplicate".into()
    }
    fn run(&self, part: &mut Part) {
        let nmax = if part.tier == Tier::Quick { 5 } else { 6 };
        for n in 1..=nmax {
            for perm in permutations(n) {
                for id in [0u16, 65534] {
                    let c = PermCase {
                        n,
                        perm: perm.clone(),
                        dup: None,
                        id,
                    };
                    part.run_case(&c, &|c, i| run_perm(c, i));
                }
                if n <= 4 {
                    for f in 0..n {
                        for pos in 0..=n {
                            let c = PermCase {
                                n,
                                perm: perm.clone(),
                                dup: Some((f, pos)),
                                id: 7,
                            };
                            // a duplicate inserted before its original is just another order of the same multiset
                            part.run_case(&c, &|c, i| run_perm(c, i));
                        }
                    }
                }
            }
        }
        part.exhaustive = true;
        part.samples.push(json!({"n": 3, "perm": [2,0,1], "dup": [0, 2]}));
    }
    fn replay(&self, case: &serde_json::Value) -> Result<(), Failure> {
        let c: PermCase = serde_json::from_value(case.clone()).map_err(|e| Failure::new("replay-decode", e.to_string()))?;
        run_perm(&c, &mut CaseInfo::default())
    }
}

/// Exhaustive header sweep: every (total, seq) pair as the first datagram of a fresh reassembler and as
/// a second datagram after a conflicting earlier fragment; must never panic and never emit a frame
/// unless (total, seq) == (1, 0).
#[derive(Clone, Debug, Serialize, Deserialize)]
pub struct HdrCase {
    pub total: u8,
    pub seq: u8,
    pub prior: Option<(u8, u8)>,
    pub len: u8,
}

pub fn run_hdr(c: &HdrCase, info: &mut CaseInfo) -> Result<(), Failure> {
    let mut f: Fragments<RawBuf> = Fragments::new(Duration::from_secs(5));
    let shape = |t: u8, s: u8| -> &'static str {
        if t == 0 {
            "total=0"
        } else if t > 128 {
            "total>128"
        } else if s >= t {
            "seq>=total"
        } else {
            "valid-header"
        }
    };
    if let Some((pt, ps)) = c.prior {
        let mut d = vec![0u8, 9, pt, ps];
        d.extend_from_slice(&[1, 2, 3]);
        match catch(|| f.reassemble(Bytes::from(d))) {
            Ok(_) => {}
            Err(p) => fail!(format!("reassemble-panic:{}", shape(pt, ps)), "panic {} on prior header total={} seq={}", p.msg, pt, ps),
        }
    }
    let mut d = vec![0u8, 9, c.total, c.seq];
    d.extend_from_slice(&vcore::payload(5, c.len as usize));
    let got = match catch(|| f.reassemble(Bytes::from(d))) {
        Ok(g) => g,
        Err(p) => {
            let k = if c.prior.is_some() {
                format!("reassemble-panic:{}:after-prior", shape(c.total, c.seq))
            } else {
                format!("reassemble-panic:{}", shape(c.total, c.seq))
            };
            fail!(k, "panic {} on header total={} seq={} prior={:?}", p.msg, c.total, c.seq, c.prior)
        }
    };
    let single = c.total == 1 && c.seq == 0;
    // with a prior (total=2, seq=x) group, a second distinct valid seq completes the group: allowed
    let completes_prior = matches!(c.prior, Some((2, ps)) if c.seq < 2 && ps < 2 && ps != c.seq);
    if got.is_some() && !single && !completes_prior {
        fail!("phantom-frame", "header total={} seq={} prior={:?} produced a frame", c.total, c.seq, c.prior);
    }
    if single && got.is_none() {
        fail!("missing-frame", "single-fragment datagram produced no frame");
    }
    match catch(|| f.timer()) {
        Ok(_) => {}
        Err(p) => fail!("timer-panic", "timer panicked: {}", p.msg),
    }
    info.nontrivial = !(single);
    Ok(())
}

pub struct HdrCheck(pub &'static str);
impl SubCheck for HdrCheck {
    fn property(&self) -> &'static str {
        self.0
    }
    fn name(&self) -> &'static str {
        "hdr"
    }
    fn rule(&self) -> String {
        "exhaustive: all 65536 (total,seq) fragment headers on a fresh reassembler, and again after an earlier fragment (2,0) / (3,1) / (128,127) with the same id; plus 0..3-byte datagrams; oracle: no panic, no frame unless (1,0) or the header completes the earlier 2-fragment group; non-trivial = header other than (1,0)".into()
    }
    fn run(&self, part: &mut Part) {
        for total in 0..=255u8 {
            for seq in 0..=255u8 {
                let c = HdrCase {
                    total,
                    seq,
                    prior: None,
                    len: 3,
                };
                part.run_case(&c, &|c, i| run_hdr(c, i));
                for prior in [(2u8, 0u8), (3, 1), (128, 127)] {
                    let c = HdrCase {
                        total,
                        seq,
                        prior: Some(prior),
                        len: 0,
                    };
                    part.run_case(&c, &|c, i| run_hdr(c, i));
                }
            }
        }
        // short datagrams
        for n in 0..4usize {
            let d = vec![0u8; n];
            let mut f: Fragments<RawBuf> = Fragments::new(Duration::from_secs(5));
            let r = catch(|| f.reassemble(Bytes::from(d)));
            part.evaluations += 1;
            match r {
                Ok(None) => {}
                Ok(Some(_)) => {
                    part.record_failure(Failure::new("phantom-frame", format!("{}-byte datagram produced a frame", n)), json!({"short": n}));
                }
                Err(p) => {
                    part.record_failure(
                        Failure::new("reassemble-panic:short-datagram", format!("{}-byte datagram: {}", n, p.msg)),
                        json!({"short": n}),
                    );
                }
            }
        }
        part.exhaustive = true;
        part.samples.push(json!({"total": 0, "seq": 0, "prior": null}));
        part.samples.push(json!({"total": 200, "seq": 130, "prior": [2,0]}));
    }
    fn replay(&self, case: &serde_json::Value) -> Result<(), Failure> {
        if let Some(n) = case.get("short").and_then(|v| v.as_u64()) {
            let mut f: Fragments<RawBuf> = Fragments::new(Duration::from_secs(5));
            return match catch(|| f.reassemble(Bytes::from(vec![0u8; n as usize]))) {
                Ok(None) => Ok(()),
                Ok(Some(_)) => Err(Failure::new("phantom-frame", "short datagram produced a frame")),
                Err(p) => Err(Failure::new("reassemble-panic:short-datagram", p.msg)),
            };
        }
        let c: HdrCase = serde_json::from_value(case.clone()).map_err(|e| Failure::new("replay-decode", e.to_string()))?;
        run_hdr(&c, &mut CaseInfo::default())
    }
}

/// id wrap-around: 65537+ consecutive frames through one writer counter and one reassembler.
struct WrapCheck;
#[derive(Clone, Debug, Serialize, Deserialize)]
struct WrapCase {
    start: u16,
    count: u32,
    mtu: u32,
    len: u32,
}
fn run_wrap(c: &WrapCase, info: &mut CaseInfo) -> Result<(), Failure> {
    let mut next = c.start;
    let mut f: Fragments<RawBuf> = Fragments::new(Duration::from_secs(5));
    for k in 0..c.count {
        let buf = vcore::payload(k as u64 + 1, c.len as usize);
        let before = next;
        let frags: Vec<Bytes> = match catch(|| {
            Fragments::<RawBuf>::make_fragments(c.mtu as usize, &mut next, RawBuf(Bytes::from(buf.clone()))).collect()
        }) {
            Ok(f) => f,
            Err(p) => fail!(
                if before == 65535 { "split-panic:id-wrap" } else { "split-panic:representable" },
                "make_fragments panicked at frame #{} (id {}): {}",
                k,
                before,
                p.msg
            ),
        };
        let mut out = None;
        // deliver in reverse order
        for fr in frags.into_iter().rev() {
            match catch(|| f.reassemble(fr)) {
                Ok(Some(g)) => {
                    if out.is_some() {
                        fail!("duplicate-frame", "frame #{} emitted twice", k);
                    }
                    out = Some(g);
                }
                Ok(None) => {}
                Err(p) => fail!("reassemble-panic:genuine", "panic at frame #{}: {}", k, p.msg),
            }
        }
        match out {
            Some(g) if g.0 == buf => {}
            Some(_) => fail!("wrong-frame", "frame #{} (id {}) reassembled with wrong bytes", k, before),
            None => fail!("missing-frame", "frame #{} (id {}) not reassembled", k, before),
        }
        if next != before.wrapping_add(1) {
            fail!("split-wrong:id", "id counter went from {} to {}", before, next);
        }
    }
    info.nontrivial = true;
    Ok(())
}
impl SubCheck for WrapCheck {
    fn property(&self) -> &'static str {
        "C11"
    }
    fn name(&self) -> &'static str {
        "wrap"
    }
    fn rule(&self) -> String {
        "id wrap-around: 65540 consecutive 3-fragment frames through one id counter and one reassembler (fragments delivered in reverse), plus short runs started at 65533; each frame must come out exactly once; every run is non-trivial".into()
    }
    fn run(&self, part: &mut Part) {
        let cases = vec![
            WrapCase { start: 65533, count: 6, mtu: 8, len: 10 },
            WrapCase { start: 65535, count: 2, mtu: 5, len: 3 },
            WrapCase { start: 0, count: 65540, mtu: 8, len: 10 },
        ];
        for c in cases {
            part.run_case(&c, &|c, i| run_wrap(c, i));
        }
        part.samples.push(json!({"start": 65533, "count": 6, "mtu": 8, "len": 10}));
    }
    fn replay(&self, case: &serde_json::Value) -> Result<(), Failure> {
        let c: WrapCase = serde_json::from_value(case.clone()).map_err(|e| Failure::new("replay-decode", e.to_string()))?;
        run_wrap(&c, &mut CaseInfo::default())
    }
}

/// A completed group leaves a timer entry behind; when it fires it must not evict a newer group that
/// reuses the id (real clock, guarded: inconclusive if the host stalls past the new group's own deadline).
struct StaleTimerCheck;
#[derive(Clone, Debug, Serialize, Deserialize)]
struct StaleCase {
    id: u16,
    n: usize,
    /// true: the first group completes; false: the first group is left incomplete (it must expire, and the new group must survive)
    first_completes: bool,
}
fn run_stale(c: &StaleCase, info: &mut CaseInfo) -> Result<(), Failure> {
    let timeout = Duration::from_millis(200);
    let mut f: Fragments<RawBuf> = Fragments::new(timeout);
    let mk = |tag: u64, id: u16| -> (Vec<u8>, Vec<Bytes>) {
        let buf = vcore::payload(tag, c.n * 4 - 1);
        let mut next = id;
        let frags = Fragments::<RawBuf>::make_fragments(8, &mut next, RawBuf(Bytes::from(buf.clone()))).collect();
        (buf, frags)
    };
    let (_a_buf, a) = mk(1, c.id);
    let (b_buf, b) = mk(2, c.id);
    let r = catch(|| -> Result<Option<bool>, Failure> {
        let upto = if c.first_completes { a.len() } else { a.len() - 1 };
        for fr in a.iter().take(upto) {
            f.reassemble(fr.clone());
        }
        std::thread::sleep(Duration::from_millis(120));
        if !c.first_completes {
            // the stale incomplete group is still there; expire it first so that the id is free
            std::thread::sleep(Duration::from_millis(100));
            f.timer();
        }
        let t1 = std::time::Instant::now();
        if f.reassemble(b[0].clone()).is_some() {
            return Err(Failure::new("early-frame", "first fragment of the second group produced a frame"));
        }
        std::thread::sleep(Duration::from_millis(if c.first_completes { 100 } else { 20 }));
        f.timer();
        if t1.elapsed() >= Duration::from_millis(190) {
            return Ok(None); // host stalled: the new group may legitimately have expired
        }
        let mut out = None;
        for fr in b.iter().skip(1) {
            if let Some(g) = f.reassemble(fr.clone()) {
                out = Some(g);
            }
        }
        match out {
            Some(g) if g.0 == b_buf => Ok(Some(true)),
            Some(_) => Err(Failure::new("wrong-frame:id-reuse", "second group with a reused id reassembled with wrong bytes")),
            None => Err(Failure::new(
                "missing-frame:stale-timer",
                "a group that reuses the id of an earlier group was evicted by the earlier group's timer entry before its own deadline",
            )),
        }
    });
    match r {
        Ok(Ok(Some(_))) => {
            info.nontrivial = true;
            Ok(())
        }
        Ok(Ok(None)) => {
            info.inconclusive = true;
            Ok(())
        }
        Ok(Err(e)) => Err(e),
        Err(p) => Err(Failure::new("reassemble-panic:genuine", p.msg)),
    }
}
impl SubCheck for StaleTimerCheck {
    fn property(&self) -> &'static str {
        "C11"
    }
    fn name(&self) -> &'static str {
        "stale-timer"
    }
    fn rule(&self) -> String {
        "id reuse across a timer period (real clock, 200 ms reassembly timeout): group A (completed, or left incomplete and expired) then group B with the same id started before A's timer entry fires; B must still reassemble; every case is non-trivial; a host stall beyond B's own deadline is counted inconclusive".into()
    }
    fn run(&self, part: &mut Part) {
        let mut cases = vec![];
        for (i, n) in [2usize, 3, 5].iter().enumerate() {
            cases.push(StaleCase { id: 40 + i as u16, n: *n, first_completes: true });
        }
        cases.push(StaleCase { id: 65535, n: 2, first_completes: false });
        if part.tier == Tier::Thorough {
            for n in 2..12 {
                cases.push(StaleCase { id: n as u16, n, first_completes: n % 2 == 0 });
            }
        }
        // run in parallel threads: each case sleeps ~0.25 s
        let results: Vec<(StaleCase, CaseInfo, Result<(), Failure>)> = std::thread::scope(|s| {
            let hs: Vec<_> = cases
                .into_iter()
                .map(|c| {
                    s.spawn(move || {
                        let mut info = CaseInfo::default();
                        let r = run_stale(&c, &mut info);
                        (c, info, r)
                    })
                })
                .collect();
            hs.into_iter().map(|h| h.join().unwrap()).collect()
        });
        for (c, info, r) in results {
            part.account(vcore::digest_json(&c), info);
            if let Err(f) = r {
                part.record_failure(f, serde_json::to_value(&c).unwrap());
            }
            if part.samples.len() < 2 {
                part.samples.push(serde_json::to_value(&c).unwrap());
            }
        }
    }
    fn replay(&self, case: &serde_json::Value) -> Result<(), Failure> {
        let c: StaleCase = serde_json::from_value(case.clone()).map_err(|e| Failure::new("replay-decode", e.to_string()))?;
        run_stale(&c, &mut CaseInfo::default())
    }
}

pub fn checks() -> Vec<Box<dyn SubCheck>> {
    vec![
        Box::new(StaleTimerCheck),
        Box::new(HdrCheck("C11")),
        Box::new(PermCheck),
        Box::new(WrapCheck),
        Box::new(vcore::PropCheck {
            property: "C11",
            name: "model",
            rule: "model-based: 1-3 epochs of 1-4 frames (raw bytes or RPFM Frame, boundary-biased length x MTU 5..65535, ids incl. 65530..65535 and id reuse across epochs), arrival order = generated permutation with duplicates (identical or altered, possibly late), dropped fragments, malformed datagrams (short, total=0, seq>=total, total>128, orphan) on unused ids, timer expiry between epochs; oracle = independent reference reassembler + exact-bytes comparison; non-trivial = reordered, duplicated, >=2 frames interleaved, or a later epoch",
            quick: 6000,
            thorough: 300_000,
            max_shrink: 2000,
            strategy: case_strategy,
            case: run_case,
        }),
    ]
}
