//! C18(a) — loading any configuration document either succeeds or is rejected with an error; it never
//! panics. The loader below mirrors main()'s sequence on the real functions.
use crate::harness::c08::{Gen, Ty};
use crate::harness::c09::render_min;
use crate::harness::util::catch;
use crate::{config, connectors, listeners, rules, GlobalState};
use easy_error::{Error, ResultExt};
use proptest::prelude::*;
use serde::{Deserialize, Serialize};
use serde_json::json;
use serde_yaml::Value as Y;
use std::sync::Arc;
use vcore::{fail, CaseInfo, Failure, SubCheck};

pub async fn load(text: &str) -> Result<Arc<GlobalState>, Error> {
    let cfg: config::Config = serde_yaml::from_str(text).context("parse yaml")?;
    let mut state: Arc<GlobalState> = Default::default();
    {
        let st_mut = Arc::get_mut(&mut state).unwrap();
        let ctx_mut = Arc::get_mut(&mut st_mut.contexts).unwrap();
        st_mut.timeouts = cfg.timeouts;
        ctx_mut.default_timeout = st_mut.timeouts.idle;
        ctx_mut.udp_timeout = st_mut.timeouts.udp;
        st_mut.listeners = listeners::from_config(&cfg.listeners)?;
        st_mut.connectors = connectors::from_config(&cfg.connectors)?;
        if let Some(mut metrics) = cfg.metrics {
            metrics.init()?;
            ctx_mut.history_size = metrics.history_size;
            st_mut.metrics = Some(Arc::new(metrics));
        }
        if let Some(mut log) = cfg.access_log {
            log.init().await?;
            ctx_mut.access_log = Some(log);
        }
        for l in st_mut.listeners.values_mut() {
            Arc::get_mut(l).unwrap().init().await?;
        }
        for c in st_mut.connectors.values_mut() {
            Arc::get_mut(c).unwrap().init().await?;
        }
        st_mut.set_rules(rules::from_config(&cfg.rules)?).await?;
        st_mut.io_params = cfg.io_params;
    }
    for l in state.listeners.values() {
        l.verify(state.clone()).await?;
    }
    for c in state.connectors.values() {
        c.verify(state.clone()).await?;
    }
    Ok(state)
}

pub const RICH: &str = r##"apiVersion: v1alpha
kind: ProxyDefinition
ioParams:
  bufferSize: 4096
  useSplice: false
metrics:
  bind: "127.0.0.1:0"
  historySize: 5
  apiPrefix: /api
  cors: "*"
timeouts:
  idle: 10
  udp: 7
listeners:
  - name: http
    bind: 127.0.0.1:0
  - name: https
    type: http
    bind: 127.0.0.1:0
    tls:
      cert: /verif/pki/server.crt
      key: /verif/pki/server.key
      client:
        ca: /verif/pki/ca.crt
        required: true
  - name: socks
    bind: 127.0.0.1:0
    allowUdp: true
    enforceUdpClient: false
    overrideUdpAddress: 127.0.0.1
    auth:
      required: true
      users:
        - username: a
          password: a
      cmd: ["test", "#USER#", "==", "#PASS#"]
      cache:
        timeout: 10
  - name: rev
    type: reverse
    bind: 127.0.0.1:0
    target: localhost:53
    protocol: udp
  - name: rev-tcp
    type: reverse
    bind: 127.0.0.1:0
    target: 127.0.0.1:80
  - name: quic
    bind: 127.0.0.1:0
    bbr: true
    tls:
      cert: /verif/pki/server.crt
      key: /verif/pki/server.key
connectors:
  - name: lb
    type: loadbalance
    connectors: [direct, http]
    algo:
      hashBy: request.source
  - name: lb2
    type: loadbalance
    connectors: [lb, socks]
    algo: rr
  - name: direct
    bind: 127.0.0.1
    keepalive: true
    dns:
      servers: system
      family: V4Only
  - name: http
    server: 127.0.0.1
    port: 7081
  - name: https
    type: http
    server: localhost
    port: 3333
    tls:
      insecure: false
      ca: /verif/pki/ca.crt
      auth:
        cert: /verif/pki/client.crt
        key: /verif/pki/client.key
  - name: socks
    server: 127.0.0.1
    port: 1080
    version: 5
    auth:
      username: proxy
      password: secret
  - name: socks4
    type: socks
    server: 127.0.0.1
    port: 1080
    version: 4
  - name: quic
    server: localhost
    port: 7081
    bind: "127.0.0.1:0"
    inline_udp: false
    tls:
      insecure: true
rules:
  - filter: request.feature == "UdpForward"
    target: quic
  - filter: request.source.host == "127.0.0.1" and request.target.port < 1024
    target: lb
  - filter: request.target =~ "deny-me.com"
    target: deny
  - target: direct
accessLog:
  path: ACCESSLOG
  format:
    script: "`${request.listener} ${request.target}`"
"##;

pub const MINIMAL: &str = r#"apiVersion: v1
kind: x
listeners:
  - name: http
    bind: 127.0.0.1:0
connectors:
  - name: direct
rules:
  - target: direct
"#;

fn bases() -> Vec<String> {
    let shipped = std::fs::read_to_string("/repo/config.yaml").unwrap_or_else(|_| MINIMAL.to_string());
    vec![RICH.to_string(), MINIMAL.to_string(), shipped]
}

#[derive(Clone, Debug, Serialize, Deserialize)]
pub struct Mutation {
    pub kind: u8,
    pub node: u16,
    pub arg: u16,
}

#[derive(Clone, Debug, Serialize, Deserialize)]
pub enum Extra {
    None,
    /// load-balancer member graph: for each of k balancers the member indexes (k = self-reference possible, 100+ = missing name)
    LbGraph(Vec<Vec<u8>>),
    /// a generated filter (tape for the C08 generator) appended as a rule; and optionally as hashBy / log format
    Script { tape: Vec<u16>, place: u8 },
}

#[derive(Clone, Debug, Serialize, Deserialize)]
pub struct Case {
    pub base: u8,
    pub muts: Vec<Mutation>,
    pub extra: Extra,
}

const WORDS: &[&str] = &[
    "",
    "deny",
    "direct",
    "http",
    "socks",
    "quic",
    "loadbalance",
    "tproxy",
    "reverse",
    "unknown-type",
    "127.0.0.1:0",
    "999.1.1.1:1",
    "[::1]:0",
    "localhost:99999",
    "/nonexistent/file",
    "/verif/pki/empty.pem",
    "/verif/pki/garbage.pem",
    "/verif/pki/server.crt",
    "/verif/pki/server.key",
    "/verif/pki",
    "udp",
    "tcp",
    "rr",
    "random",
    "true",
    "-1",
    "18446744073709551616",
    "V4Only",
    "request.source",
    "1 +",
    "(1,2).5",
    "lb",
    "lb2",
    "\u{0}",
    "json",
    "<embedded>",
    "1.1.1.1",
];

/// paths to every node below the root
fn paths(v: &Y, cur: &mut Vec<usize>, out: &mut Vec<Vec<usize>>) {
    match v {
        Y::Mapping(m) => {
            for (i, (_, val)) in m.iter().enumerate() {
                cur.push(i);
                out.push(cur.clone());
                paths(val, cur, out);
                cur.pop();
            }
        }
        Y::Sequence(s) => {
            for (i, val) in s.iter().enumerate() {
                cur.push(i);
                out.push(cur.clone());
                paths(val, cur, out);
                cur.pop();
            }
        }
        _ => {}
    }
}

fn get_mut<'a>(v: &'a mut Y, path: &[usize]) -> Option<&'a mut Y> {
    let mut cur = v;
    for i in path {
        cur = match cur {
            Y::Mapping(m) => m.iter_mut().nth(*i).map(|(_, v)| v)?,
            Y::Sequence(s) => s.get_mut(*i)?,
            _ => return None,
        };
    }
    Some(cur)
}

fn replacement(old: &Y, arg: u16) -> Y {
    match arg % 12 {
        0 => Y::Null,
        1 => Y::Bool(arg % 2 == 0),
        2 => Y::Number(5.into()),
        3 => Y::Number((-1).into()),
        4 => Y::Number(serde_yaml::Number::from(18446744073709551615u64)),
        5 => Y::String("x".into()),
        6 => Y::Sequence(vec![]),
        7 => Y::Sequence(vec![old.clone()]),
        8 => Y::Mapping(Default::default()),
        9 => {
            let mut m = serde_yaml::Mapping::new();
            m.insert(Y::String("k".into()), old.clone());
            Y::Mapping(m)
        }
        10 => Y::Number(serde_yaml::Number::from(1.5f64)),
        _ => Y::String("y".repeat(70_000)),
    }
}

fn mutate(doc: &mut Y, m: &Mutation) -> String {
    let mut all = vec![];
    paths(doc, &mut vec![], &mut all);
    if all.is_empty() {
        return "empty".into();
    }
    if m.kind % 9 >= 7 {
        // targeted: replace a file path (kind 7) or a bind/server address (kind 8) by a special value
        let mut cands = vec![];
        for p in &all {
            if let Some(Y::String(sv)) = get_mut(doc, p).map(|x| x.clone()) {
                let is_path = sv.starts_with("/verif/pki/") || sv.ends_with(".crt") || sv.ends_with(".key");
                let is_addr = sv.contains(':') && sv.chars().any(|c| c.is_ascii_digit()) && !sv.contains(' ');
                if (m.kind % 9 == 7 && is_path) || (m.kind % 9 == 8 && is_addr) {
                    cands.push(p.clone());
                }
            }
        }
        if cands.is_empty() {
            return "noop".into();
        }
        let p = cands[(m.node as usize * cands.len()) >> 16].clone();
        const FILES: &[&str] = &["/verif/pki/empty.pem", "/verif/pki/garbage.pem", "/verif/pki/server.crt", "/verif/pki/server.key", "/verif/pki", "/nonexistent", "/verif/pki/ca.key", ""];
        const ADDRS: &[&str] = &["127.0.0.1:0", "[::1]:0", "999.0.0.1:1", "127.0.0.1:65536", "localhost:80", ":0", "127.0.0.1", "0.0.0.0:0", "[::]:0", "x:y"];
        let w = if m.kind % 9 == 7 { FILES[m.arg as usize % FILES.len()] } else { ADDRS[m.arg as usize % ADDRS.len()] };
        if let Some(n) = get_mut(doc, &p) {
            *n = Y::String(w.to_string());
        }
        return format!("set {:?}", w);
    }
    let path = all[(m.node as usize * all.len()) >> 16].clone();
    let (parent_path, last) = path.split_at(path.len() - 1);
    let idx = last[0];
    match m.kind % 7 {
        0 => {
            // delete
            if let Some(p) = get_mut(doc, parent_path) {
                match p {
                    Y::Mapping(mm) => {
                        if let Some(k) = mm.iter().nth(idx).map(|(k, _)| k.clone()) {
                            mm.remove(&k);
                            return format!("delete {:?}", k);
                        }
                    }
                    Y::Sequence(s) => {
                        if idx < s.len() {
                            s.remove(idx);
                            return "delete item".into();
                        }
                    }
                    _ => {}
                }
            }
            "noop".into()
        }
        1 | 2 => {
            // retype
            if let Some(n) = get_mut(doc, &path) {
                let r = replacement(n, m.arg);
                *n = r;
                return format!("retype#{}", m.arg % 12);
            }
            "noop".into()
        }
        3 => {
            // duplicate
            if let Some(p) = get_mut(doc, parent_path) {
                match p {
                    Y::Sequence(s) => {
                        if idx < s.len() {
                            let c = s[idx].clone();
                            s.push(c);
                            return "duplicate item".into();
                        }
                    }
                    Y::Mapping(mm) => {
                        if let Some((k, v)) = mm.iter().nth(idx).map(|(k, v)| (k.clone(), v.clone())) {
                            let nk = Y::String(format!("{}2", k.as_str().unwrap_or("k")));
                            mm.insert(nk, v);
                            return "duplicate key".into();
                        }
                    }
                    _ => {}
                }
            }
            "noop".into()
        }
        4 | 5 => {
            // randomise a scalar
            if let Some(n) = get_mut(doc, &path) {
                let w = WORDS[m.arg as usize % WORDS.len()];
                match n {
                    Y::Mapping(_) | Y::Sequence(_) => {
                        *n = Y::String(w.to_string());
                    }
                    _ => {
                        *n = if m.arg % 5 == 0 { Y::Number(((m.arg as i64) - 30000).into()) } else { Y::String(w.to_string()) };
                    }
                }
                return format!("set {:?}", w);
            }
            "noop".into()
        }
        _ => {
            // rename a key / wrap the value
            if let Some(p) = get_mut(doc, parent_path) {
                if let Y::Mapping(mm) = p {
                    if let Some((k, v)) = mm.iter().nth(idx).map(|(k, v)| (k.clone(), v.clone())) {
                        mm.remove(&k);
                        mm.insert(Y::String(WORDS[m.arg as usize % WORDS.len()].to_string()), v);
                        return "rename key".into();
                    }
                }
            }
            "noop".into()
        }
    }
}

fn apply_extra(doc: &mut Y, extra: &Extra) -> String {
    match extra {
        Extra::None => "none".into(),
        Extra::LbGraph(g) => {
            let k = g.len();
            let mut list: Vec<Y> = vec![];
            for (i, members) in g.iter().enumerate() {
                let names: Vec<Y> = members
                    .iter()
                    .map(|m| {
                        let m = *m as usize;
                        Y::String(if m >= 100 { format!("missing{}", m) } else if m % (k + 1) == k { "direct".to_string() } else { format!("g{}", m % (k + 1)) })
                    })
                    .collect();
                let mut mm = serde_yaml::Mapping::new();
                mm.insert(Y::String("name".into()), Y::String(format!("g{}", i)));
                mm.insert(Y::String("type".into()), Y::String("loadbalance".into()));
                mm.insert(Y::String("connectors".into()), Y::Sequence(names));
                list.push(Y::Mapping(mm));
            }
            if let Some(Y::Sequence(c)) = doc.get_mut("connectors") {
                c.extend(list);
            }
            if let Some(Y::Sequence(r)) = doc.get_mut("rules") {
                let mut mm = serde_yaml::Mapping::new();
                mm.insert(Y::String("target".into()), Y::String("g0".into()));
                r.insert(0, Y::Mapping(mm));
            }
            format!("lb-graph {:?}", g)
        }
        Extra::Script { tape, place } => {
            let ty = match place % 3 {
                0 => Ty::Bool,
                _ => Ty::Str,
            };
            let mut gen = Gen::new(tape);
            let e = gen.gen(&ty, 3);
            let src = render_min(&e);
            match place % 3 {
                0 => {
                    if let Some(Y::Sequence(r)) = doc.get_mut("rules") {
                        let mut mm = serde_yaml::Mapping::new();
                        mm.insert(Y::String("target".into()), Y::String("direct".into()));
                        mm.insert(Y::String("filter".into()), Y::String(src.clone()));
                        r.insert(0, Y::Mapping(mm));
                    }
                }
                1 => {
                    if let Some(Y::Sequence(c)) = doc.get_mut("connectors") {
                        let mut algo = serde_yaml::Mapping::new();
                        algo.insert(Y::String("hashBy".into()), Y::String(src.clone()));
                        let mut mm = serde_yaml::Mapping::new();
                        mm.insert(Y::String("name".into()), Y::String("lbscript".into()));
                        mm.insert(Y::String("type".into()), Y::String("loadbalance".into()));
                        mm.insert(Y::String("connectors".into()), Y::Sequence(vec![Y::String("direct".into())]));
                        mm.insert(Y::String("algo".into()), Y::Mapping(algo));
                        c.push(Y::Mapping(mm));
                    }
                }
                _ => {
                    let mut fmt = serde_yaml::Mapping::new();
                    fmt.insert(Y::String("script".into()), Y::String(src.clone()));
                    let mut mm = serde_yaml::Mapping::new();
                    mm.insert(Y::String("path".into()), Y::String("ACCESSLOG".into()));
                    mm.insert(Y::String("format".into()), Y::Mapping(fmt));
                    if let Y::Mapping(root) = doc {
                        root.insert(Y::String("accessLog".into()), Y::Mapping(mm));
                    }
                }
            }
            format!("script@{}: {}", place % 3, src.chars().take(80).collect::<String>())
        }
    }
}

/// never let a generated document write outside the scratch directory
fn sanitise(doc: &mut Y, scratch: &str) {
    if let Some(Y::Mapping(al)) = doc.get_mut("accessLog") {
        if let Some(p) = al.get_mut("path") {
            // any scalar can end up as a file name (a retyped number too): keep all of them inside the scratch directory
            let name: Option<String> = match &*p {
                Y::String(s) => Some(s.chars().filter(|c| c.is_ascii_alphanumeric()).take(20).collect()),
                Y::Number(n) => Some(n.to_string().chars().filter(|c| c.is_ascii_alphanumeric()).take(20).collect()),
                Y::Bool(b) => Some(b.to_string()),
                _ => None,
            };
            if let Some(name) = name {
                *p = Y::String(format!("{}/log-{}", scratch, name));
            }
        }
    }
}

pub fn build_doc(c: &Case, scratch: &str) -> (String, Vec<String>) {
    let bases = bases();
    let mut doc: Y = serde_yaml::from_str(&bases[c.base as usize % bases.len()]).unwrap_or(Y::Null);
    let mut desc = vec![apply_extra(&mut doc, &c.extra)];
    for m in &c.muts {
        desc.push(mutate(&mut doc, m));
    }
    sanitise(&mut doc, scratch);
    (serde_yaml::to_string(&doc).unwrap_or_default(), desc)
}

/// balancer graphs with a chosen shape (random member lists almost always contain a self loop or a missing
/// member): a ring through the routed balancer g0, a ring behind g0, or an acyclic chain ending in `direct`;
/// `extras` add `direct` as a further member of some balancers. Member j < k is g<j>, j == k is `direct`.
fn shaped_graph(k: usize, shape: u8, extras: &[u8]) -> Vec<Vec<u8>> {
    let mut g: Vec<Vec<u8>> = (0..k)
        .map(|i| match shape % 3 {
            0 => vec![((i + 1) % k) as u8],
            1 => vec![if i + 1 < k { (i + 1) as u8 } else { 1u8.min((k - 1) as u8) }],
            _ => vec![(i + 1) as u8],
        })
        .collect();
    for e in extras {
        g[*e as usize % k].push(k as u8);
    }
    g
}

pub fn case_strategy() -> impl Strategy<Value = Case> {
    let m = (0u8..9, any::<u16>(), any::<u16>()).prop_map(|(kind, node, arg)| Mutation { kind, node, arg });
    let extra = prop_oneof![
        4 => Just(Extra::None),
        2 => prop::collection::vec(prop::collection::vec(prop_oneof![4 => 0u8..5, 1 => Just(100u8)], 0..4), 1..5).prop_map(Extra::LbGraph),
        3 => (prop::collection::vec(any::<u16>(), 4..80), any::<u8>()).prop_map(|(tape, place)| Extra::Script { tape, place }),
        2 => (2usize..5, any::<u8>(), prop_oneof![2 => Just(vec![]), 1 => prop::collection::vec(any::<u8>(), 1..3)]).prop_map(|(k, shape, extras)| Extra::LbGraph(shaped_graph(k, shape, &extras))),
    ];
    (0u8..3, prop::collection::vec(m, 0..3), extra).prop_map(|(base, muts, extra)| Case { base, muts, extra })
}

pub fn run_case(c: &Case, info: &mut CaseInfo) -> Result<(), Failure> {
    let scratch = format!("{}/c18-{}", std::env::var("VERIF_RUN_DIR").unwrap_or_else(|_| "/verif/.build/run/manual".into()), std::process::id());
    let _ = std::fs::create_dir_all(&scratch);
    let (text, desc) = build_doc(c, &scratch);
    let t2 = text.clone();
    let r = catch(move || {
        let rt = tokio::runtime::Builder::new_current_thread().enable_all().build().unwrap();
        rt.block_on(async { tokio::time::timeout(std::time::Duration::from_secs(30), load(&t2)).await.map(|r| r.map(|_| ()).map_err(|e| format!("{} {:?}", e, e.cause))) })
    });
    let what = desc.join("; ");
    match r {
        Err(p) => fail!(
            format!("panic:load:{}", p.class()),
            "loading a configuration panicked: {} — mutations: {} — document starts: {:?}",
            p.msg,
            what,
            text.chars().take(300).collect::<String>()
        ),
        Ok(Err(_)) => fail!("load-hangs", "loading a configuration did not finish within 30 s — mutations: {}", what),
        Ok(Ok(Ok(()))) => info.class("accepted"),
        Ok(Ok(Err(e))) => {
            if e.trim().is_empty() {
                fail!("error-without-message", "rejected without a message — mutations: {}", what);
            }
            info.class("rejected");
        }
    }
    if let Some(p) = crate::harness::util::take_global_panic() {
        // a panic in a task spawned by the loader (access log thread ...)
        fail!(format!("panic:load-task:{}", p.class()), "a task started by the loader panicked: {} — mutations: {}", p.msg, what);
    }
    info.class(match &c.extra {
        Extra::None => "plain",
        Extra::LbGraph(_) => "lb-graph",
        Extra::Script { .. } => "script",
    });
    info.nontrivial = !c.muts.is_empty() || !matches!(c.extra, Extra::None);
    info.sample = Some(json!({"base": c.base % 3, "mutations": desc}));
    Ok(())
}

pub fn checks() -> Vec<Box<dyn SubCheck>> {
    vec![Box::new(vcore::PropCheck {
        property: "C18",
        name: "loader",
        rule: "the loader of main() re-enacted on the real functions (serde_yaml -> Config, listeners/connectors::from_config, metrics/access-log init, every init(), set_rules, every verify()) over documents derived from three bases (a rich valid configuration using every listener/connector kind, TLS, auth, script log format and load balancers; a minimal one; the shipped config.yaml) by 0-2 tree mutations (delete, retype to null/bool/int/negative/u64/float/string/list/map/70 kB string, duplicate, randomise from a dictionary of type names / addresses / paths / scripts, rename key) plus optionally a generated load-balancer member graph (random member lists: self loops, cycles, diamonds, missing members; shaped graphs: a ring of 2-4 balancers through or behind the routed balancer, an acyclic chain ending in direct, optionally with direct as a further member) or a generated (possibly ill-typed) script placed as filter / hashBy / log format; oracle: Ok or Err(non-empty message) within 30 s, never a panic (also in tasks the loader starts); non-trivial = at least one mutation or extra",
        quick: 4000,
        thorough: 300_000,
        max_shrink: 400,
        strategy: case_strategy,
        case: run_case,
    })]
}
