//! C02 — routing: first matching rule wins, default deny, feature gate, nothing happens on deny;
//! cidr_match agrees with CIDR containment.
use crate::context::{ContextProps, ContextState, Feature, TargetAddress};
use crate::harness::c08::{ref_cidr, Env, Interp, RErr, V};
use crate::harness::c09::{render_min, E, BIN, UN};
use crate::harness::codec::run_async;
use crate::harness::mini::{Behaviour, Mini, RecordingConnector};
use crate::harness::util::catch;
use crate::rules::script_ext::create_context;
use milu::parser::parse;
use milu::script::{ScriptContextRef, Value};
use proptest::prelude::*;
use serde::{Deserialize, Serialize};
use serde_json::json;
use std::collections::BTreeSet;
use std::net::SocketAddr;
use std::sync::atomic::Ordering;
use std::sync::Arc;
use vcore::{fail, CaseInfo, Failure, SubCheck};

#[derive(Clone, Debug, Serialize, Deserialize)]
pub struct ReqSpec {
    pub listener: u8,
    pub src_v6: bool,
    pub src_host: u8,
    pub src_port: u16,
    pub tgt_kind: u8,
    pub tgt_host: u8,
    pub tgt_port: u16,
    pub feature: u8,
}

#[derive(Clone, Debug, Serialize, Deserialize)]
pub struct RuleSpec {
    /// 0 = deny, k = connector k-1 (mod count)
    pub target: u8,
    pub filter: Option<Vec<u16>>,
}

#[derive(Clone, Debug, Serialize, Deserialize)]
pub struct Case {
    pub nconn: u8,
    /// feature bitmask per connector: 1 tcp, 2 udp-forward, 4 udp-bind
    pub features: Vec<u8>,
    pub rules: Vec<RuleSpec>,
    pub req: ReqSpec,
}

pub const LISTENERS: &[&str] = &["http", "socks", "l-1"];
pub const DOMAINS: &[&str] = &["example.com", "a.test", "80", "deny-me.com", "10.1.2.3"];
pub const V4S: &[&str] = &["10.1.2.3", "192.168.0.1", "127.0.0.1", "10.255.255.255", "11.0.0.0"];
pub const V6S: &[&str] = &["2001:db8::9", "::1", "fe80::1", "2001:db9::"];
pub const FEATURES: &[Feature] = &[Feature::TcpForward, Feature::UdpForward, Feature::UdpBind];

pub fn req_parts(r: &ReqSpec) -> (String, SocketAddr, TargetAddress, Feature) {
    let listener = LISTENERS[r.listener as usize % LISTENERS.len()].to_string();
    let source: SocketAddr = if r.src_v6 {
        format!("[{}]:{}", V6S[r.src_host as usize % V6S.len()], r.src_port).parse().unwrap()
    } else {
        format!("{}:{}", V4S[r.src_host as usize % V4S.len()], r.src_port).parse().unwrap()
    };
    let target = match r.tgt_kind % 3 {
        0 => TargetAddress::DomainPort(DOMAINS[r.tgt_host as usize % DOMAINS.len()].to_string(), r.tgt_port),
        1 => format!("{}:{}", V4S[r.tgt_host as usize % V4S.len()], r.tgt_port).parse().unwrap(),
        _ => format!("[{}]:{}", V6S[r.tgt_host as usize % V6S.len()], r.tgt_port).parse().unwrap(),
    };
    // every 8th request asks for a UDP feature
    let feature = if r.feature % 8 == 7 { FEATURES[1 + (r.feature as usize / 8) % 2] } else { Feature::TcpForward };
    (listener, source, target, feature)
}

pub fn req_props(r: &ReqSpec) -> ContextProps {
    let (listener, source, target, feature) = req_parts(r);
    ContextProps {
        listener,
        source,
        target,
        request_feature: feature,
        ..Default::default()
    }
}

// ---- filter generation (every atom is inside the reference interpreter's fragment)
struct Tape<'a>(&'a [u16], usize);
impl<'a> Tape<'a> {
    fn pick(&mut self, n: usize) -> usize {
        let v = self.0.get(self.1).cloned().unwrap_or(0);
        self.1 += 1;
        ((v as usize) * n) >> 16
    }
}
fn bi(s: &str) -> u8 {
    BIN.iter().position(|b| b.spell == s).unwrap() as u8
}
fn id(s: &str) -> E {
    E::Id(s.into())
}
fn acc(path: &[&str]) -> E {
    let mut e = id(path[0]);
    for p in &path[1..] {
        e = E::Access(Box::new(e), p.to_string());
    }
    e
}
fn bin(op: &str, l: E, r: E) -> E {
    E::Bin(bi(op), 0, Box::new(l), Box::new(r))
}
fn s(x: &str) -> E {
    E::Str(x.to_string())
}

fn atom(t: &mut Tape) -> E {
    match t.pick(16) {
        0 => E::Bool(true),
        1 => E::Bool(false),
        2 => bin("==", acc(&["request", "listener"]), s(LISTENERS[t.pick(LISTENERS.len())])),
        3 => bin(["==", "!="][t.pick(2)], acc(&["request", "target", "host"]), s([DOMAINS, V4S, V6S][t.pick(3)][t.pick(4)])),
        4 => bin("==", acc(&["request", "target", "type"]), s(["domain", "ipv4", "ipv6"][t.pick(3)])),
        5 => bin("==", acc(&["request", "source", "host"]), s([V4S, V6S][t.pick(2)][t.pick(4)])),
        6 => bin("==", acc(&["request", "feature"]), s(["TcpForward", "UdpForward", "UdpBind"][t.pick(3)])),
        7 => bin(
            ["==", "<", ">=", "!="][t.pick(4)],
            acc(&["request", "target", "port"]),
            E::Int([0u64, 80, 443, 1024, 65535][t.pick(5)], 0),
        ),
        8 | 9 => {
            const NETS: &[&str] = &["10.0.0.0/8", "10.1.2.3/32", "0.0.0.0/0", "10.1.2.0/24", "127.0.0.0/8", "2001:db8::/32", "::/0", "::1/128", "192.168.0.0/16", "10.1.2.2/31"];
            let who = if t.pick(2) == 0 { acc(&["request", "target", "host"]) } else { acc(&["request", "source", "host"]) };
            E::Call(Box::new(id("cidr_match")), vec![who, s(NETS[t.pick(NETS.len())])])
        }
        10 => bin(["=~", "!~"][t.pick(2)], acc(&["request", "target"]), s(["deny-me", "com", "^10", "80$", "a"][t.pick(5)])),
        11 => bin("=~", acc(&["request", "source"]), s(["127", "^10", "db8"][t.pick(3)])),
        // erroring atoms: evaluation fails => the rule does not match
        12 => bin("==", E::Call(Box::new(id("to_integer")), vec![acc(&["request", "target", "host"])]), E::Int(80, 0)),
        13 => bin("==", bin("/", acc(&["request", "target", "port"]), E::Int(0, 0)), E::Int(1, 0)),
        14 => bin("=~", acc(&["request", "target", "host"]), s("(")),
        _ => bin(
            "_:",
            acc(&["request", "listener"]),
            E::Array((0..t.pick(3)).map(|_| s(LISTENERS[t.pick(LISTENERS.len())])).collect()),
        ),
    }
}

fn filter(t: &mut Tape, depth: u32) -> E {
    if depth == 0 || t.pick(3) == 0 {
        return atom(t);
    }
    match t.pick(4) {
        0 => E::Un(UN.iter().position(|u| u.0 == "!").unwrap() as u8, Box::new(filter(t, depth - 1))),
        1 => E::Bin(bi("&&"), t.pick(2) as u8, Box::new(filter(t, depth - 1)), Box::new(filter(t, depth - 1))),
        2 => E::Bin(bi("||"), t.pick(2) as u8, Box::new(filter(t, depth - 1)), Box::new(filter(t, depth - 1))),
        _ => atom(t),
    }
}

pub fn filter_from(tape: &[u16]) -> E {
    filter(&mut Tape(tape, 0), 3)
}

/// reference truth of a filter for a request: Some(bool), error => false (rule does not match)
pub fn reference_truth(e: &E, props: &ContextProps) -> Result<(bool, bool), String> {
    let mut it = Interp {
        props,
        maybe: BTreeSet::new(),
        fuel: 10_000,
    };
    match it.eval(e, &Env(None)) {
        Ok(V::B(b)) => Ok((b, false)),
        Err(RErr::Dyn(_)) => Ok((false, true)),
        other => Err(format!("{:?}", other)),
    }
}

fn features_of(mask: u8) -> Vec<Feature> {
    let mut v = vec![];
    if mask & 1 != 0 {
        v.push(Feature::TcpForward);
    }
    if mask & 2 != 0 {
        v.push(Feature::UdpForward);
    }
    if mask & 4 != 0 {
        v.push(Feature::UdpBind);
    }
    v
}

pub fn case_strategy() -> impl Strategy<Value = Case> {
    let req = (0u8..3, any::<bool>(), any::<u8>(), prop_oneof![Just(0u16), Just(65535), any::<u16>()], any::<u8>(), any::<u8>(), prop_oneof![Just(0u16), Just(80), Just(443), Just(65535), any::<u16>()], any::<u8>())
        .prop_map(|(listener, src_v6, src_host, src_port, tgt_kind, tgt_host, tgt_port, feature)| ReqSpec {
            listener,
            src_v6,
            src_host,
            src_port,
            tgt_kind,
            tgt_host,
            tgt_port,
            feature,
        });
    let rule = (prop_oneof![1 => Just(0u8), 4 => 1u8..6], prop::option::weighted(0.85, prop::collection::vec(any::<u16>(), 1..24)))
        .prop_map(|(target, filter)| RuleSpec { target, filter });
    (1u8..6, prop::collection::vec(prop_oneof![3 => Just(7u8), 2 => Just(1u8), 1 => 0u8..8], 5), prop::collection::vec(rule, 0..8), req).prop_map(|(nconn, features, rules, req)| Case {
        nconn,
        features,
        rules,
        req,
    })
}

pub fn run_case(case: &Case, info: &mut CaseInfo) -> Result<(), Failure> {
    let n = case.nconn as usize;
    let props = req_props(&case.req);
    // reference decision
    let mut filters: Vec<Option<E>> = vec![];
    let mut decision: Option<usize> = None; // index of the deciding rule
    let mut any_error = false;
    for (i, r) in case.rules.iter().enumerate() {
        let f = r.filter.as_ref().map(|t| filter_from(t));
        let truth = match &f {
            None => true,
            Some(e) => match reference_truth(e, &props) {
                Ok((b, err)) => {
                    any_error |= err && decision.is_none();
                    b
                }
                Err(s) => fail!("harness-reference-stuck", "reference cannot evaluate {:?}: {}", render_min(e), s),
            },
        };
        filters.push(f);
        if truth && decision.is_none() {
            decision = Some(i);
        }
    }
    let feature = props.request_feature;
    let expected: Option<usize> = match decision {
        None => None,
        Some(i) => {
            let t = case.rules[i].target as usize;
            if t == 0 {
                None
            } else {
                let c = (t - 1) % n;
                if features_of(case.features[c]).contains(&feature) {
                    Some(c)
                } else {
                    None
                }
            }
        }
    };
    let why_refused = match decision {
        None => "no-rule",
        Some(i) if case.rules[i].target == 0 => "deny",
        Some(_) if expected.is_none() => "feature",
        _ => "",
    };
    let rules: Vec<(String, Option<String>)> = case
        .rules
        .iter()
        .zip(filters.iter())
        .map(|(r, f)| {
            let t = if r.target == 0 { "deny".to_string() } else { format!("c{}", (r.target as usize - 1) % n) };
            (t, f.as_ref().map(render_min))
        })
        .collect();
    let rules_dbg = rules.clone();
    let features = case.features.clone();
    let req = case.req.clone();
    let res = run_async(async move {
        let conns: Vec<Arc<RecordingConnector>> = (0..n).map(|k| RecordingConnector::new(&format!("c{}", k), features_of(features[k]), Behaviour::AcceptEof)).collect();
        let mini = match Mini::new(conns.clone(), vec![], rules, 10, 4096).await {
            Ok(m) => m,
            Err(e) => return Err(Failure::new("rules-rejected", format!("a generated (valid) rule list was rejected: {}", e))),
        };
        let (listener, source, target, feature) = req_parts(&req);
        let (client_near, client_far) = tokio::io::duplex(4096);
        drop(client_far);
        let (ctx, log) = mini.request(&listener, source, target, feature, Some(client_near)).await;
        let id = ctx.read().await.props().id;
        mini.process(ctx.clone()).await;
        let calls: Vec<Vec<u64>> = conns.iter().map(|c| c.calls.lock().unwrap().clone()).collect();
        let p = ctx.read().await.props().clone();
        Ok((id, calls, log, p))
    });
    let (id, calls, log, p) = match res {
        Ok(Ok(x)) => x,
        Ok(Err(f)) => return Err(f),
        Err(crate::harness::codec::DriveFail::Panic(pn)) => fail!(format!("panic:{}", pn.class()), "process_request panicked: {} (rules {:?})", pn.msg, rules_dbg),
        Err(crate::harness::codec::DriveFail::Wedged) => fail!("wedged", "process_request did not finish (rules {:?})", rules_dbg),
    };
    let invoked: Vec<usize> = calls.iter().enumerate().filter(|(_, c)| !c.is_empty()).map(|(k, _)| k).collect();
    let ctxd = format!("rules={:?} request=({} {} -> {} {:?})", rules_dbg, props.listener, props.source, props.target, feature);
    match expected {
        Some(c) => {
            if invoked != vec![c] {
                let k = if invoked.is_empty() { "refused-instead-of-routed" } else { "wrong-connector" };
                fail!(
                    format!("{}:{}", k, if any_error { "erroring-filter-before" } else if decision.unwrap() > 0 { "later-rule" } else { "first-rule" }),
                    "expected connector c{} (rule #{}), connect() ran on {:?}; {}",
                    c,
                    decision.unwrap(),
                    invoked,
                    ctxd
                );
            }
            if calls[c] != vec![id] {
                fail!("connect-count", "connect() ran {} times for one request", calls[c].len());
            }
            if log.on_connect.load(Ordering::SeqCst) != 1 || log.on_error.load(Ordering::SeqCst) != 0 {
                fail!("callbacks:routed", "routed request saw on_connect={} on_error={}", log.on_connect.load(Ordering::SeqCst), log.on_error.load(Ordering::SeqCst));
            }
            if p.connector.as_deref() != Some(&format!("c{}", c)) {
                fail!("recorded-connector", "context records connector {:?}, c{} was used", p.connector, c);
            }
        }
        None => {
            if !invoked.is_empty() {
                fail!(
                    format!("routed-instead-of-refused:{}", why_refused),
                    "the request must be refused ({}), but connect() ran on {:?}; {}",
                    why_refused,
                    invoked,
                    ctxd
                );
            }
            if log.on_connect.load(Ordering::SeqCst) != 0 || log.on_error.load(Ordering::SeqCst) != 1 {
                fail!(
                    format!("callbacks:refused:{}", why_refused),
                    "refused request ({}) saw on_connect={} on_error={}",
                    why_refused,
                    log.on_connect.load(Ordering::SeqCst),
                    log.on_error.load(Ordering::SeqCst)
                );
            }
        }
    }
    info.class(if expected.is_some() { "routed".to_string() } else { format!("refused:{}", why_refused) });
    if any_error {
        info.class("erroring-filter-skipped");
    }
    info.nontrivial = decision.map(|d| d >= 1).unwrap_or(true) || any_error || why_refused == "feature";
    info.sample = Some(json!({"rules": rules_dbg, "request": format!("{} {} -> {} {:?}", props.listener, props.source, props.target, feature), "decision": decision, "expected": expected.map(|c| format!("c{}", c)).unwrap_or_else(|| format!("refused:{}", why_refused))}));
    let _ = p.state.last().map(|_| ContextState::Terminated);
    Ok(())
}

// ------------------------------------------------------------------ cidr_match law

#[derive(Clone, Debug, Serialize, Deserialize)]
pub struct CidrCase {
    pub v6: bool,
    pub net: [u8; 16],
    pub len: u8,
    /// 0 network-1, 1 first, 2 last, 3 last+1, 4 random inside, 5 random anywhere, 6 other family
    pub probe: u8,
    pub rnd: [u8; 16],
    pub canonical: bool,
    /// v6 only: 0 = anywhere, 1 = IPv4-mapped ::ffff:0:0/96, 2 = IPv4-compatible ::/96, 3 = NAT64 64:ff9b::/96
    /// (network and random probe are moved there; the other-family probe is then the embedded IPv4 address)
    #[serde(default)]
    pub region: u8,
}

fn eval_cidr(ip: &str, net: &str) -> Result<Result<Value, String>, crate::harness::util::Panicked> {
    let src = format!("cidr_match(\"{}\", \"{}\")", ip, net);
    catch(|| {
        let v = parse(&src).map_err(|e| e.to_string())?;
        let ctx: ScriptContextRef = Arc::new(create_context(Default::default()));
        v.real_value_of(ctx).map_err(|e| e.to_string())
    })
}

pub fn run_cidr(c: &CidrCase, info: &mut CaseInfo) -> Result<(), Failure> {
    use std::net::{IpAddr, Ipv4Addr, Ipv6Addr};
    let bits: u32 = if c.v6 { 128 } else { 32 };
    let len = (c.len as u32) % (bits + 1);
    let raw: u128 = if c.v6 { u128::from_be_bytes(c.net) } else { u32::from_be_bytes([c.net[0], c.net[1], c.net[2], c.net[3]]) as u128 };
    let region = c.region % 4;
    let place = |v: u128| -> u128 {
        if !c.v6 || region == 0 {
            return v;
        }
        let prefix: u128 = [0u128, 0xffffu128 << 32, 0, 0x0064_ff9bu128 << 96][region as usize];
        prefix | (v & 0xffff_ffff)
    };
    let raw = place(raw);
    let full: u128 = if c.v6 { !0u128 } else { 0xffff_ffff };
    let mask: u128 = if len == 0 { 0 } else { (full << (bits - len)) & full };
    let network = raw & mask;
    let net_val = if c.canonical { network } else { raw };
    let rnd: u128 = (if c.v6 { u128::from_be_bytes(c.rnd) } else { u32::from_be_bytes([c.rnd[0], c.rnd[1], c.rnd[2], c.rnd[3]]) as u128 }) & full;
    let rnd = place(rnd);
    let last = network | (!mask & full);
    let probe_val: Option<u128> = match c.probe % 7 {
        0 => network.checked_sub(1),
        1 => Some(network),
        2 => Some(last),
        3 => {
            if last == full {
                None
            } else {
                Some(last + 1)
            }
        }
        4 => Some(network | (rnd & !mask & full)),
        5 => Some(rnd),
        _ => None,
    };
    let fmt = |v: u128, v6: bool| -> String {
        if v6 {
            IpAddr::V6(Ipv6Addr::from(v)).to_string()
        } else {
            IpAddr::V4(Ipv4Addr::from(v as u32)).to_string()
        }
    };
    let (ip, other_family) = match probe_val {
        Some(v) => (fmt(v, c.v6), false),
        None => {
            // an address of the other family
            // (region != 0: the embedded / mapped form of an address inside the network, which plain
            // containment still keeps apart because the families differ)
            let inside = network | (rnd & !mask & full);
            match (c.v6, region) {
                (true, 0) => ("10.1.2.3".to_string(), true),
                (false, 0) => ("2001:db8::1".to_string(), true),
                (true, _) => (fmt(inside & 0xffff_ffff, false), true),
                (false, _) => (format!("::ffff:{}", fmt(inside, false)), true),
            }
        }
    };
    let net = format!("{}/{}", fmt(net_val, c.v6), len);
    let got = match eval_cidr(&ip, &net) {
        Ok(g) => g,
        Err(p) => fail!(format!("panic:cidr_match:{}", p.class()), "cidr_match({:?}, {:?}) panicked: {}", ip, net, p.msg),
    };
    let canonical = net_val == network;
    if !canonical {
        // host bits set: outside the law, must only not crash and yield a boolean or an error
        info.class("non-canonical");
        return Ok(());
    }
    let want = if other_family {
        false
    } else {
        let v = probe_val.unwrap();
        v & mask == network
    };
    // cross-check the harness' own helper
    if ref_cidr(&ip, &net) != Some(want) {
        fail!("harness-bug", "ref_cidr disagrees with the mask arithmetic for {} in {}", ip, net);
    }
    match got {
        Ok(Value::Boolean(b)) if b == want => {}
        other => fail!(
            format!("cidr-wrong:{}:{}", if c.v6 { "v6" } else { "v4" }, if other_family { "mixed-family" } else if len == 0 { "len0" } else if len == bits { "host" } else { "prefix" }),
            "cidr_match({:?}, {:?}) = {:?}, containment says {}",
            ip,
            net,
            other,
            want
        ),
    }
    if region != 0 {
        info.class(format!("{}-region-{}", if c.v6 { "v6" } else { "v4" }, ["any", "mapped", "compat", "nat64"][region as usize]));
    }
    info.class(format!("{}-{}", if c.v6 { "v6" } else { "v4" }, ["below", "first", "last", "above", "inside", "random", "other-family"][(c.probe % 7) as usize]));
    info.nontrivial = (c.probe % 7) != 5;
    info.sample = Some(json!({"ip": ip, "net": net, "want": want}));
    Ok(())
}

fn cidr_strategy() -> impl Strategy<Value = CidrCase> {
    (any::<bool>(), any::<[u8; 16]>(), any::<u8>(), 0u8..7, any::<[u8; 16]>(), prop::bool::weighted(0.9), prop_oneof![3 => Just(0u8), 2 => 1u8..4]).prop_map(|(v6, net, len, probe, rnd, canonical, region)| CidrCase {
        v6,
        net,
        len,
        probe,
        rnd,
        canonical,
        region,
    })
}

pub fn checks() -> Vec<Box<dyn SubCheck>> {
    vec![
        Box::new(vcore::PropCheck {
            property: "C02",
            name: "route",
            rule: "model check of the real process_request: rule lists of 0-7 rules (target deny or one of 1-5 recording connectors with generated feature sets; filterless rules; filters from an atom grammar over request.listener/target.host/.type/.port/source.host/feature, cidr_match, =~ on request.target/source, _:, true/false, and three kinds of erroring atoms, combined with && || !) x requests (3 listeners, v4/v6 sources, domain/v4/v6 targets, boundary ports, TCP or UDP feature); oracle: independent reference evaluation of each filter (error => no match) -> first matching rule -> exactly that connector's connect() ran once, context records it, client saw on_connect only; or refusal (deny / no rule / feature missing) => no connect() anywhere, client saw on_error only; non-trivial = decided by rule index >= 1, by fall-through, by a feature refusal, or with an erroring filter skipped",
            quick: 20_000,
            thorough: 400_000,
            max_shrink: 1500,
            strategy: case_strategy,
            case: run_case,
        }),
        Box::new(vcore::PropCheck {
            property: "C02",
            name: "cidr",
            rule: "cidr_match law: prefix lengths 0..32 / 0..128 x random networks (canonical; 10% with host bits set, judged only for not crashing) x probe address at network-1, first, last, last+1, inside, random, or of the other family; 40% of the cases in a special IPv6 region (IPv4-mapped ::ffff:0:0/96, IPv4-compatible ::/96, NAT64 64:ff9b::/96) with the embedded IPv4 address / the mapped form of an inside address as the other-family probe; oracle: own mask arithmetic on u32/u128, mixed family => false; non-trivial = boundary / inside / other-family probes",
            quick: 30_000,
            thorough: 1_000_000,
            max_shrink: 500,
            strategy: cidr_strategy,
            case: run_cidr,
        }),
    ]
}
