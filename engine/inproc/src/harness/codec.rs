//! Drivers that feed bytes (in a given segmentation) to each peer-facing decoder of the repository
//! and report what it parsed, what it wrote back, and which bytes it left unread.
use crate::common::frames::{frames_from_stream, Frame};
use crate::common::h11c::{h11c_connect, h11c_handshake};
use crate::common::http::{HttpRequest, HttpResponse};
use crate::common::socks::{frames::decode_socks_frame, NoAuth, PasswordAuth, SocksRequest, SocksResponse};
use crate::context::{make_buffered_stream, ContextRef, Feature, GlobalState as Contexts, IOBufStream, TargetAddress};
use crate::harness::util::{catch, write_segments, Panicked};
use bytes::Bytes;
use serde::{Deserialize, Serialize};
use std::net::SocketAddr;
use std::sync::Arc;
use tokio::io::{AsyncReadExt, AsyncWriteExt};
use vcore::refcodec::{Dest, Host};

#[derive(Clone, Copy, Debug, PartialEq, Eq, Hash, Serialize, Deserialize)]
pub enum Decoder {
    HttpReq,
    HttpResp,
    /// SocksRequest::read_from with PasswordAuth{required}
    SocksReq { required: bool },
    SocksResp,
    /// frames_from_stream reader: reads frames until EOF / error
    Rpfm,
    /// the listener-side handshake (HTTP CONNECT over any stream)
    H11cHandshake,
    /// the connector-side handshake against a scripted upstream; `udp` selects the Proxy-Protocol: udp branch
    H11cConnect { udp: bool },
    /// SocksRequest::write_to (connector side, the bytes are the server's replies) followed by SocksResponse::read_from
    SocksClient { v5: bool, auth: bool },
    /// decode_socks_frame on one datagram
    SocksUdp,
    /// Frame::from_buffer on one buffer
    FrameBuf,
}

/// the decoder table shared with the libFuzzer target (/verif/fuzz): byte 0 of a fuzz input indexes it
pub const FUZZ_DECODERS: &[Decoder] = &[
    Decoder::HttpReq,
    Decoder::HttpResp,
    Decoder::SocksReq { required: false },
    Decoder::SocksReq { required: true },
    Decoder::SocksResp,
    Decoder::Rpfm,
    Decoder::H11cHandshake,
    Decoder::H11cConnect { udp: false },
    Decoder::H11cConnect { udp: true },
    Decoder::SocksClient { v5: true, auth: false },
    Decoder::SocksClient { v5: true, auth: true },
    Decoder::SocksClient { v5: false, auth: false },
    Decoder::SocksUdp,
    Decoder::FrameBuf,
];

#[derive(Clone, Debug, Default, PartialEq, Eq)]
pub struct Outcome {
    /// Debug rendering of what was parsed (None = the decoder returned an error / clean EOF)
    pub parsed: Option<String>,
    pub err: Option<String>,
    /// destination extracted from the parsed message, if it has one
    pub dest: Option<Dest>,
    /// bytes left unread on the stream after the message
    pub rest: Vec<u8>,
    /// bytes the decoder wrote back to its peer
    pub writes: Vec<u8>,
    /// number of RPFM frames parsed
    pub frames: usize,
    pub extra: Vec<String>,
}

pub fn dest_of(t: &TargetAddress) -> Option<Dest> {
    match t {
        TargetAddress::DomainPort(h, p) => Some(Dest {
            host: Host::Name(h.as_bytes().to_vec()),
            port: *p,
        }),
        TargetAddress::SocketAddr(SocketAddr::V4(a)) => Some(Dest {
            host: Host::V4(a.ip().octets()),
            port: a.port(),
        }),
        TargetAddress::SocketAddr(SocketAddr::V6(a)) => Some(Dest {
            host: Host::V6(a.ip().octets()),
            port: a.port(),
        }),
        TargetAddress::Unknown => None,
    }
}

pub fn target_of(d: &Dest) -> Option<TargetAddress> {
    Some(match &d.host {
        Host::Name(n) => TargetAddress::DomainPort(String::from_utf8(n.clone()).ok()?, d.port),
        Host::V4(a) => TargetAddress::from((u32::from_be_bytes(*a), d.port)),
        Host::V6(a) => TargetAddress::from((*a, d.port)),
    })
}

async fn read_rest(s: &mut IOBufStream) -> Vec<u8> {
    let mut rest = vec![];
    let _ = s.read_to_end(&mut rest).await;
    rest
}

pub fn test_source() -> SocketAddr {
    "192.0.2.7:40000".parse().unwrap()
}

pub async fn new_ctx(contexts: &Arc<Contexts>, listener: &str, source: SocketAddr) -> ContextRef {
    contexts.create_context(listener.to_string(), source).await
}

/// What the connector-side drivers ask for.
#[derive(Clone, Debug, Serialize, Deserialize)]
pub struct ClientReq {
    pub dest: Dest,
}

/// Run one decoder over `input`, delivered to it in the segments given by `cuts`, then EOF.
/// `req` is the destination the connector-side drivers request.
pub async fn drive(dec: Decoder, input: &[u8], cuts: &[usize], req: Option<&Dest>) -> Outcome {
    let mut out = Outcome::default();
    match dec {
        Decoder::SocksUdp => {
            let f = Frame::from_body(Bytes::from(input.to_vec()));
            match decode_socks_frame(f) {
                Ok(f) => {
                    out.parsed = Some(format!("{:?}", f));
                    out.dest = f.addr.as_ref().and_then(dest_of);
                    out.rest = f.body.to_vec();
                }
                Err(e) => out.err = Some(e.to_string()),
            }
            return out;
        }
        Decoder::FrameBuf => {
            match Frame::from_buffer(Bytes::from(input.to_vec())) {
                Ok(f) => {
                    out.parsed = Some(format!("{:?}", f));
                    out.dest = f.addr.as_ref().and_then(dest_of);
                    out.rest = f.body.to_vec();
                    out.extra.push(format!("session={}", f.session_id));
                }
                Err(e) => out.err = Some(e.to_string()),
            }
            return out;
        }
        _ => {}
    }
    let (near, far) = tokio::io::duplex(1 << 20);
    let (mut far_r, mut far_w) = tokio::io::split(far);
    let data = input.to_vec();
    let cuts = cuts.to_vec();
    let writer = tokio::spawn(async move {
        let _ = write_segments(&mut far_w, &data, &cuts).await;
        let _ = far_w.shutdown().await;
    });
    let collector = tokio::spawn(async move {
        let mut w = vec![];
        let _ = far_r.read_to_end(&mut w).await;
        w
    });
    let mut stream = make_buffered_stream(near);
    match dec {
        Decoder::HttpReq => match HttpRequest::read_from(&mut stream).await {
            Ok(r) => {
                out.parsed = Some(format!("{:?}", r));
                out.rest = read_rest(&mut stream).await;
            }
            Err(e) => out.err = Some(e.to_string()),
        },
        Decoder::HttpResp => match HttpResponse::read_from(&mut stream).await {
            Ok(r) => {
                out.parsed = Some(format!("{:?}", r));
                out.rest = read_rest(&mut stream).await;
            }
            Err(e) => out.err = Some(e.to_string()),
        },
        Decoder::SocksReq { required } => {
            match SocksRequest::read_from(&mut stream, PasswordAuth { required }).await {
                Ok(r) => {
                    out.parsed = Some(format!("{:?}", r));
                    out.dest = dest_of(&r.target);
                    out.extra.push(format!("cmd={} ver={} auth={:?}", r.cmd, r.version, r.auth));
                    out.rest = read_rest(&mut stream).await;
                }
                Err(e) => out.err = Some(e.to_string()),
            }
        }
        Decoder::SocksResp => match SocksResponse::read_from(&mut stream).await {
            Ok(r) => {
                out.parsed = Some(format!("{:?}", r));
                out.dest = dest_of(&r.target);
                out.rest = read_rest(&mut stream).await;
            }
            Err(e) => out.err = Some(e.to_string()),
        },
        Decoder::Rpfm => {
            let (mut r, _w) = frames_from_stream(7, stream);
            let mut reprs = vec![];
            loop {
                match r.read().await {
                    Ok(Some(f)) => {
                        out.frames += 1;
                        reprs.push(format!("{:?}", f));
                    }
                    Ok(None) => break,
                    Err(e) => {
                        out.err = Some(e.to_string());
                        break;
                    }
                }
            }
            out.parsed = Some(reprs.join("\n"));
            drop(_w);
            drop(r);
            writer.abort();
            let _ = writer.await;
            out.writes = collector.await.unwrap_or_default();
            return out;
        }
        Decoder::H11cHandshake => {
            let contexts: Arc<Contexts> = Default::default();
            let ctx = new_ctx(&contexts, "l", test_source()).await;
            ctx.write().await.set_client_stream(stream);
            let (tx, mut rx) = tokio::sync::mpsc::channel(4);
            let r = h11c_handshake(ctx.clone(), tx, |_, _| async { easy_error::bail!("not supported") }).await;
            match r {
                Ok(()) => {
                    let c = rx.recv().await;
                    let mut g = ctx.write().await;
                    out.parsed = Some(format!("target={:?} feature={:?}", g.target(), g.feature()));
                    out.dest = dest_of(&g.target());
                    out.extra.push(format!("queued={}", c.is_some()));
                    let mut s = g.take_client_stream();
                    drop(g);
                    out.rest = read_rest(&mut s).await;
                    drop(s);
                }
                Err(e) => {
                    out.err = Some(e.to_string());
                    // release the stream so that the collector sees EOF
                    let mut g = ctx.write().await;
                    if g.borrow_client_stream().is_some() {
                        let mut s = g.take_client_stream();
                        let _ = s.flush().await;
                        drop(s);
                    }
                }
            }
            drop(ctx);
            writer.abort();
            let _ = writer.await;
            out.writes = collector.await.unwrap_or_default();
            return out;
        }
        Decoder::H11cConnect { udp } => {
            let contexts: Arc<Contexts> = Default::default();
            let ctx = new_ctx(&contexts, "l", test_source()).await;
            let want = req.cloned().unwrap_or(Dest::name("example.com", 80));
            match target_of(&want) {
                Some(t) => {
                    ctx.write().await.set_target(t);
                }
                None => {
                    out.err = Some("unrepresentable target".into());
                    return out;
                }
            }
            if udp {
                ctx.write().await.set_feature(Feature::UdpForward);
            }
            let local: SocketAddr = "127.0.0.1:1".parse().unwrap();
            let remote: SocketAddr = "127.0.0.1:2".parse().unwrap();
            let r = h11c_connect(stream, ctx.clone(), local, remote, "inline", |_| async {
                panic!("frame_fn must not be called for the inline channel")
            })
            .await;
            match r {
                Ok(()) => {
                    out.parsed = Some("connected".into());
                    let mut g = ctx.write().await;
                    if !udp {
                        // server stream was stored; fetch it back through take_streams
                        let (near2, _far2) = tokio::io::duplex(16);
                        g.set_client_stream(make_buffered_stream(near2));
                        if let Some((_c, mut s)) = g.take_streams() {
                            drop(g);
                            out.rest = read_rest(&mut s).await;
                        }
                    }
                }
                Err(e) => out.err = Some(e.to_string()),
            }
            drop(ctx);
            writer.abort();
            let _ = writer.await;
            out.writes = collector.await.unwrap_or_default();
            return out;
        }
        Decoder::SocksClient { v5, auth } => {
            let want = req.cloned().unwrap_or(Dest::name("example.com", 80));
            let target = match target_of(&want) {
                Some(t) => t,
                None => {
                    out.err = Some("unrepresentable target".into());
                    return out;
                }
            };
            let rq = SocksRequest {
                version: if v5 { 5 } else { 4 },
                cmd: 1,
                target,
                auth: if auth { Some(("user".to_string(), "pass".to_string())) } else { None },
            };
            match rq.write_to(&mut stream, PasswordAuth::optional()).await {
                Ok(()) => match SocksResponse::read_from(&mut stream).await {
                    Ok(r) => {
                        out.parsed = Some(format!("{:?}", r));
                        out.dest = dest_of(&r.target);
                        out.extra.push(format!("rep={}", r.cmd));
                        out.rest = read_rest(&mut stream).await;
                    }
                    Err(e) => out.err = Some(format!("read: {}", e)),
                },
                Err(e) => out.err = Some(format!("write: {}", e)),
            }
        }
        Decoder::SocksUdp | Decoder::FrameBuf => unreachable!(),
    }
    let _ = stream.flush().await;
    drop(stream);
    writer.abort();
    let _ = writer.await;
    out.writes = collector.await.unwrap_or_default();
    out
}

/// Run an async case body on a fresh runtime with panic capture and a 30 s backstop.
pub fn run_async<T>(fut: impl std::future::Future<Output = T>) -> Result<T, DriveFail> {
    let r = catch(|| {
        crate::harness::util::block_on(async { tokio::time::timeout(std::time::Duration::from_secs(30), fut).await })
    });
    match r {
        Ok(Ok(o)) => {
            if let Some(p) = crate::harness::util::take_global_panic() {
                return Err(DriveFail::Panic(p));
            }
            Ok(o)
        }
        Ok(Err(_)) => Err(DriveFail::Wedged),
        Err(p) => Err(DriveFail::Panic(p)),
    }
}

/// Synchronous wrapper: fresh runtime, panic capture, 20 s backstop (a decoder that does not
/// terminate on finite input followed by EOF is a wedge).
pub fn drive_sync(dec: Decoder, input: &[u8], cuts: &[usize], req: Option<&Dest>) -> Result<Outcome, DriveFail> {
    let r = catch(|| {
        crate::harness::util::block_on(async {
            tokio::time::timeout(std::time::Duration::from_secs(20), drive(dec, input, cuts, req)).await
        })
    });
    match r {
        Ok(Ok(o)) => {
            // a panic inside a spawned task does not unwind into us
            if let Some(p) = crate::harness::util::take_global_panic() {
                return Err(DriveFail::Panic(p));
            }
            Ok(o)
        }
        Ok(Err(_)) => Err(DriveFail::Wedged),
        Err(p) => Err(DriveFail::Panic(p)),
    }
}

#[derive(Debug)]
pub enum DriveFail {
    Panic(Panicked),
    Wedged,
}
