//! In-process tunnel cases over the mini-proxy with owned I/O schedules:
//!   C01(a) byte-stream fidelity, C04(a) end-of-stream / abort relay, C16(b) state log and counters.
use crate::common::h11c::{h11c_connect, h11c_handshake};
use crate::connectors::Connector;
use crate::context::{make_buffered_stream, ContextRef, ContextRefOps, Feature, TargetAddress};
use crate::harness::util::{catch, sel, Sched, Scripted};
use crate::GlobalState;
use async_trait::async_trait;
use easy_error::Error;
use proptest::prelude::*;
use serde::{Deserialize, Serialize};
use serde_json::json;
use std::sync::{Arc, Mutex};
use tokio::io::{AsyncReadExt, AsyncWriteExt, DuplexStream};
use vcore::refcodec as rc;
use vcore::{CaseInfo, Failure, SubCheck};

#[derive(Clone, Debug, Serialize, Deserialize)]
pub struct Tunnel {
    pub tag: u64,
    pub c2s_len: u32,
    pub s2c_len: u32,
    /// bytes of the c2s payload glued to the CONNECT head (same segment)
    pub early: u16,
    /// bytes of the s2c payload glued behind the upstream's 200 reply (ViaHttp only)
    pub server_early: u16,
    pub client_chunks: Vec<u16>,
    pub origin_chunks: Vec<u16>,
    /// yields between chunks (pause pattern)
    pub client_pauses: Vec<u8>,
    pub origin_pauses: Vec<u8>,
    pub client_sched: Sched,
    pub server_sched: Sched,
    pub cap_c: u32,
    pub cap_s: u32,
    /// true: the writer half-closes right after its last byte; false: it closes only after it has seen the peer's EOF
    pub client_closes_eagerly: bool,
    pub origin_closes_eagerly: bool,
    /// 0 http listener + direct, 1 reverse listener + direct, 2 http listener + http upstream, 3 reverse + http upstream
    pub path: u8,
    /// injected fault on a proxy-side stream: (0 none, 1 client read, 2 server read, 3 client write, 4 server write, offset)
    pub fault: (u8, u32),
}

#[derive(Clone, Debug, Serialize, Deserialize)]
pub struct Case {
    pub buffer_sel: u8,
    pub tunnels: Vec<Tunnel>,
}

pub const BUFFER_SIZES: &[usize] = &[1, 2, 7, 512, 4096, 65536];

fn sched_strategy() -> impl Strategy<Value = Sched> {
    (
        prop_oneof![2 => Just(vec![]), 1 => Just(vec![1u16]), 2 => prop::collection::vec(prop_oneof![Just(1u16), 1u16..9, 1u16..5000], 1..5)],
        prop_oneof![2 => Just(vec![]), 1 => Just(vec![1u16]), 2 => prop::collection::vec(prop_oneof![Just(1u16), 1u16..9, 1u16..5000], 1..5)],
        prop_oneof![2 => Just(vec![]), 2 => prop::collection::vec(any::<bool>(), 1..6)],
    )
        .prop_map(|(reads, writes, pend)| Sched { reads, writes, pend })
}

fn len_strategy() -> impl Strategy<Value = u32> {
    prop_oneof![
        2 => Just(0u32),
        2 => 1u32..8,
        3 => 1u32..600,
        2 => prop_oneof![Just(511u32), Just(512), Just(513), Just(4095), Just(4096), Just(4097), Just(65535), Just(65536), Just(65537)],
        2 => 1u32..200_000,
        1 => 200_000u32..1_048_576,
    ]
}

fn tunnel_strategy() -> impl Strategy<Value = Tunnel> {
    let chunks = || prop_oneof![1 => Just(vec![]), 2 => prop::collection::vec(prop_oneof![Just(1u16), 1u16..64, 1u16..20000], 1..5)];
    let pauses = || prop::collection::vec(0u8..4, 0..4);
    (
        (any::<u64>(), len_strategy(), len_strategy(), prop_oneof![2 => Just(0u16), 1 => Just(1u16), 2 => 1u16..600, 1 => any::<u16>()], prop_oneof![2 => Just(0u16), 2 => 1u16..600]),
        (chunks(), chunks(), pauses(), pauses()),
        (sched_strategy(), sched_strategy()),
        (
            prop_oneof![1 => 1u32..8, 1 => 8u32..200, 2 => Just(65536u32)],
            prop_oneof![1 => 1u32..8, 1 => 8u32..200, 2 => Just(65536u32)],
            any::<bool>(),
            any::<bool>(),
            0u8..4,
            prop_oneof![4 => Just((0u8, 0u32)), 1 => (1u8..5, prop_oneof![Just(0u32), 0u32..2000, 0u32..100_000])],
        ),
    )
        .prop_map(|((tag, c2s_len, s2c_len, early, server_early), (client_chunks, origin_chunks, client_pauses, origin_pauses), (client_sched, server_sched), (cap_c, cap_s, ce, oe, path, fault))| Tunnel {
            tag,
            c2s_len,
            s2c_len,
            early,
            server_early,
            client_chunks,
            origin_chunks,
            client_pauses,
            origin_pauses,
            client_sched,
            server_sched,
            cap_c,
            cap_s,
            client_closes_eagerly: ce,
            origin_closes_eagerly: oe,
            path,
            fault,
        })
}

pub fn case_strategy() -> impl Strategy<Value = Case> {
    (any::<u8>(), prop::collection::vec(tunnel_strategy(), 1..4)).prop_map(|(buffer_sel, tunnels)| Case { buffer_sel, tunnels })
}

/// A connector that hands out a prepared in-memory upstream, optionally speaking the real h11c_connect.
pub struct PreparedConnector {
    pub name: String,
    pub near: Mutex<Option<Scripted<DuplexStream>>>,
    pub via_http: bool,
    pub calls: Mutex<u32>,
}

#[async_trait]
impl Connector for PreparedConnector {
    fn name(&self) -> &str {
        &self.name
    }
    fn features(&self) -> &[Feature] {
        &[Feature::TcpForward]
    }
    async fn connect(self: Arc<Self>, _state: Arc<GlobalState>, ctx: ContextRef) -> Result<(), Error> {
        *self.calls.lock().unwrap() += 1;
        let near = self.near.lock().unwrap().take().ok_or_else(|| easy_error::err_msg("harness: connector used twice"))?;
        let local = "127.0.0.1:1".parse().unwrap();
        let remote = "127.0.0.1:2".parse().unwrap();
        if self.via_http {
            h11c_connect(make_buffered_stream(near), ctx, local, remote, "inline", |_| async { panic!("not inline") }).await
        } else {
            ctx.write().await.set_server_stream(make_buffered_stream(near)).set_local_addr(local).set_server_addr(remote);
            Ok(())
        }
    }
}

#[derive(Debug, Default, Clone)]
pub struct TunnelReport {
    pub origin_got: Vec<u8>,
    pub client_got: Vec<u8>,
    pub client_head: Option<Vec<u8>>,
    pub origin_head_ok: bool,
    pub origin_saw_eof: bool,
    pub client_saw_eof: bool,
    /// the sender of c2s finished writing before the origin saw EOF, etc. (ordering witnesses)
    pub client_write_err: bool,
    pub origin_write_err: bool,
    pub states: Vec<String>,
    pub error: Option<String>,
    pub client_bytes: u64,
    pub server_bytes: u64,
    pub connector: Option<String>,
    pub listed_alive_during: bool,
    pub shutdown_client: usize,
    pub shutdown_server: usize,
}

async fn pump_out(mut w: tokio::io::WriteHalf<DuplexStream>, first: Vec<u8>, data: Vec<u8>, chunks: Vec<u16>, pauses: Vec<u8>, eager_close: bool, peer_eof: tokio::sync::watch::Receiver<bool>) -> bool {
    let mut err = false;
    if !first.is_empty() {
        if w.write_all(&first).await.is_err() {
            return true;
        }
    }
    let mut pos = 0usize;
    let mut i = 0usize;
    while pos < data.len() {
        let n = if chunks.is_empty() { data.len() - pos } else { (chunks[i % chunks.len()] as usize).max(1).min(data.len() - pos) };
        if w.write_all(&data[pos..pos + n]).await.is_err() {
            err = true;
            break;
        }
        pos += n;
        let p = if pauses.is_empty() { 0 } else { pauses[i % pauses.len()] };
        for _ in 0..p {
            tokio::task::yield_now().await;
        }
        i += 1;
    }
    if !eager_close && !err {
        let mut rx = peer_eof;
        while !*rx.borrow() {
            if rx.changed().await.is_err() {
                break;
            }
        }
    }
    let _ = w.shutdown().await;
    err
}

async fn pump_in(mut r: tokio::io::ReadHalf<DuplexStream>, eof: tokio::sync::watch::Sender<bool>) -> (Vec<u8>, bool) {
    let mut out = vec![];
    let mut buf = vec![0u8; 8192];
    let saw_eof = loop {
        match r.read(&mut buf).await {
            Ok(0) => break true,
            Ok(n) => out.extend_from_slice(&buf[..n]),
            Err(_) => break false,
        }
    };
    let _ = eof.send(true);
    (out, saw_eof)
}

fn payloads(t: &Tunnel) -> (Vec<u8>, Vec<u8>) {
    (vcore::payload(t.tag, t.c2s_len as usize), vcore::payload(t.tag ^ 0xdead_beef_0bad_f00d, t.s2c_len as usize))
}

pub async fn run_tunnels(case: Case) -> Result<Vec<TunnelReport>, Failure> {
    let buffer_size = BUFFER_SIZES[case.buffer_sel as usize % BUFFER_SIZES.len()];
    let n = case.tunnels.len();
    // state
    let mut state: GlobalState = Default::default();
    let mut far_servers = vec![];
    let mut conns: Vec<Arc<PreparedConnector>> = vec![];
    let mut shutdown_counters = vec![];
    for (k, t) in case.tunnels.iter().enumerate() {
        let (near, far) = tokio::io::duplex(t.cap_s.max(1) as usize);
        let mut s = Scripted::new(near, t.server_sched.clone());
        match t.fault.0 {
            2 => s.fail_read_at = Some(t.fault.1 as usize),
            4 => s.fail_write_at = Some(t.fault.1 as usize),
            _ => {}
        }
        shutdown_counters.push(s.shutdown_seen.clone());
        let c = Arc::new(PreparedConnector {
            name: format!("c{}", k),
            near: Mutex::new(Some(s)),
            via_http: t.path >= 2,
            calls: Mutex::new(0),
        });
        state.connectors.insert(c.name.clone(), c.clone() as Arc<dyn Connector>);
        conns.push(c);
        far_servers.push(far);
    }
    {
        let ctxs = Arc::get_mut(&mut state.contexts).unwrap();
        ctxs.history_size = 100;
        ctxs.default_timeout = 600;
    }
    state.io_params.buffer_size = buffer_size;
    state.io_params.use_splice = false;
    let mut rules = vec![];
    for k in 0..n {
        rules.push(crate::harness::mini::rule_from(&format!("c{}", k), Some(&format!("request.target.host == \"t{}.test\"", k))).map_err(|e| Failure::new("harness", e))?);
    }
    state.set_rules(rules).await.map_err(|e| Failure::new("harness", e.to_string()))?;
    let state = Arc::new(state);
    let (tx, mut rx) = tokio::sync::mpsc::channel::<ContextRef>(16);
    // the main loop of the proxy
    let st2 = state.clone();
    let main_loop = tokio::spawn(async move {
        let mut hs = vec![];
        while let Some(ctx) = rx.recv().await {
            hs.push(tokio::spawn(crate::process_request(ctx, st2.clone())));
        }
        for h in hs {
            let _ = h.await;
        }
    });

    let mut tasks = vec![];
    for (k, (t, far_server)) in case.tunnels.iter().cloned().zip(far_servers.into_iter()).enumerate() {
        let state = state.clone();
        let tx = tx.clone();
        let srv_shutdown = shutdown_counters[k].clone();
        let conn = conns[k].clone();
        tasks.push(tokio::spawn(async move {
            let (c2s, s2c) = payloads(&t);
            let http_listener = t.path % 2 == 0;
            let via_http = t.path >= 2;
            let early = if http_listener { (t.early as usize).min(c2s.len()) } else { 0 };
            let server_early = if via_http { (t.server_early as usize).min(s2c.len()) } else { 0 };
            // ---- client side
            let (near_c, far_c) = tokio::io::duplex(t.cap_c.max(1) as usize);
            let mut cs = Scripted::new(near_c, t.client_sched.clone());
            match t.fault.0 {
                1 => cs.fail_read_at = Some(t.fault.1 as usize + if http_listener { 64 } else { 0 }),
                3 => cs.fail_write_at = Some(t.fault.1 as usize + if http_listener { 64 } else { 0 }),
                _ => {}
            }
            let cli_shutdown = cs.shutdown_seen.clone();
            let source: std::net::SocketAddr = format!("192.0.2.1:{}", 1000 + k).parse().unwrap();
            let ctx = state.contexts.create_context(if http_listener { "http".into() } else { "reverse".into() }, source).await;
            let target = TargetAddress::DomainPort(format!("t{}.test", k), 80);
            let head: Vec<u8> = if http_listener {
                let t = format!("t{}.test:80", k).into_bytes();
                rc::encode_connect(&t, &[(b"Host".to_vec(), t.clone())])
            } else {
                vec![]
            };
            ctx.write().await.set_client_stream(make_buffered_stream(cs));
            let id = ctx.read().await.props().id;
            // far-end tasks (full duplex)
            let (cr, cw) = tokio::io::split(far_c);
            let (sr, sw) = tokio::io::split(far_server);
            let (c_eof_tx, c_eof_rx) = tokio::sync::watch::channel(false);
            let (s_eof_tx, s_eof_rx) = tokio::sync::watch::channel(false);
            let mut first = head.clone();
            first.extend_from_slice(&c2s[..early]);
            let client_writer = tokio::spawn(pump_out(cw, first, c2s[early..].to_vec(), t.client_chunks.clone(), t.client_pauses.clone(), t.client_closes_eagerly, c_eof_rx));
            let client_reader = tokio::spawn(pump_in(cr, c_eof_tx));
            // origin: for the http upstream the writer first waits for the CONNECT head
            let (head_tx, head_rx) = tokio::sync::oneshot::channel::<()>();
            let origin_reader = tokio::spawn(async move {
                let mut sr = sr;
                let mut got = vec![];
                let mut head_ok = !via_http;
                let mut head_tx = Some(head_tx);
                let mut buf = vec![0u8; 8192];
                let mut saw_eof = false;
                loop {
                    if via_http && !head_ok {
                        if let Some(h) = rc::parse_http_head(&got, false) {
                            head_ok = true;
                            got.drain(..h.consumed);
                            if let Some(tx) = head_tx.take() {
                                let _ = tx.send(());
                            }
                            continue;
                        }
                    }
                    match sr.read(&mut buf).await {
                        Ok(0) => {
                            saw_eof = true;
                            break;
                        }
                        Ok(n) => got.extend_from_slice(&buf[..n]),
                        Err(_) => break,
                    }
                }
                if via_http && !head_ok {
                    if let Some(h) = rc::parse_http_head(&got, false) {
                        head_ok = true;
                        got.drain(..h.consumed);
                    }
                }
                drop(head_tx);
                let _ = s_eof_tx.send(true);
                (got, saw_eof, head_ok)
            });
            let s2c2 = s2c.clone();
            let tt = t.clone();
            let origin_writer = tokio::spawn(async move {
                let mut first = vec![];
                if via_http {
                    if head_rx.await.is_err() {
                        // the proxy never sent a request head
                        let mut sw = sw;
                        let _ = sw.shutdown().await;
                        return true;
                    }
                    first = b"HTTP/1.1 200 OK\r\n\r\n".to_vec();
                    first.extend_from_slice(&s2c2[..server_early]);
                }
                pump_out(sw, first, s2c2[server_early..].to_vec(), tt.origin_chunks.clone(), tt.origin_pauses.clone(), tt.origin_closes_eagerly, s_eof_rx).await
            });
            // ---- the listener part
            let mut alive_during = false;
            if http_listener {
                let r = h11c_handshake(ctx.clone(), tx.clone(), |_, _| async { easy_error::bail!("not supported") }).await;
                if r.is_err() {
                    // handshake failed (e.g. injected fault inside the head): the context is dropped
                }
            } else {
                ctx.write().await.set_target(target);
                let _ = ctx.clone().enqueue(&tx).await;
            }
            if state.contexts.alive.lock().await.contains_key(&id) {
                alive_during = true;
            }
            drop(ctx);
            let client_write_err = client_writer.await.unwrap_or(true);
            let (client_got, client_saw_eof) = client_reader.await.unwrap_or_default();
            // a connector that was never reached still holds its end of the upstream pipe: release it
            if *conn.calls.lock().unwrap() == 0 {
                drop(conn.near.lock().unwrap().take());
            }
            let (origin_got, origin_saw_eof, origin_head_ok) = origin_reader.await.unwrap_or_default();
            let origin_write_err = origin_writer.await.unwrap_or(true);
            // the final record is what the dropped context hands to the collector (gc_list)
            let mut p = None;
            for _ in 0..20_000 {
                if let Some(x) = state.contexts.gc_list.lock().unwrap().iter().find(|x| x.id == id) {
                    p = Some(x.clone());
                    break;
                }
                tokio::task::yield_now().await;
            }
            let p = match p {
                Some(p) => p,
                None => Arc::new(crate::context::ContextProps { id, ..Default::default() }),
            };
            let j = serde_json::to_value(&*p).unwrap_or_default();
            let (client_head, client_payload) = if http_listener {
                match rc::parse_http_head(&client_got, true) {
                    Some(h) => (Some(client_got[..h.consumed].to_vec()), client_got[h.consumed..].to_vec()),
                    None => (None, client_got.clone()),
                }
            } else {
                (Some(vec![]), client_got.clone())
            };
            TunnelReport {
                origin_got,
                client_got: client_payload,
                client_head,
                origin_head_ok,
                origin_saw_eof,
                client_saw_eof,
                client_write_err,
                origin_write_err,
                states: p.state.iter().map(|s| serde_json::to_value(s).ok().and_then(|v| v["state"].as_str().map(|x| x.to_string())).unwrap_or_default()).collect(),
                error: p.error.clone(),
                client_bytes: j["client_stat"]["read_bytes"].as_u64().unwrap_or(u64::MAX),
                server_bytes: j["server_stat"]["read_bytes"].as_u64().unwrap_or(u64::MAX),
                connector: p.connector.clone(),
                listed_alive_during: alive_during,
                shutdown_client: cli_shutdown.load(std::sync::atomic::Ordering::Relaxed),
                shutdown_server: srv_shutdown.load(std::sync::atomic::Ordering::Relaxed),
            }
        }));
    }
    drop(tx);
    let mut reports = vec![];
    for t in tasks {
        reports.push(t.await.map_err(|e| Failure::new("panic:tunnel-task", e.to_string()))?);
    }
    let _ = main_loop.await;
    Ok(reports)
}

#[derive(Clone, Copy, PartialEq, Eq)]
pub enum Aspect {
    Fidelity,
    Close,
    Account,
}

fn first_diff(a: &[u8], b: &[u8]) -> usize {
    a.iter().zip(b.iter()).position(|(x, y)| x != y).unwrap_or(a.len().min(b.len()))
}

pub fn judge(case: &Case, reports: &[TunnelReport], aspect: Aspect, info: &mut CaseInfo) -> Result<(), Failure> {
    let buffer_size = BUFFER_SIZES[case.buffer_sel as usize % BUFFER_SIZES.len()];
    let mut nontrivial = false;
    for (k, (t, r)) in case.tunnels.iter().zip(reports.iter()).enumerate() {
        let (c2s, s2c) = payloads(t);
        let http_listener = t.path % 2 == 0;
        let faulted = t.fault.0 != 0;
        let shape = format!(
            "{}{}{}",
            if t.early > 0 && http_listener && !c2s.is_empty() { "early+" } else { "" },
            if t.server_early > 0 && t.path >= 2 && !s2c.is_empty() { "server-early+" } else { "" },
            ["http-direct", "reverse-direct", "http-http", "reverse-http"][t.path as usize % 4]
        );
        let established = r.states.iter().any(|s| s == "Connected");
        if !faulted {
            match aspect {
                Aspect::Fidelity => {
                    if http_listener {
                        match &r.client_head {
                            Some(h) if rc::parse_http_head(h, true).map(|x| x.start.1 == b"200").unwrap_or(false) => {}
                            other => {
                                return Err(Failure::new(
                                    format!("no-200:{}", shape),
                                    format!("tunnel {}: the client did not get a 200 head: {:?}", k, other.as_ref().map(|h| String::from_utf8_lossy(h).to_string())),
                                ))
                            }
                        }
                    }
                    if r.origin_got != c2s {
                        let d = first_diff(&r.origin_got, &c2s);
                        let kind = if r.origin_got.len() < c2s.len() && d == r.origin_got.len() {
                            "c2s-truncated"
                        } else if r.origin_got.len() > c2s.len() && d == c2s.len() {
                            "c2s-extra-bytes"
                        } else {
                            "c2s-corrupted"
                        };
                        return Err(Failure::new(
                            format!("{}:{}", kind, shape),
                            format!(
                                "tunnel {} (bufferSize {}): origin received {} bytes, client sent {} (first difference at offset {}, early data {} bytes)",
                                k,
                                buffer_size,
                                r.origin_got.len(),
                                c2s.len(),
                                d,
                                (t.early as usize).min(c2s.len())
                            ),
                        ));
                    }
                    if r.client_got != s2c {
                        let d = first_diff(&r.client_got, &s2c);
                        let kind = if r.client_got.len() < s2c.len() && d == r.client_got.len() {
                            "s2c-truncated"
                        } else if r.client_got.len() > s2c.len() && d == s2c.len() {
                            "s2c-extra-bytes"
                        } else {
                            "s2c-corrupted"
                        };
                        return Err(Failure::new(
                            format!("{}:{}", kind, shape),
                            format!(
                                "tunnel {} (bufferSize {}): client received {} payload bytes, origin sent {} (first difference at offset {})",
                                k,
                                buffer_size,
                                r.client_got.len(),
                                s2c.len(),
                                d
                            ),
                        ));
                    }
                }
                Aspect::Close => {
                    // every byte sent before the EOF arrived (checked by Fidelity too), both ends saw EOF, and
                    // the connection is recorded as finished
                    if !r.origin_saw_eof || !r.client_saw_eof {
                        return Err(Failure::new(
                            format!("no-eof:{}:{}", if !r.origin_saw_eof { "origin" } else { "client" }, shape),
                            format!("tunnel {}: after both senders finished, origin_saw_eof={} client_saw_eof={}", k, r.origin_saw_eof, r.client_saw_eof),
                        ));
                    }
                    if r.origin_got.len() != c2s.len() || r.client_got.len() != s2c.len() {
                        let which = if r.origin_got.len() != c2s.len() { "c2s" } else { "s2c" };
                        return Err(Failure::new(
                            format!("eof-before-all-bytes:{}:{}", which, shape),
                            format!(
                                "tunnel {}: end of stream reached the receiver after {} of {} c2s bytes / {} of {} s2c bytes (client closes eagerly={}, origin closes eagerly={})",
                                k,
                                r.origin_got.len(),
                                c2s.len(),
                                r.client_got.len(),
                                s2c.len(),
                                t.client_closes_eagerly,
                                t.origin_closes_eagerly
                            ),
                        ));
                    }
                    if r.states.last().map(|s| s.as_str()) != Some("Terminated") {
                        return Err(Failure::new(format!("not-finished:{}", shape), format!("tunnel {}: state log {:?} error {:?}", k, r.states, r.error)));
                    }
                    if r.shutdown_server == 0 || r.shutdown_client == 0 {
                        return Err(Failure::new(
                            format!("no-shutdown:{}", if r.shutdown_server == 0 { "server" } else { "client" }),
                            format!("tunnel {}: the proxy never shut down its {} side write half", k, if r.shutdown_server == 0 { "server" } else { "client" }),
                        ));
                    }
                }
                Aspect::Account => {
                    let want: Vec<&str> = vec!["ClientConnected", "ClientRequested", "ServerConnecting", "Connected"];
                    let ok_prefix = r.states.len() >= 5 && r.states[..4].iter().map(|s| s.as_str()).eq(want.iter().cloned());
                    let tail: Vec<&str> = r.states.iter().skip(4).map(|s| s.as_str()).collect();
                    let ok_tail = match tail.as_slice() {
                        [rest @ .., "Terminated"] => rest.len() <= 2 && rest.iter().all(|s| *s == "ClientShutdown" || *s == "ServerShutdown") && (rest.len() < 2 || rest[0] != rest[1]),
                        _ => false,
                    };
                    if !ok_prefix || !ok_tail {
                        return Err(Failure::new(format!("state-log:{}", shape), format!("tunnel {}: state log {:?} does not follow the lifecycle", k, r.states)));
                    }
                    if r.error.is_some() {
                        return Err(Failure::new("error-on-clean-finish", format!("tunnel {}: finished cleanly but error = {:?}", k, r.error)));
                    }
                    if r.client_bytes != c2s.len() as u64 || r.server_bytes != s2c.len() as u64 {
                        let which = if r.client_bytes != c2s.len() as u64 { "client" } else { "server" };
                        let early = (which == "client" && t.early > 0 && http_listener) || (which == "server" && t.server_early > 0 && t.path >= 2);
                        return Err(Failure::new(
                            format!("counter:{}:{}", which, if early { "early-data" } else { "plain" }),
                            format!(
                                "tunnel {}: counters client={} server={} but {} / {} payload bytes were relayed (early {} / server-early {})",
                                k,
                                r.client_bytes,
                                r.server_bytes,
                                c2s.len(),
                                s2c.len(),
                                (t.early as usize).min(c2s.len()),
                                (t.server_early as usize).min(s2c.len())
                            ),
                        ));
                    }
                    if r.connector.as_deref() != Some(&format!("c{}", k)) {
                        return Err(Failure::new("recorded-connector", format!("tunnel {}: recorded connector {:?}", k, r.connector)));
                    }
                    if !r.listed_alive_during {
                        return Err(Failure::new("not-listed-alive", format!("tunnel {}: the context was not in the live table while it existed", k)));
                    }
                }
            }
        } else {
            // injected fault: whatever arrived is a prefix (no corruption, nothing invented), both ends are
            // released, and an established connection ends in ErrorOccured with a text (or Terminated if the
            // fault offset was never reached)
            match aspect {
                Aspect::Fidelity => {
                    // with an upstream proxy hop, bytes before the end of the proxy's own CONNECT head are not payload
                    if r.origin_head_ok && !c2s.starts_with(&r.origin_got) {
                        return Err(Failure::new(format!("c2s-corrupted:fault:{}", shape), format!("tunnel {}: bytes at the origin are not a prefix of what the client sent", k)));
                    }
                    // a failure response (e.g. 503 with its body) is not tunnel payload
                    let tunnelled = match (&r.client_head, http_listener) {
                        (Some(h), true) => rc::parse_http_head(h, true).map(|x| x.start.1 == b"200").unwrap_or(false),
                        (Some(_), false) => true,
                        (None, _) => false,
                    };
                    if tunnelled && !s2c.starts_with(&r.client_got) {
                        return Err(Failure::new(format!("s2c-corrupted:fault:{}", shape), format!("tunnel {}: bytes at the client are not a prefix of what the origin sent", k)));
                    }
                }
                Aspect::Close => {
                    if !(r.client_saw_eof && (r.origin_saw_eof || !r.origin_head_ok || !established)) {
                        return Err(Failure::new(
                            format!("fault-not-released:{}", ["", "client-read", "server-read", "client-write", "server-write"][t.fault.0 as usize]),
                            format!("tunnel {}: after an injected I/O error (kind {}) origin_saw_eof={} client_saw_eof={}", k, t.fault.0, r.origin_saw_eof, r.client_saw_eof),
                        ));
                    }
                }
                Aspect::Account => {
                    if established {
                        match r.states.last().map(|s| s.as_str()) {
                            Some("ErrorOccured") => {
                                if r.error.is_none() {
                                    return Err(Failure::new("error-without-text", format!("tunnel {}: ErrorOccured without error text", k)));
                                }
                            }
                            Some("Terminated") => {}
                            other => return Err(Failure::new("no-terminal-state:fault", format!("tunnel {}: last state {:?} ({:?})", k, other, r.states))),
                        }
                        let terminals = r.states.iter().filter(|s| *s == "Terminated" || *s == "ErrorOccured").count();
                        if terminals != 1 {
                            return Err(Failure::new("terminal-state-count", format!("tunnel {}: {} terminal states in {:?}", k, terminals, r.states)));
                        }
                    }
                }
            }
        }
        // classes / non-triviality
        let segmented = !t.client_chunks.is_empty() || !t.client_sched.reads.is_empty() || !t.server_sched.reads.is_empty() || c2s.len() > buffer_size || s2c.len() > buffer_size;
        let backpressure = (t.cap_c as usize) < c2s.len().max(s2c.len()) || (t.cap_s as usize) < c2s.len().max(s2c.len());
        let early = (t.early > 0 && http_listener && !c2s.is_empty()) || (t.server_early > 0 && t.path >= 2 && !s2c.is_empty());
        if backpressure {
            info.class("backpressure");
        }
        if early {
            info.class("early-data");
        }
        if faulted {
            info.class("fault");
        }
        info.class(shape);
        let close_while_flowing = c2s.len() != s2c.len() && (t.client_closes_eagerly || t.origin_closes_eagerly);
        match aspect {
            Aspect::Fidelity => nontrivial |= segmented && (early || backpressure || case.tunnels.len() >= 2),
            Aspect::Close => nontrivial |= close_while_flowing || faulted,
            Aspect::Account => nontrivial |= early || faulted || case.tunnels.len() >= 2,
        }
    }
    if case.tunnels.len() >= 2 {
        info.class("interleaved");
    }
    info.nontrivial = nontrivial;
    Ok(())
}

fn run_aspect(case: &Case, aspect: Aspect, info: &mut CaseInfo) -> Result<(), Failure> {
    if std::env::var("VERIF_TRACE").is_ok() {
        eprintln!("case: {}", serde_json::to_string(case).unwrap());
    }
    let c = case.clone();
    // The case runs on its own thread. A wedge (every task blocked) is detected by the virtual clock and
    // is a verdict; a relay that keeps spinning without ever blocking can only be caught by a wall-clock
    // watchdog, which is reported as inconclusive (exit 2), never as a violation.
    let (txr, rxr) = std::sync::mpsc::channel();
    std::thread::Builder::new()
        .stack_size(16 << 20)
        .spawn(move || {
            let r = catch(move || {
                crate::harness::util::block_on_paused(async move {
                    // virtual clock: it only advances when every task is blocked, so this fires on a wedge, not on load
                    tokio::time::timeout(std::time::Duration::from_secs(120), run_tunnels(c)).await
                })
            });
            let _ = txr.send(r);
        })
        .expect("spawn case thread");
    let r = match rxr.recv_timeout(std::time::Duration::from_secs(120)) {
        Ok(r) => r,
        Err(_) => {
            eprintln!(
                "INCONCLUSIVE: an in-process relay case did not finish within 120 s of wall-clock time without ever blocking (busy loop?): {}",
                serde_json::to_string(case).unwrap_or_default()
            );
            std::process::exit(2);
        }
    };
    let reports = match r {
        Ok(Ok(Ok(r))) => r,
        Ok(Ok(Err(f))) => return Err(f),
        Ok(Err(_)) => {
            if aspect == Aspect::Account {
                return Ok(());
            }
            let t = &case.tunnels[0];
            return Err(Failure::new(
                format!("wedged:{}", if t.fault.0 != 0 { "fault" } else if !t.client_closes_eagerly && !t.origin_closes_eagerly { "both-close-lazily" } else { "plain" }),
                format!("the tunnels did not finish: every task is blocked (bufferSize {}, {} tunnels)", BUFFER_SIZES[case.buffer_sel as usize % BUFFER_SIZES.len()], case.tunnels.len()),
            ));
        }
        Err(p) => return Err(Failure::new(format!("panic:{}", p.class()), format!("panic in the relay: {}", p.msg))),
    };
    if let Some(p) = crate::harness::util::take_global_panic() {
        return Err(Failure::new(format!("panic:{}", p.class()), format!("panic in a relay task: {}", p.msg)));
    }
    judge(case, &reports, aspect, info)?;
    let t = &case.tunnels[0];
    info.sample = Some(json!({
        "bufferSize": BUFFER_SIZES[case.buffer_sel as usize % BUFFER_SIZES.len()], "tunnels": case.tunnels.len(),
        "first": {"c2s": t.c2s_len, "s2c": t.s2c_len, "early": t.early, "cap_c": t.cap_c, "cap_s": t.cap_s, "path": t.path, "fault": t.fault,
                  "client_closes_eagerly": t.client_closes_eagerly, "origin_closes_eagerly": t.origin_closes_eagerly},
        "states": reports.get(0).map(|r| r.states.clone()),
    }));
    Ok(())
}

/// Bound the number of relay steps: a direction that moves `unit` bytes per step carries at most
/// 3000 steps worth of payload (a 1 MiB payload through a 1-byte pipe would take minutes per case).
fn bound_work(mut c: Case) -> Case {
    let bs = BUFFER_SIZES[c.buffer_sel as usize % BUFFER_SIZES.len()];
    let minv = |v: &Vec<u16>| -> usize { v.iter().map(|x| (*x as usize).max(1)).min().unwrap_or(usize::MAX) };
    for t in c.tunnels.iter_mut() {
        let pipe = (t.cap_c.max(1) as usize).min(t.cap_s.max(1) as usize).min(bs);
        let unit_c2s = pipe.min(minv(&t.client_sched.reads)).min(minv(&t.server_sched.writes)).min(minv(&t.client_chunks));
        let unit_s2c = pipe.min(minv(&t.server_sched.reads)).min(minv(&t.client_sched.writes)).min(minv(&t.origin_chunks));
        t.c2s_len = t.c2s_len.min((unit_c2s.saturating_mul(3000)).min(1 << 20) as u32);
        t.s2c_len = t.s2c_len.min((unit_s2c.saturating_mul(3000)).min(1 << 20) as u32);
    }
    c
}

fn both_lazy_fix(c: Case) -> Case {
    let mut c = bound_work(c);
    // two senders that each wait for the other's EOF before closing never finish by construction
    for t in c.tunnels.iter_mut() {
        if !t.client_closes_eagerly && !t.origin_closes_eagerly {
            t.origin_closes_eagerly = true;
        }
    }
    c
}

fn fidelity(c: &Case, i: &mut CaseInfo) -> Result<(), Failure> {
    run_aspect(&both_lazy_fix(c.clone()), Aspect::Fidelity, i)
}
fn close(c: &Case, i: &mut CaseInfo) -> Result<(), Failure> {
    run_aspect(&both_lazy_fix(c.clone()), Aspect::Close, i)
}
fn account(c: &Case, i: &mut CaseInfo) -> Result<(), Failure> {
    run_aspect(&both_lazy_fix(c.clone()), Aspect::Account, i)
}

const RULE_COMMON: &str = "1-3 concurrent tunnels through the real create_context / h11c_handshake (or a reverse-style context) / process_request / rules / h11c_connect (or a direct harness connector) / copy_bidi on one current-thread runtime; payloads 0..1 MiB from a keyed PRNG (distinct per tunnel), early data glued to the CONNECT head, server bytes glued behind the upstream's 200, generated write chunking and pauses for both far ends, generated per-poll schedules (read/write limits down to 1 byte, Pending+wake) on both proxy-side streams, pipe capacities 1..65536 per direction (back-pressure), bufferSize in {1,2,7,512,4096,65536}, eager or reactive half-close on either side, injected read/write errors at generated offsets; a virtual clock turns a wedge into a reported outcome";

pub fn checks() -> Vec<Box<dyn SubCheck>> {
    vec![
        Box::new(vcore::PropCheck {
            property: "C01",
            name: "relay",
            rule: "[buffered path, owned schedule] 1-3 concurrent tunnels through the real create_context / h11c_handshake (or a reverse-style context) / process_request / rules / h11c_connect (or a direct harness connector) / copy_bidi; payloads 0..1 MiB from a keyed PRNG (distinct per tunnel), early data glued to the CONNECT head, server bytes glued behind the upstream's 200, generated chunking/pauses, per-poll I/O schedules (down to 1 byte, Pending+wake), pipe capacities 1..65536 (back-pressure), bufferSize in {1,2,7,512,4096,65536}; oracle: bytes at the origin == bytes the client sent, bytes at the client after the 200 head == bytes the origin sent (after an injected fault: a prefix); non-trivial = segmented delivery and (early data or back-pressure or >= 2 tunnels)",
            quick: 1500,
            thorough: 40_000,
            max_shrink: 300,
            strategy: case_strategy,
            case: fidelity,
        }),
        Box::new(vcore::PropCheck {
            property: "C04",
            name: "close",
            rule: "[buffered path, owned schedule] same tunnel cases; either side half-closes eagerly after its last byte or only after seeing the peer's EOF, while the other direction still has data; injected read/write errors on either proxy-side stream at generated offsets; oracle: each receiver sees EOF only after every byte sent in that direction, the opposite direction still delivers everything, both write halves are shut down, the context ends Terminated; after a fault both far ends are released (EOF) and nothing blocks (virtual clock); non-trivial = a close while the opposite direction still has bytes to send, or a fault",
            quick: 1500,
            thorough: 40_000,
            max_shrink: 300,
            strategy: case_strategy,
            case: close,
        }),
        Box::new(vcore::PropCheck {
            property: "C16",
            name: "account",
            rule: "[in-process] same tunnel cases; oracle: the state log is ClientConnected ClientRequested ServerConnecting Connected (ClientShutdown|ServerShutdown){0,2} Terminated with exactly one terminal state (ErrorOccured + error text after a fault), per-direction byte counters == payload bytes relayed incl. early data, recorded connector == the one used, context listed live while it exists; non-trivial = early data, a fault, or >= 2 tunnels",
            quick: 1500,
            thorough: 40_000,
            max_shrink: 300,
            strategy: case_strategy,
            case: account,
        }),
    ]
}

#[allow(dead_code)]
fn _unused(_: &str) -> usize {
    let _ = RULE_COMMON;
    sel(0, 1)
}
