//! C15(b) — a request decided concurrently with a rule replacement is decided entirely by the old or
//! entirely by the new list (stress on a multi-thread runtime; not schedule enumeration).
use crate::context::{Feature, TargetAddress};
use crate::harness::mini::{rule_from, Behaviour, Mini, RecordingConnector};
use crate::harness::util::catch;
use serde::{Deserialize, Serialize};
use serde_json::json;
use std::sync::atomic::{AtomicBool, Ordering};
use std::sync::Arc;
use vcore::{CaseInfo, Failure, Part, SubCheck};

#[derive(Clone, Debug, Serialize, Deserialize)]
pub struct Case {
    pub flips: u32,
    pub probers: u8,
    pub list_len: u8,
}

/// list A and list B: every proper mixture (empty list, a prefix of either, prefix of one + suffix of
/// the other) decides one of the two probes differently from both A and B.
fn lists(len: usize) -> (Vec<(String, Option<String>)>, Vec<(String, Option<String>)>) {
    // probe P1 (port 1) matches only the LAST rule of both lists: A -> a_last, B -> b_last
    // probe P2 (port 2) matches the FIRST rule of both lists: A -> a_first, B -> b_first
    let mut a = vec![("a_first".to_string(), Some("request.target.port == 2".to_string()))];
    let mut b = vec![("b_first".to_string(), Some("request.target.port == 2".to_string()))];
    for i in 0..len {
        a.push(("filler".to_string(), Some(format!("request.target.port == {}", 1000 + i))));
        b.push(("filler".to_string(), Some(format!("request.target.port == {}", 2000 + i))));
    }
    a.push(("a_last".to_string(), Some("request.target.port == 1".to_string())));
    b.push(("b_last".to_string(), Some("request.target.port == 1".to_string())));
    (a, b)
}

pub fn run_case(c: &Case, info: &mut CaseInfo) -> Result<(), Failure> {
    let c2 = c.clone();
    let r = catch(move || {
        let rt = tokio::runtime::Builder::new_multi_thread().worker_threads(6).enable_all().build().unwrap();
        rt.block_on(async move {
            let names = ["a_first", "a_last", "b_first", "b_last", "filler"];
            let conns: Vec<Arc<RecordingConnector>> = names.iter().map(|n| RecordingConnector::new(n, vec![Feature::TcpForward], Behaviour::Refuse)).collect();
            let (la, lb) = lists(c2.list_len as usize);
            let mini = Arc::new(Mini::new(conns.clone(), vec![], la.clone(), 0, 4096).await.map_err(|e| Failure::new("harness", e))?);
            let stop = Arc::new(AtomicBool::new(false));
            // the flipper
            let m2 = mini.clone();
            let flips = c2.flips;
            let stop2 = stop.clone();
            let flipper = tokio::spawn(async move {
                for i in 0..flips {
                    let l = if i % 2 == 0 { &lb } else { &la };
                    let rules: Vec<_> = l.iter().map(|(t, f)| rule_from(t, f.as_deref()).unwrap()).collect();
                    if m2.state.set_rules(rules).await.is_err() {
                        break;
                    }
                    if i % 8 == 0 {
                        tokio::task::yield_now().await;
                    }
                }
                stop2.store(true, Ordering::SeqCst);
            });
            let mut probers = vec![];
            for t in 0..c2.probers {
                let m = mini.clone();
                let stop = stop.clone();
                probers.push(tokio::spawn(async move {
                    let mut n = 0u64;
                    let mut bad: Option<String> = None;
                    let mut saw_a = false;
                    let mut saw_b = false;
                    while !stop.load(Ordering::SeqCst) || n < 50 {
                        let port = 1 + ((n + t as u64) % 2) as u16;
                        let (ctx, _log) = m
                            .request("l", "192.0.2.1:1".parse().unwrap(), TargetAddress::DomainPort("h".into(), port), Feature::TcpForward, None)
                            .await;
                        m.process(ctx.clone()).await;
                        let used = ctx.read().await.props().connector.clone();
                        let ok = match (port, used.as_deref()) {
                            (1, Some("a_last")) | (2, Some("a_first")) => {
                                saw_a = true;
                                true
                            }
                            (1, Some("b_last")) | (2, Some("b_first")) => {
                                saw_b = true;
                                true
                            }
                            _ => false,
                        };
                        if !ok && bad.is_none() {
                            bad = Some(format!("probe port {} was decided as {:?}", port, used));
                        }
                        n += 1;
                        if n > 2_000_000 {
                            break;
                        }
                    }
                    (n, bad, saw_a, saw_b)
                }));
            }
            let _ = flipper.await;
            let mut total = 0;
            let mut both = false;
            for p in probers {
                let (n, bad, a, b) = p.await.map_err(|e| Failure::new("panic:prober", e.to_string()))?;
                total += n;
                both |= a && b;
                if let Some(b) = bad {
                    return Err(Failure::new(
                        "mixed-decision",
                        format!("{} - neither list A nor list B decides it that way (a request saw a partially replaced rule list)", b),
                    ));
                }
            }
            Ok::<_, Failure>((total, both))
        })
    });
    match r {
        Ok(Ok((total, both))) => {
            info.nontrivial = both;
            info.sample = Some(json!({"flips": c.flips, "probers": c.probers, "probes": total, "saw_both_lists": both}));
            Ok(())
        }
        Ok(Err(f)) => Err(f),
        Err(p) => Err(Failure::new(format!("panic:{}", p.class()), p.msg)),
    }
}

pub struct AtomicCheck;
impl SubCheck for AtomicCheck {
    fn property(&self) -> &'static str {
        "C15"
    }
    fn name(&self) -> &'static str {
        "atomic"
    }
    fn rule(&self) -> String {
        "stress on a 6-thread runtime over the real GlobalState::set_rules / process_request: one task flips between rule lists A and B (constructed so that every mixture - empty, prefix, prefix+suffix - decides one of two probes differently from both) 2 000 times per case while 4-8 tasks fire probes; oracle: every probe's connector is the one list A or list B selects; non-trivial = the probers observed both lists; this detects widened windows (clear-then-push, per-rule swap), it proves nothing about narrower ones".into()
    }
    fn run(&self, part: &mut Part) {
        let n = part.tier.pick(6, 200);
        for i in 0..n {
            let c = Case {
                flips: 2000,
                probers: 4 + (i % 5) as u8,
                list_len: (i % 4) as u8,
            };
            part.run_case(&c, &|c, i| run_case(c, i));
        }
    }
    fn replay(&self, case: &serde_json::Value) -> Result<(), Failure> {
        let c: Case = serde_json::from_value(case.clone()).map_err(|e| Failure::new("replay-decode", e.to_string()))?;
        run_case(&c, &mut CaseInfo::default())
    }
}

pub fn checks() -> Vec<Box<dyn SubCheck>> {
    vec![Box::new(AtomicCheck)]
}
