//! In-process checks over the re-rooted redproxy-rs sources.
use vcore::SubCheck;

pub mod util;
pub mod c01;
pub mod c02;
pub mod c03;
pub mod c05;
pub mod c07;
pub mod c08;
pub mod c09;
pub mod c11;
pub mod c12;
pub mod c15;
pub mod c17;
pub mod bin;
pub mod c18;
pub mod c18b;
pub mod codec;
pub mod mini;

pub fn main() -> i32 {
    util::install_panic_hook();
    let args: Vec<String> = std::env::args().collect();
    if args.len() >= 3 && args[1] == "emit-corpus" {
        let seed = std::env::var("VERIF_SEED").ok().and_then(|s| s.parse().ok()).unwrap_or(0);
        let n = c05::emit_corpus(&args[2], 400, seed);
        println!("{} corpus files written to {}", n, args[2]);
        return 0;
    }
    if args.len() >= 3 && args[1] == "emit-corpus-milu" {
        let seed = std::env::var("VERIF_SEED").ok().and_then(|s| s.parse().ok()).unwrap_or(0);
        let n = c08::emit_corpus(&args[2], 1500, seed);
        println!("{} corpus files written to {}", n, args[2]);
        return 0;
    }
    let mut checks: Vec<Box<dyn SubCheck>> = vec![];
    checks.extend(c01::checks());
    checks.extend(c02::checks());
    checks.extend(c03::checks());
    checks.extend(c05::checks());
    checks.extend(c07::checks());
    checks.extend(c08::checks());
    checks.extend(c09::checks());
    checks.extend(c11::checks());
    checks.extend(c12::checks());
    checks.extend(c15::checks());
    checks.extend(c17::checks());
    checks.extend(c18::checks());
    checks.extend(c18b::checks());
    vcore::driver("vp-inproc", checks)
}
