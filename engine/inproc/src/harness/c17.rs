//! C17 — load-balancer selection laws (round-robin incl. concurrent, hash-by stickiness, random).
use crate::connectors::Connector;
use crate::context::Feature;
use crate::harness::c02::{req_parts, req_props, ReqSpec};
use crate::harness::c08::{Env, Interp, RErr, V};
use crate::harness::c09::{render_min, E, BIN};
use crate::harness::codec::{run_async, DriveFail};
use crate::harness::mini::{Behaviour, Mini, RecordingConnector};
use proptest::prelude::*;
use serde::{Deserialize, Serialize};
use serde_json::json;
use std::collections::{BTreeMap, BTreeSet, HashMap};
use std::sync::Arc;
use vcore::{fail, CaseInfo, Failure, SubCheck};

#[derive(Clone, Debug, Serialize, Deserialize)]
pub enum Algo {
    RoundRobin { spelling: u8 },
    Random,
    HashBy { key: u8, spelling: u8 },
}

#[derive(Clone, Debug, Serialize, Deserialize)]
pub struct Case {
    pub n: u8,
    pub algo: Algo,
    pub reqs: Vec<ReqSpec>,
    pub rounds: u8,
    /// number of concurrent tasks for round robin (1 = sequential)
    pub tasks: u8,
    /// some members refuse the connection (selection must not depend on it)
    pub refuse_mask: u8,
    /// round robin only: if non-zero, about this many selections through one balancer (cursor far from its start)
    #[serde(default)]
    pub long: u32,
}

fn bi(s: &str) -> u8 {
    BIN.iter().position(|b| b.spell == s).unwrap() as u8
}
fn acc(path: &[&str]) -> E {
    let mut e = E::Id(path[0].into());
    for p in &path[1..] {
        e = E::Access(Box::new(e), p.to_string());
    }
    e
}

/// key expressions of string type over request attributes
pub fn key_expr(k: u8) -> E {
    match k % 10 {
        0 => acc(&["request", "source", "host"]),
        1 => acc(&["request", "target", "host"]),
        2 => acc(&["request", "listener"]),
        3 => acc(&["request", "source"]),
        4 => acc(&["request", "target"]),
        5 => E::Template(vec![("".into(), Some(acc(&["request", "listener"]))), ("/".into(), Some(acc(&["request", "target", "type"])))]),
        6 => E::Index(
            Box::new(E::Call(Box::new(E::Id("split".into())), vec![acc(&["request", "target", "host"]), E::Str(".".into())])),
            Box::new(E::Int(0, 0)),
        ),
        7 => E::If(
            Box::new(E::Bin(bi("=="), 0, Box::new(acc(&["request", "target", "type"])), Box::new(E::Str("domain".into())))),
            Box::new(acc(&["request", "target", "host"])),
            Box::new(acc(&["request", "source", "host"])),
        ),
        8 => E::Call(Box::new(E::Id("to_string".into())), vec![acc(&["request", "target", "port"])]),
        _ => E::Call(
            Box::new(E::Id("strcat".into())),
            vec![E::Array(vec![acc(&["request", "feature"]), E::Str(":".into()), acc(&["request", "source", "type"])])],
        ),
    }
}

fn lb_yaml(n: usize, algo: &Algo) -> String {
    let members: Vec<String> = (0..n).map(|i| format!("m{}", i)).collect();
    let algo_line = match algo {
        Algo::RoundRobin { spelling } => match spelling % 3 {
            0 => "algo: rr".to_string(),
            1 => "algorithm: roundRobin".to_string(),
            _ => String::new(), // default
        },
        Algo::Random => "algo: random".to_string(),
        Algo::HashBy { key, spelling } => {
            let src = render_min(&key_expr(*key));
            let tag = if spelling % 2 == 0 { "hashBy" } else { "hash" };
            format!("algo:\n  {}: {}", tag, serde_json::to_string(&src).unwrap())
        }
    };
    format!("name: lb\ntype: loadbalance\nconnectors: [{}]\n{}\n", members.join(", "), algo_line)
}

pub fn case_strategy() -> impl Strategy<Value = Case> {
    let req = (0u8..3, any::<bool>(), any::<u8>(), any::<u16>(), any::<u8>(), any::<u8>(), prop_oneof![Just(80u16), Just(443), any::<u16>()]).prop_map(
        |(listener, src_v6, src_host, src_port, tgt_kind, tgt_host, tgt_port)| ReqSpec {
            listener,
            src_v6,
            src_host,
            src_port,
            tgt_kind,
            tgt_host,
            tgt_port,
            feature: 0,
        },
    );
    let algo = prop_oneof![
        3 => any::<u8>().prop_map(|spelling| Algo::RoundRobin { spelling }),
        1 => Just(Algo::Random),
        3 => (any::<u8>(), any::<u8>()).prop_map(|(key, spelling)| Algo::HashBy { key, spelling }),
    ];
    (1u8..9, algo, prop::collection::vec(req, 1..24), 1u8..5, prop_oneof![3 => Just(1u8), 2 => 2u8..9], prop_oneof![3 => Just(0u8), 1 => any::<u8>()]).prop_map(|(n, algo, reqs, rounds, tasks, refuse_mask)| Case {
        n,
        algo,
        reqs,
        rounds,
        tasks,
        refuse_mask,
        long: 0,
    })
}

/// long request streams through one round-robin balancer: the cursor passes 2^8, 2^12, 2^16
pub fn long_strategy() -> impl Strategy<Value = Case> {
    let total = prop_oneof![2 => 250u32..700, 2 => 4000u32..4400, 2 => 65_400u32..66_000, 3 => 200u32..70_000];
    (2u8..14, any::<u8>(), total, prop_oneof![2 => Just(1u8), 1 => Just(4u8)], any::<u16>()).prop_map(|(n, spelling, long, tasks, tgt_port)| Case {
        n,
        algo: Algo::RoundRobin { spelling },
        reqs: vec![ReqSpec { listener: 0, src_v6: false, src_host: 1, src_port: 4000, tgt_kind: 0, tgt_host: 1, tgt_port, feature: 0 }],
        rounds: 1,
        tasks,
        refuse_mask: 0,
        long,
    })
}

fn reference_key(e: &E, r: &ReqSpec) -> Result<Option<String>, String> {
    let props = req_props(r);
    let mut it = Interp {
        props: &props,
        maybe: BTreeSet::new(),
        fuel: 10_000,
    };
    match it.eval(e, &Env(None)) {
        Ok(V::S(s)) => Ok(Some(s)),
        Ok(V::Target) => Ok(Some(props.target.to_string())),
        Ok(V::Source) => Ok(Some(props.source.to_string())),
        Err(RErr::Dyn(_)) => Ok(None),
        other => Err(format!("{:?}", other)),
    }
}

pub fn run_case(case: &Case, info: &mut CaseInfo) -> Result<(), Failure> {
    let n = case.n as usize;
    let yaml = lb_yaml(n, &case.algo);
    let value: serde_yaml::Value = serde_yaml::from_str(&yaml).map_err(|e| Failure::new("harness-yaml", e.to_string()))?;
    let algo = case.algo.clone();
    let reqs = case.reqs.clone();
    let rounds = case.rounds as usize;
    let tasks = case.tasks.max(1) as usize;
    let refuse_mask = case.refuse_mask;
    let long = case.long as usize;
    let concurrent = tasks > 1 && matches!(algo, Algo::RoundRobin { .. });
    let body = async move {
        let mut lb = crate::connectors::from_value(&value).map_err(|e| Failure::new("lb-config-rejected", format!("{} {:?}", e, e.cause)))?;
        lb.init().await.map_err(|e| Failure::new("lb-config-rejected", format!("init: {} {:?}", e, e.cause)))?;
        let lb: Arc<dyn Connector> = Arc::from(lb);
        let members: Vec<Arc<RecordingConnector>> = (0..n)
            .map(|i| {
                RecordingConnector::new(
                    &format!("m{}", i),
                    vec![Feature::TcpForward],
                    if refuse_mask & (1 << (i % 8)) != 0 { Behaviour::Refuse } else { Behaviour::AcceptEof },
                )
            })
            .collect();
        // a decoy connector that is not a member must never be selected
        let decoy = RecordingConnector::new("decoy", vec![Feature::TcpForward], Behaviour::AcceptEof);
        let mut all = members.clone();
        all.push(decoy.clone());
        let mini = Mini::new(all, vec![("lb".to_string(), lb.clone())], vec![("lb".to_string(), None)], 0, 4096)
            .await
            .map_err(|e| Failure::new("harness-mini", e))?;
        lb.verify(mini.state.clone()).await.map_err(|e| Failure::new("lb-config-rejected", format!("verify: {}", e)))?;
        let mini = Arc::new(mini);
        // the request stream
        let stream: Vec<ReqSpec> = match algo {
            Algo::RoundRobin { .. } if long > 0 => (0..(long / (n * tasks)).max(1) * n * tasks).map(|i| reqs[i % reqs.len()].clone()).collect(),
            Algo::RoundRobin { .. } => (0..rounds * n * tasks.max(1)).map(|i| reqs[i % reqs.len()].clone()).collect(),
            Algo::Random => (0..400 * n).map(|i| reqs[i % reqs.len()].clone()).collect(),
            Algo::HashBy { .. } => (0..reqs.len() * 3).map(|i| reqs[(i * 7) % reqs.len()].clone()).collect(),
        };
        let mut outcome: Vec<(usize, Option<String>, u64)> = vec![]; // (request index, recorded connector, ctx id)
        if concurrent {
            let per = stream.len() / tasks;
            let mut hs = vec![];
            for t in 0..tasks {
                let mini = mini.clone();
                let part: Vec<(usize, ReqSpec)> = stream[t * per..(t + 1) * per].iter().cloned().enumerate().map(|(i, r)| (t * per + i, r)).collect();
                hs.push(tokio::spawn(async move {
                    let mut out = vec![];
                    for (i, r) in part {
                        let (l, s, tg, f) = req_parts(&r);
                        let (ctx, _log) = mini.request(&l, s, tg, f, None).await;
                        let id = ctx.read().await.props().id;
                        mini.process(ctx.clone()).await;
                        out.push((i, ctx.read().await.props().connector.clone(), id));
                        tokio::task::yield_now().await;
                    }
                    out
                }));
            }
            for h in hs {
                outcome.extend(h.await.map_err(|e| Failure::new("panic:task", e.to_string()))?);
            }
        } else {
            for (i, r) in stream.iter().enumerate() {
                let (l, s, tg, f) = req_parts(r);
                let (ctx, _log) = mini.request(&l, s, tg, f, None).await;
                let id = ctx.read().await.props().id;
                mini.process(ctx.clone()).await;
                outcome.push((i, ctx.read().await.props().connector.clone(), id));
            }
        }
        let calls: Vec<Vec<u64>> = members.iter().map(|m| m.calls.lock().unwrap().clone()).collect();
        let decoy_calls = decoy.calls.lock().unwrap().len();
        Ok::<_, Failure>((stream, outcome, calls, decoy_calls))
    };
    let res = if concurrent {
        // multi-thread runtime: real parallel selection
        let r = crate::harness::util::catch(|| {
            let rt = tokio::runtime::Builder::new_multi_thread().worker_threads(4).enable_all().build().unwrap();
            rt.block_on(async { tokio::time::timeout(std::time::Duration::from_secs(if long > 0 { 600 } else { 60 }), body).await })
        });
        match r {
            Ok(Ok(x)) => Ok(x),
            Ok(Err(_)) => Err(DriveFail::Wedged),
            Err(p) => Err(DriveFail::Panic(p)),
        }
    } else {
        run_async(body)
    };
    let (stream, outcome, calls, decoy_calls) = match res {
        Ok(Ok(x)) => x,
        Ok(Err(f)) => return Err(f),
        Err(DriveFail::Panic(p)) => fail!(format!("panic:{}", p.class()), "load balancer panicked: {} (config {:?})", p.msg, yaml),
        Err(DriveFail::Wedged) => fail!("wedged", "selection did not finish (config {:?})", yaml),
    };
    if decoy_calls != 0 {
        fail!("non-member-selected", "a connector that is not a member was used {} times (config {:?})", decoy_calls, yaml);
    }
    // id -> member that actually ran
    let mut ran: HashMap<u64, usize> = HashMap::new();
    for (m, ids) in calls.iter().enumerate() {
        for id in ids {
            if ran.insert(*id, m).is_some() {
                fail!("two-members-for-one-request", "context {} reached two members", id);
            }
        }
    }
    let mut seq: Vec<Option<usize>> = vec![None; stream.len()];
    for (i, recorded, id) in &outcome {
        let m = ran.get(id).cloned();
        seq[*i] = m;
        match (m, recorded) {
            (Some(m), Some(name)) if *name == format!("m{}", m) => {}
            (Some(m), other) => fail!("recorded-member-differs", "member m{} ran but the context records connector {:?}", m, other),
            (None, _) => {}
        }
    }
    match &case.algo {
        Algo::RoundRobin { .. } => {
            let total = stream.len();
            let k = total / n;
            for (m, ids) in calls.iter().enumerate() {
                if ids.len() != k {
                    fail!(
                        if concurrent { "rr-uneven:concurrent" } else { "rr-uneven:sequential" },
                        "round robin over {} members, {} selections{}: member m{} was selected {} times, expected {} (counts {:?})",
                        n,
                        total,
                        if concurrent { format!(" from {} tasks", tasks) } else { String::new() },
                        m,
                        ids.len(),
                        k,
                        calls.iter().map(|c| c.len()).collect::<Vec<_>>()
                    );
                }
            }
            if !concurrent {
                for w in seq.windows(n) {
                    let set: BTreeSet<usize> = w.iter().filter_map(|x| *x).collect();
                    if set.len() != n {
                        fail!("rr-window", "{} consecutive selections (of {}) do not cover every member once: {:?}", n, total, w);
                    }
                }
            }
        }
        Algo::Random => {
            for (m, ids) in calls.iter().enumerate() {
                if ids.is_empty() {
                    fail!("random-member-never-selected", "member m{} of {} was never selected in {} draws", m, n, stream.len());
                }
            }
            if calls.iter().map(|c| c.len()).sum::<usize>() != stream.len() {
                fail!("random-missing-selection", "some request selected no member");
            }
        }
        Algo::HashBy { key, .. } => {
            let e = key_expr(*key);
            let mut groups: BTreeMap<String, BTreeSet<Option<usize>>> = BTreeMap::new();
            for (i, r) in stream.iter().enumerate() {
                match reference_key(&e, r) {
                    Ok(Some(kv)) => {
                        groups.entry(kv).or_default().insert(seq[i]);
                    }
                    Ok(None) => {
                        if seq[i].is_some() {
                            fail!("hash-key-error-selected", "the key expression fails for request #{} but a member was selected", i);
                        }
                    }
                    Err(s) => fail!("harness-reference-stuck", "{}", s),
                }
            }
            for (kv, ms) in &groups {
                if ms.len() != 1 || ms.contains(&None) {
                    fail!(
                        "hash-not-sticky",
                        "requests with key {:?} ({}) went to different members: {:?}",
                        kv,
                        render_min(&e),
                        ms
                    );
                }
            }
            let multi = groups.len() >= 2;
            info.class(if multi { "hash-multi-group" } else { "hash-single-group" });
        }
    }
    if long > 0 {
        info.class(if stream.len() > 65_536 { "cursor-past-2^16" } else if stream.len() > 4096 { "cursor-past-2^12" } else if stream.len() > 256 { "cursor-past-2^8" } else { "cursor-short" });
    }
    info.class(match &case.algo {
        Algo::RoundRobin { .. } => {
            if concurrent {
                "rr-concurrent"
            } else {
                "rr-sequential"
            }
        }
        Algo::Random => "random",
        Algo::HashBy { .. } => "hash",
    });
    info.nontrivial = n >= 2 && stream.len() >= 2 * n && (long == 0 || stream.len() > 256);
    info.sample = Some(json!({"config": yaml, "selections": stream.len(), "tasks": if concurrent { tasks } else { 1 }, "counts": calls.iter().map(|c| c.len()).collect::<Vec<_>>()}));
    Ok(())
}

pub fn checks() -> Vec<Box<dyn SubCheck>> {
    vec![Box::new(vcore::PropCheck {
        property: "C17",
        name: "select",
        rule: "the real LoadBalanceConnector built from generated YAML (1-8 members + a non-member decoy in the connector table; algo rr / roundRobin / default, random, hashBy / hash over 10 key expressions of string type incl. request.source/target objects, templates, split()[0], conditionals) selecting through the real process_request; round robin sequentially (k*n selections, every window of n) and concurrently from 2-8 tasks on a 4-thread runtime; members may refuse the connection; oracle: only members run, each exactly k times (rr), same member per reference key group (hash), every member at least once in 400*n draws (random, miss probability < 1e-20), recorded connector == member that ran; non-trivial = n >= 2 and >= 2n selections",
        quick: 1500,
        thorough: 40_000,
        max_shrink: 300,
        strategy: case_strategy,
        case: run_case,
    }),
    Box::new(vcore::PropCheck {
        property: "C17",
        name: "long-run",
        rule: "round robin over 2-13 members (incl. counts that divide no power of two) with 200 - 70000 selections through ONE balancer via the real process_request, sequentially or from 4 tasks on a 4-thread runtime, lengths clustered just past 2^8, 2^12 and 2^16 so that a cursor that is narrowed, masked or reset somewhere shows; oracle: each member exactly k times in k*n selections and (sequential) every window of n consecutive selections covers every member once; non-trivial = more than 256 selections",
        quick: 24,
        thorough: 400,
        max_shrink: 40,
        strategy: long_strategy,
        case: run_case,
    })]
}
