//! C07(a) — SOCKS credentials: method negotiation, user list, external command and its verdict cache.
use crate::common::auth::AuthData;
use crate::common::socks::{PasswordAuth, SocksRequest};
use crate::context::make_buffered_stream;
use crate::harness::codec::{run_async, DriveFail};
use crate::harness::util::{catch, write_segments};
use proptest::prelude::*;
use serde::{Deserialize, Serialize};
use serde_json::json;
use std::collections::HashMap;
use std::time::{Duration, Instant};
use tokio::io::{AsyncReadExt, AsyncWriteExt};
use vcore::refcodec as rc;
use vcore::{fail, CaseInfo, Failure, Part, SubCheck};

// ------------------------------------------------------------------ negotiation + user list

#[derive(Clone, Debug, Serialize, Deserialize)]
pub struct NegCase {
    pub required: bool,
    pub methods: Vec<u8>,
    /// credentials the client presents if asked: selectors into the tables below
    pub user: u8,
    pub pass: u8,
    /// 4 = SOCKS4 (user id only), 5 = SOCKS5
    pub version: u8,
    pub bytewise: bool,
}

const USERS: &[&[u8]] = &[b"alice", b"bob", b"", b"alice\0", b"ALICE", b"al", b"alice ", b"\xff\xfe", b"aliceX"];
const PASSES: &[&[u8]] = &[b"secret", b"hunter2", b"", b"secret\0", b"SECRET", b"sec", b"secret ", b"\xc3", b"x"];

fn long(n: usize, c: u8) -> Vec<u8> {
    vec![c; n]
}

fn user_bytes(i: u8) -> Vec<u8> {
    let i = i as usize % (USERS.len() + 1);
    if i == USERS.len() {
        long(255, b'u')
    } else {
        USERS[i].to_vec()
    }
}
fn pass_bytes(i: u8) -> Vec<u8> {
    let i = i as usize % (PASSES.len() + 1);
    if i == PASSES.len() {
        long(255, b'p')
    } else {
        PASSES[i].to_vec()
    }
}

/// the configured accounts: alice/secret, bob/hunter2, empty/empty, and the 255-byte pair
fn accounts() -> Vec<(Vec<u8>, Vec<u8>)> {
    vec![(b"alice".to_vec(), b"secret".to_vec()), (b"bob".to_vec(), b"hunter2".to_vec()), (long(255, b'u'), long(255, b'p'))]
}

fn auth_yaml(required: bool) -> String {
    let mut s = format!("required: {}\nusers:\n", required);
    for (u, p) in accounts() {
        s.push_str(&format!("  - username: {}\n    password: {}\n", serde_json::to_string(&String::from_utf8_lossy(&u)).unwrap(), serde_json::to_string(&String::from_utf8_lossy(&p)).unwrap()));
    }
    s
}

fn neg_strategy() -> impl Strategy<Value = NegCase> {
    let methods = prop_oneof![
        2 => Just(vec![0u8]),
        2 => Just(vec![2u8]),
        2 => Just(vec![0u8, 2]),
        2 => Just(vec![2u8, 0]),
        1 => Just(vec![]),
        1 => Just(vec![1u8, 3, 0x80, 0xff]),
        2 => prop::collection::vec(prop_oneof![Just(0u8), Just(2u8), any::<u8>()], 0..12),
        1 => prop::collection::vec(any::<u8>(), 200..256),
    ];
    (any::<bool>(), methods, any::<u8>(), any::<u8>(), prop_oneof![4 => Just(5u8), 1 => Just(4u8)], any::<bool>()).prop_map(|(required, methods, user, pass, version, bytewise)| NegCase {
        required,
        methods,
        user,
        pass,
        version,
        bytewise,
    })
}

pub fn run_neg(c: &NegCase, info: &mut CaseInfo) -> Result<(), Failure> {
    let user = user_bytes(c.user);
    let pass = pass_bytes(c.pass);
    let dest = rc::Dest::name("target.example", 443);
    let c2 = c.clone();
    let u2 = user.clone();
    let p2 = pass.clone();
    let res = run_async(async move {
        let auth: AuthData = serde_yaml::from_str(&auth_yaml(c2.required)).map_err(|e| Failure::new("harness-yaml", e.to_string()))?;
        let (near, far) = tokio::io::duplex(1 << 16);
        let (mut fr, mut fw) = tokio::io::split(far);
        // the client: interactive SOCKS5 (waits for the method selection), or one-shot SOCKS4
        let methods = c2.methods.clone();
        let version = c2.version;
        let bytewise = c2.bytewise;
        let client = tokio::spawn(async move {
            let mut transcript = vec![];
            if version == 4 {
                let msg = rc::encode_socks4(1, &rc::Dest { host: rc::Host::V4([10, 0, 0, 1]), port: 80 }, &u2).unwrap_or_default();
                let cuts: Vec<usize> = if bytewise { (1..msg.len()).collect() } else { vec![] };
                let _ = write_segments(&mut fw, &msg, &cuts).await;
                let _ = fw.shutdown().await;
                let _ = fr.read_to_end(&mut transcript).await;
                return (transcript, None);
            }
            let g = rc::encode_socks5_greeting(&methods[..methods.len().min(255)]);
            let cuts: Vec<usize> = if bytewise { (1..g.len()).collect() } else { vec![] };
            let _ = write_segments(&mut fw, &g, &cuts).await;
            let mut sel = [0u8; 2];
            if fr.read_exact(&mut sel).await.is_err() {
                return (transcript, None);
            }
            transcript.extend_from_slice(&sel);
            let selected = sel[1];
            let mut next = vec![];
            if selected == 2 {
                next.extend_from_slice(&rc::encode_socks5_userpass(&u2[..u2.len().min(255)], &p2[..p2.len().min(255)]));
            }
            if selected == 0 || selected == 2 {
                next.extend_from_slice(&rc::encode_socks5_request(1, &dest).unwrap());
            }
            let cuts: Vec<usize> = if bytewise { (1..next.len()).collect() } else { vec![] };
            let _ = write_segments(&mut fw, &next, &cuts).await;
            let _ = fw.shutdown().await;
            let _ = fr.read_to_end(&mut transcript).await;
            (transcript, Some(selected))
        });
        let mut stream = make_buffered_stream(near);
        let parsed = SocksRequest::read_from(&mut stream, PasswordAuth { required: auth.required }).await;
        let verdict = match &parsed {
            Ok(req) => Some((auth.check(&req.auth).await, req.auth.clone())),
            Err(_) => None,
        };
        let _ = stream.flush().await;
        drop(stream);
        let (transcript, selected) = client.await.map_err(|e| Failure::new("harness-client", e.to_string()))?;
        Ok::<_, Failure>((verdict, selected, transcript, parsed.err().map(|e| e.to_string())))
    });
    let (verdict, selected, _transcript, perr) = match res {
        Ok(Ok(x)) => x,
        Ok(Err(f)) => return Err(f),
        Err(DriveFail::Panic(p)) => fail!(format!("panic:{}", p.class()), "negotiation panicked: {}", p.msg),
        Err(DriveFail::Wedged) => fail!("wedged", "negotiation did not terminate"),
    };
    let valid = accounts().iter().any(|(u, p)| *u == user && *p == pass);
    let routed = matches!(verdict, Some((true, _)));
    let shape = format!(
        "{}:{}",
        if c.version == 4 { "socks4" } else { "socks5" },
        if c.methods.contains(&0) && c.methods.contains(&2) {
            if c.methods.iter().position(|m| *m == 0) < c.methods.iter().position(|m| *m == 2) {
                "none-then-userpass"
            } else {
                "userpass-then-none"
            }
        } else if c.methods.contains(&2) {
            "userpass-only"
        } else if c.methods.contains(&0) {
            "none-only"
        } else {
            "neither"
        }
    );
    if c.required {
        // SOCKS4 carries only a user id: it can never present a password
        let presented_valid = c.version == 5 && selected == Some(2) && valid;
        if routed && !presented_valid {
            fail!(
                format!("routed-without-credentials:{}", shape),
                "authentication is required, the client offered methods {:02x?} and presented user {:?} / pass {:?} (server selected {:?}), yet the request was accepted for routing: {:?}",
                &c.methods[..c.methods.len().min(8)],
                String::from_utf8_lossy(&user[..user.len().min(12)]),
                String::from_utf8_lossy(&pass[..pass.len().min(12)]),
                selected,
                verdict
            );
        }
        if c.version == 5 && selected == Some(0) {
            fail!(format!("none-selected-although-required:{}", shape), "the server selected 'no authentication' although credentials are required (offer {:02x?})", &c.methods[..c.methods.len().min(8)]);
        }
        // positive control: a client that offers user/pass with a valid account must get through
        if c.version == 5 && c.methods.contains(&2) && valid && !routed {
            fail!(format!("valid-credentials-refused:{}", shape), "valid credentials were refused (parse error {:?}, verdict {:?})", perr, verdict);
        }
    } else {
        // not required: anyone who completes the handshake is routed
        if verdict.is_some() && !routed {
            fail!(format!("refused-although-not-required:{}", shape), "authentication is optional but the request was refused: {:?}", verdict);
        }
    }
    if let Some(sel) = selected {
        if sel != 0xff && !c.methods.contains(&sel) {
            fail!(format!("selected-method-not-offered:{}", shape), "server selected method {} which the client did not offer ({:02x?})", sel, &c.methods[..c.methods.len().min(8)]);
        }
    }
    info.class(shape);
    info.class(if routed { "routed" } else { "refused" });
    info.nontrivial = c.required && !(c.version == 5 && valid && c.methods.contains(&2));
    info.sample = Some(json!({"required": c.required, "version": c.version, "methods": &c.methods[..c.methods.len().min(8)], "valid_account": valid, "selected": selected, "routed": routed}));
    Ok(())
}

// ------------------------------------------------------------------ verdict cache histories (real clock)

#[derive(Clone, Debug, Serialize, Deserialize)]
pub enum Op {
    Attempt(u8, u8),
    SetTruth(u8, u8, bool),
    /// wait: 0 = 300 ms, 1 = 1.6 s (past the 1 s cache timeout)
    Wait(u8),
}

#[derive(Clone, Debug, Serialize, Deserialize)]
pub struct CacheCase {
    pub ops: Vec<Op>,
    /// cache.timeout in seconds; 0 = caching disabled
    #[serde(default = "one")]
    pub timeout: u8,
}
fn one() -> u8 {
    1
}

const CU: &[&str] = &["carol", "dave", "carol2"];
const CP: &[&str] = &["pw1", "pw2", "pw1x"];

fn cache_strategy() -> impl Strategy<Value = CacheCase> {
    let op = prop_oneof![
        6 => (prop_oneof![3 => Just(0u8), 1 => 1u8..3], prop_oneof![3 => Just(0u8), 1 => 1u8..3]).prop_map(|(u, p)| Op::Attempt(u, p)),
        3 => (prop_oneof![3 => Just(0u8), 1 => 1u8..3], prop_oneof![3 => Just(0u8), 1 => 1u8..3], any::<bool>()).prop_map(|(u, p, b)| Op::SetTruth(u, p, b)),
        3 => (0u8..2).prop_map(Op::Wait),
    ];
    (prop::collection::vec(op, 6..16), prop_oneof![3 => Just(1u8), 1 => Just(0u8)]).prop_map(|(ops, timeout)| CacheCase { ops, timeout })
}

pub fn run_cache(c: &CacheCase, idx: usize) -> Result<(bool, serde_json::Value), Failure> {
    let dir = format!("{}/c07-{}-{}", std::env::var("VERIF_RUN_DIR").unwrap_or_else(|_| "/verif/.build/run/manual".into()), std::process::id(), idx);
    let _ = std::fs::create_dir_all(&dir);
    let truth = format!("{}/truth", dir);
    let calls = format!("{}/calls", dir);
    let _ = std::fs::write(&truth, "");
    let _ = std::fs::write(&calls, "");
    let yaml = format!(
        "required: true\nusers:\n  - username: alice\n    password: secret\ncmd: [\"/verif/tools/authcmd.sh\", \"{}\", \"{}\", \"#USER#\", \"#PASS#\"]\ncache:\n  timeout: {}\n",
        truth, calls, c.timeout
    );
    let tmo = c.timeout as u64 * 1000;
    let ops = c.ops.clone();
    let r = catch(move || {
        let rt = tokio::runtime::Builder::new_current_thread().enable_all().build().unwrap();
        rt.block_on(async move {
            let mut auth: AuthData = serde_yaml::from_str(&yaml).map_err(|e| Failure::new("harness-yaml", e.to_string()))?;
            auth.init().await.map_err(|e| Failure::new("harness-init", e.to_string()))?;
            let mut truth_now: HashMap<(String, String), bool> = HashMap::new();
            // model: cached verdict and when it was stored
            let mut cache: HashMap<(String, String), (bool, Instant)> = HashMap::new();
            let mut calls_seen = 0usize;
            let mut hit = false;
            let mut expiry = false;
            let mut truth_changed_under_cache = false;
            let mut trace = vec![];
            for (i, op) in ops.iter().enumerate() {
                match op {
                    Op::SetTruth(u, p, b) => {
                        let k = (CU[*u as usize % 3].to_string(), CP[*p as usize % 3].to_string());
                        truth_now.insert(k.clone(), *b);
                        let body: String = truth_now.iter().filter(|(_, v)| **v).map(|((u, p), _)| format!("{}\t{}\n", u, p)).collect();
                        let _ = std::fs::write(&truth, body);
                        if cache.contains_key(&k) {
                            truth_changed_under_cache = true;
                        }
                        trace.push(format!("truth({},{})={}", k.0, k.1, b));
                    }
                    Op::Wait(w) => {
                        tokio::time::sleep(Duration::from_millis(if *w == 0 { 300 } else { 1600 })).await;
                        trace.push(format!("wait{}", w));
                    }
                    Op::Attempt(u, p) => {
                        let k = (CU[*u as usize % 3].to_string(), CP[*p as usize % 3].to_string());
                        let t0 = Instant::now();
                        let got = auth.check(&Some(k.clone())).await;
                        let log = std::fs::read_to_string(&calls).unwrap_or_default();
                        let lines: Vec<&str> = log.lines().collect();
                        let new_calls: Vec<&str> = lines[calls_seen.min(lines.len())..].to_vec();
                        calls_seen = lines.len();
                        let called = !new_calls.is_empty();
                        let want_line = format!("{}\t{}", k.0, k.1);
                        if new_calls.iter().any(|l| *l != want_line) {
                            return Err(Failure::new("command-called-for-other-pair", format!("op #{}: attempt ({},{}) made the command run for {:?}", i, k.0, k.1, new_calls)));
                        }
                        let truth_val = truth_now.get(&k).cloned().unwrap_or(false);
                        let cached = cache.get(&k).cloned();
                        let age = cached.map(|(_, at)| t0.duration_since(at));
                        let fresh = tmo > 0 && matches!(age, Some(a) if a < Duration::from_millis(tmo - 300));
                        let stale = tmo == 0 || matches!(age, Some(a) if a > Duration::from_millis(tmo + 400)) || cached.is_none();
                        if called {
                            // a consultation: the verdict must be the truth of this very pair, now
                            if got != truth_val {
                                return Err(Failure::new("verdict-differs-from-command", format!("op #{}: the command says {} for ({},{}) but the verdict was {}", i, truth_val, k.0, k.1, got)));
                            }
                            if fresh {
                                return Err(Failure::new("cache-not-used", format!("op #{}: ({},{}) was cached {:?} ago but the command ran again", i, k.0, k.1, age)));
                            }
                            cache.insert(k.clone(), (got, Instant::now()));
                            if cached.is_some() {
                                expiry = true;
                            }
                        } else {
                            // no consultation: only a cached verdict for the identical pair can justify it
                            match cached {
                                None => {
                                    return Err(Failure::new(
                                        if got { "accepted-without-justification" } else { "rejected-without-consulting" },
                                        format!("op #{}: ({},{}) got verdict {} with no command call and no cached verdict for this exact pair (history {:?})", i, k.0, k.1, got, trace),
                                    ))
                                }
                                Some((v, _)) => {
                                    if stale {
                                        return Err(Failure::new("stale-verdict-reused", format!("op #{}: the cached verdict for ({},{}) is {:?} old (timeout {} s) but was reused", i, k.0, k.1, age, tmo / 1000)));
                                    }
                                    if got != v {
                                        return Err(Failure::new("cached-verdict-changed", format!("op #{}: cached verdict {} for ({},{}) but got {}", i, v, k.0, k.1, got)));
                                    }
                                    hit = true;
                                }
                            }
                        }
                        trace.push(format!("attempt({},{})={}{}", k.0, k.1, got, if called { "*" } else { "" }));
                    }
                }
            }
            Ok::<_, Failure>(((hit && expiry || tmo == 0) && truth_changed_under_cache, json!({"history": trace, "cache_timeout_s": tmo / 1000})))
        })
    });
    let _ = std::fs::remove_dir_all(&dir);
    match r {
        Ok(x) => x,
        Err(p) => Err(Failure::new(format!("panic:{}", p.class()), p.msg)),
    }
}

struct CacheCheck;
impl SubCheck for CacheCheck {
    fn property(&self) -> &'static str {
        "C07"
    }
    fn name(&self) -> &'static str {
        "verdict-cache"
    }
    fn rule(&self) -> String {
        "histories of 4-13 operations against the real AuthData with an external command (a script that consults a truth file and logs every call) and a verdict cache of 1 s (3 in 4 histories) or 0 s = disabled, real clock, run in parallel: Attempt(user, pass) over 3x3 similar names/passwords (carol/carol2, pw1/pw1x), SetTruth(user, pass, bool), Wait(0.3 s | 1.6 s); oracle: every verdict is justified by a command call made for exactly that pair at that moment, or by a cached verdict for the identical pair younger than the timeout (0.7 s / 1.4 s guard bands); the command is never run for another pair; a fresh cache entry is used; with the cache disabled every attempt must consult the command; non-trivial = a history with a truth change under a cached verdict and (a cache hit and an expiry, or a disabled cache)".into()
    }
    fn run(&self, part: &mut Part) {
        let n = part.tier.pick(40, 800) as usize;
        let cases = part.draw("histories", n, &cache_strategy());
        let results: Vec<(CacheCase, Result<(bool, serde_json::Value), Failure>)> = std::thread::scope(|s| {
            let mut out = vec![];
            for (ci, chunk) in cases.chunks(20).enumerate() {
                let hs: Vec<_> = chunk
                    .iter()
                    .cloned()
                    .enumerate()
                    .map(|(i, c)| {
                        s.spawn(move || {
                            let r = run_cache(&c, ci * 20 + i);
                            (c, r)
                        })
                    })
                    .collect();
                for h in hs {
                    if let Ok(x) = h.join() {
                        out.push(x);
                    }
                }
            }
            out
        });
        for (c, r) in results {
            let mut info = CaseInfo::default();
            match r {
                Ok((nt, sample)) => {
                    info.nontrivial = nt;
                    if part.samples.len() < 3 {
                        info.sample = Some(sample);
                    }
                    part.account(vcore::digest_json(&c), info);
                }
                Err(f) => {
                    part.account(vcore::digest_json(&c), info);
                    part.record_failure(f, serde_json::to_value(&c).unwrap());
                }
            }
        }
    }
    fn replay(&self, case: &serde_json::Value) -> Result<(), Failure> {
        let c: CacheCase = serde_json::from_value(case.clone()).map_err(|e| Failure::new("replay-decode", e.to_string()))?;
        run_cache(&c, 9999).map(|_| ())
    }
}

pub fn checks() -> Vec<Box<dyn SubCheck>> {
    vec![
        Box::new(vcore::PropCheck {
            property: "C07",
            name: "negotiation",
            rule: "the real SocksRequest::read_from + PasswordAuth + AuthData::check against an interactive reference client: method offers (none / userpass in either order, neither, duplicates, 200-255 arbitrary methods, empty), credentials from near-miss tables (right user wrong password, case variants, trailing blank / NUL, prefixes, empty, 255-byte, non-UTF-8), SOCKS4 user ids, required true/false, whole or byte-at-a-time delivery; oracle: with required=true a request is accepted for routing only if user/pass authentication was selected and the exact pair is a configured account, 'no authentication' is never selected, a valid account offering user/pass gets through (positive control); the selected method was offered; non-trivial = required and the peer lacks valid credentials",
            quick: 20_000,
            thorough: 600_000,
            max_shrink: 500,
            strategy: neg_strategy,
            case: run_neg,
        }),
        Box::new(CacheCheck),
    ]
}
