//! Panic capture, runtimes, scripted I/O.
use std::cell::RefCell;
use std::future::Future;
use std::panic::{catch_unwind, AssertUnwindSafe};
use std::pin::Pin;
use std::sync::atomic::{AtomicUsize, Ordering};
use std::sync::{Arc, Mutex};
use std::task::{Context, Poll};
use tokio::io::{AsyncRead, AsyncWrite, DuplexStream, ReadBuf};

thread_local! {
    static LAST_PANIC: RefCell<Option<String>> = RefCell::new(None);
}
static GLOBAL_PANIC: Mutex<Option<String>> = Mutex::new(None);

pub fn install_panic_hook() {
    std::panic::set_hook(Box::new(|info| {
        let msg = if let Some(s) = info.payload().downcast_ref::<&str>() {
            s.to_string()
        } else if let Some(s) = info.payload().downcast_ref::<String>() {
            s.clone()
        } else {
            "<non-string panic>".to_string()
        };
        let loc = info
            .location()
            .map(|l| {
                let f = l.file();
                let f = f.strip_prefix("/repo/").unwrap_or(f);
                format!("{}:{}", f, l.line())
            })
            .unwrap_or_default();
        let full = format!("{} @ {}", msg, loc);
        LAST_PANIC.with(|p| *p.borrow_mut() = Some(full.clone()));
        if let Ok(mut g) = GLOBAL_PANIC.lock() {
            *g = Some(full);
        }
        if std::env::var("VERIF_SHOW_PANICS").is_ok() {
            eprintln!("panic: {} @ {}", msg, loc);
        }
    }));
}

/// Description of a caught panic: message and source location (file relative to /repo).
#[derive(Debug, Clone)]
pub struct Panicked {
    pub msg: String,
}

impl Panicked {
    /// a stable short class for keys: the source file (without line) plus the leading words of the message
    pub fn class(&self) -> String {
        let (m, loc) = match self.msg.rsplit_once(" @ ") {
            Some((m, l)) => (m, l),
            None => (self.msg.as_str(), ""),
        };
        let file = loc.split(':').next().unwrap_or("");
        let words: Vec<&str> = m
            .split(|c: char| !c.is_ascii_alphabetic())
            .filter(|w| !w.is_empty())
            .take(4)
            .collect();
        format!("{}:{}", file, words.join("-"))
    }
}

pub fn catch<T>(f: impl FnOnce() -> T) -> Result<T, Panicked> {
    LAST_PANIC.with(|p| *p.borrow_mut() = None);
    if let Ok(mut g) = GLOBAL_PANIC.lock() {
        *g = None;
    }
    match catch_unwind(AssertUnwindSafe(f)) {
        Ok(v) => Ok(v),
        Err(_) => {
            let msg = LAST_PANIC
                .with(|p| p.borrow_mut().take())
                .or_else(|| GLOBAL_PANIC.lock().ok().and_then(|mut g| g.take()))
                .unwrap_or_else(|| "<unknown panic>".into());
            Err(Panicked { msg })
        }
    }
}

/// Take a panic message recorded on any thread since the last `catch`/`take` (spawned tasks).
pub fn take_global_panic() -> Option<Panicked> {
    GLOBAL_PANIC
        .lock()
        .ok()
        .and_then(|mut g| g.take())
        .map(|msg| Panicked { msg })
}

/// Run a future to completion on a fresh current-thread runtime (paused clock optional).
pub fn block_on<F: Future>(f: F) -> F::Output {
    let rt = tokio::runtime::Builder::new_current_thread()
        .enable_all()
        .build()
        .unwrap();
    rt.block_on(f)
}

pub fn block_on_paused<F: Future>(f: F) -> F::Output {
    let rt = tokio::runtime::Builder::new_current_thread()
        .enable_all()
        .start_paused(true)
        .build()
        .unwrap();
    rt.block_on(f)
}

/// Outcome of running a future under a poll budget.
pub enum Budgeted<T> {
    Done(T),
    Exhausted,
}

/// Poll `fut` on the current runtime at most `budget` times (each time it yields back to the
/// scheduler so that other tasks make progress). A future that is still pending after the budget is a
/// wedge, detected without any clock.
pub async fn with_poll_budget<F: Future>(fut: F, budget: usize) -> Budgeted<F::Output> {
    tokio::pin!(fut);
    let mut polls = 0usize;
    std::future::poll_fn(move |cx| {
        polls += 1;
        if polls > budget {
            return Poll::Ready(Budgeted::Exhausted);
        }
        match fut.as_mut().poll(cx) {
            Poll::Ready(v) => Poll::Ready(Budgeted::Done(v)),
            Poll::Pending => Poll::Pending,
        }
    })
    .await
}

/// Run until quiescent: when the only thing left is `fut` pending with no wakeups, a paused-clock
/// runtime would advance time; on a normal runtime we bound it with a (generous) wall clock as a
/// backstop only.
pub async fn with_deadline<F: Future>(fut: F, secs: u64) -> Option<F::Output> {
    tokio::time::timeout(std::time::Duration::from_secs(secs), fut)
        .await
        .ok()
}

/// I/O schedule: cyclic lists of per-call limits.
#[derive(Clone, Debug, Default, serde::Serialize, serde::Deserialize)]
pub struct Sched {
    /// max bytes delivered per read call (0 is treated as 1)
    pub reads: Vec<u16>,
    /// max bytes accepted per write call (0 is treated as 1)
    pub writes: Vec<u16>,
    /// whether the n-th poll returns Pending first (with an immediate self-wake)
    pub pend: Vec<bool>,
}

impl Sched {
    pub fn whole() -> Self {
        Sched::default()
    }
    pub fn bytewise() -> Self {
        Sched {
            reads: vec![1],
            writes: vec![1],
            pend: vec![],
        }
    }
}

/// Wraps an AsyncRead+AsyncWrite and applies a `Sched` to every poll; optionally fails reads with an
/// error once `fail_read_at` bytes have been delivered.
pub struct Scripted<T> {
    inner: T,
    sched: Sched,
    ri: usize,
    wi: usize,
    pi: usize,
    r_pended: bool,
    w_pended: bool,
    pub read_total: Arc<AtomicUsize>,
    pub write_total: Arc<AtomicUsize>,
    pub fail_read_at: Option<usize>,
    pub fail_write_at: Option<usize>,
    pub shutdown_seen: Arc<AtomicUsize>,
}

impl<T> Scripted<T> {
    pub fn new(inner: T, sched: Sched) -> Self {
        Scripted {
            inner,
            sched,
            ri: 0,
            wi: 0,
            pi: 0,
            r_pended: false,
            w_pended: false,
            read_total: Default::default(),
            write_total: Default::default(),
            fail_read_at: None,
            fail_write_at: None,
            shutdown_seen: Default::default(),
        }
    }
    /// Each direction keeps its own "already pended once" flag: the read and the write half of one
    /// stream are polled from the same task (copy_bidi) and must not consume each other's turn.
    fn maybe_pend(&mut self, cx: &mut Context<'_>, write: bool) -> bool {
        if self.sched.pend.is_empty() {
            return false;
        }
        let flag = if write { &mut self.w_pended } else { &mut self.r_pended };
        if *flag {
            *flag = false;
            return false;
        }
        let p = self.sched.pend[self.pi % self.sched.pend.len()];
        self.pi += 1;
        if p {
            *flag = true;
            cx.waker().wake_by_ref();
            true
        } else {
            false
        }
    }
}

impl<T: AsyncRead + Unpin> AsyncRead for Scripted<T> {
    fn poll_read(mut self: Pin<&mut Self>, cx: &mut Context<'_>, buf: &mut ReadBuf<'_>) -> Poll<std::io::Result<()>> {
        if let Some(at) = self.fail_read_at {
            if self.read_total.load(Ordering::Relaxed) >= at {
                return Poll::Ready(Err(std::io::Error::new(
                    std::io::ErrorKind::ConnectionReset,
                    "injected read error",
                )));
            }
        }
        if self.maybe_pend(cx, false) {
            return Poll::Pending;
        }
        let mut lim = if self.sched.reads.is_empty() {
            usize::MAX
        } else {
            (self.sched.reads[self.ri % self.sched.reads.len()] as usize).max(1)
        };
        if let Some(at) = self.fail_read_at {
            lim = lim.min(at - self.read_total.load(Ordering::Relaxed)).max(1);
        }
        let lim = lim.min(buf.remaining());
        if lim == 0 {
            return Poll::Ready(Ok(()));
        }
        let me = &mut *self;
        let mut sub = buf.take(lim);
        match Pin::new(&mut me.inner).poll_read(cx, &mut sub) {
            Poll::Ready(Ok(())) => {
                let n = sub.filled().len();
                // safety: `sub` wrote into the unfilled part of `buf`
                unsafe { buf.assume_init(n) };
                buf.advance(n);
                me.ri += 1;
                me.read_total.fetch_add(n, Ordering::Relaxed);
                Poll::Ready(Ok(()))
            }
            other => other,
        }
    }
}

impl<T: AsyncWrite + Unpin> AsyncWrite for Scripted<T> {
    fn poll_write(mut self: Pin<&mut Self>, cx: &mut Context<'_>, data: &[u8]) -> Poll<std::io::Result<usize>> {
        if let Some(at) = self.fail_write_at {
            if self.write_total.load(Ordering::Relaxed) >= at {
                return Poll::Ready(Err(std::io::Error::new(
                    std::io::ErrorKind::BrokenPipe,
                    "injected write error",
                )));
            }
        }
        if self.maybe_pend(cx, true) {
            return Poll::Pending;
        }
        let lim = if self.sched.writes.is_empty() {
            usize::MAX
        } else {
            (self.sched.writes[self.wi % self.sched.writes.len()] as usize).max(1)
        };
        let lim = lim.min(data.len());
        if lim == 0 {
            return Poll::Ready(Ok(0));
        }
        let me = &mut *self;
        match Pin::new(&mut me.inner).poll_write(cx, &data[..lim]) {
            Poll::Ready(Ok(n)) => {
                me.wi += 1;
                me.write_total.fetch_add(n, Ordering::Relaxed);
                Poll::Ready(Ok(n))
            }
            other => other,
        }
    }
    fn poll_flush(mut self: Pin<&mut Self>, cx: &mut Context<'_>) -> Poll<std::io::Result<()>> {
        Pin::new(&mut self.inner).poll_flush(cx)
    }
    fn poll_shutdown(mut self: Pin<&mut Self>, cx: &mut Context<'_>) -> Poll<std::io::Result<()>> {
        self.shutdown_seen.fetch_add(1, Ordering::Relaxed);
        Pin::new(&mut self.inner).poll_shutdown(cx)
    }
}

/// A scripted in-memory connection: returns (proxy side, peer side). The proxy side is wrapped with
/// the schedule; the peer side is a plain duplex end the harness drives.
pub fn scripted_pair(cap: usize, sched: Sched) -> (Scripted<DuplexStream>, DuplexStream) {
    let (a, b) = tokio::io::duplex(cap.max(1));
    (Scripted::new(a, sched), b)
}

/// Deliver `data` to a duplex end in segments given by `cuts` (sorted offsets), yielding between
/// segments so the reader observes each segment boundary.
pub async fn write_segments(w: &mut (impl AsyncWrite + Unpin), data: &[u8], cuts: &[usize]) -> std::io::Result<()> {
    use tokio::io::AsyncWriteExt;
    let mut last = 0;
    for &c in cuts.iter().chain(std::iter::once(&data.len())) {
        let c = c.min(data.len());
        if c > last {
            w.write_all(&data[last..c]).await?;
            w.flush().await?;
            for _ in 0..3 {
                tokio::task::yield_now().await;
            }
            last = c;
        }
    }
    Ok(())
}

/// Map a 16-bit selector monotonically onto 0..n (shrinks towards 0).
pub fn sel(s: u16, n: usize) -> usize {
    if n == 0 {
        0
    } else {
        ((s as usize) * n) >> 16
    }
}
