//! Running the real binary (built from /repo's working tree by `check`) from the in-process engine:
//! the generators live here, the subject is the process.
use std::io::{Read, Write};
use std::net::{SocketAddr, TcpListener, TcpStream};
use std::os::unix::process::ExitStatusExt;
use std::path::PathBuf;
use std::process::{Child, Command, Stdio};
use std::sync::atomic::{AtomicU32, Ordering};
use std::time::{Duration, Instant};

static SEQ: AtomicU32 = AtomicU32::new(0);

pub fn repo_bin() -> PathBuf {
    std::env::var("VERIF_REPO_BIN").map(PathBuf::from).unwrap_or_else(|_| PathBuf::from("/verif/.build/repo/debug/redproxy-rs"))
}

pub fn run_dir() -> PathBuf {
    let d = PathBuf::from(std::env::var("VERIF_RUN_DIR").unwrap_or_else(|_| "/verif/.build/run/manual".into())).join(format!("bin-{}", std::process::id()));
    let _ = std::fs::create_dir_all(&d);
    d
}

pub fn free_port() -> u16 {
    let base = 10000 + (std::process::id() % 200) as u16 * 100;
    for _ in 0..4000 {
        let n = SEQ.fetch_add(1, Ordering::Relaxed);
        let p = base + (n % 2000) as u16;
        if let Ok(l) = TcpListener::bind(("0.0.0.0", p)) {
            if std::net::UdpSocket::bind(("0.0.0.0", p)).is_ok() {
                drop(l);
                return p;
            }
        }
    }
    TcpListener::bind("127.0.0.1:0").unwrap().local_addr().unwrap().port()
}

#[derive(Debug, Clone, PartialEq, Eq)]
pub enum Exit {
    Running,
    Code(i32),
    Signal(i32),
}

pub struct Bin {
    pub child: Child,
    pub dir: PathBuf,
    pub log: PathBuf,
}

impl Bin {
    /// start with `yaml`; returns once every port in `ready` accepts or the process has exited
    pub fn start(yaml: &str, ready: &[u16], wait: Duration) -> Result<Bin, String> {
        let n = SEQ.fetch_add(1, Ordering::Relaxed);
        let dir = run_dir().join(format!("p{}", n));
        std::fs::create_dir_all(&dir).map_err(|e| e.to_string())?;
        let cfg = dir.join("config.yaml");
        std::fs::write(&cfg, yaml).map_err(|e| e.to_string())?;
        let log = dir.join("out.log");
        let logf = std::fs::File::create(&log).map_err(|e| e.to_string())?;
        let child = Command::new(repo_bin())
            .arg("-c")
            .arg(&cfg)
            .arg("-l")
            .arg("warn")
            .current_dir(&dir)
            .stdin(Stdio::null())
            .stdout(logf.try_clone().map(Stdio::from).unwrap_or_else(|_| Stdio::null()))
            .stderr(Stdio::from(logf))
            .spawn()
            .map_err(|e| format!("spawn {}: {}", repo_bin().display(), e))?;
        let mut b = Bin { child, dir, log };
        let deadline = Instant::now() + wait;
        for p in ready {
            loop {
                if b.exit() != Exit::Running {
                    return Ok(b);
                }
                if TcpStream::connect_timeout(&SocketAddr::from(([127, 0, 0, 1], *p)), Duration::from_millis(200)).is_ok() {
                    break;
                }
                if Instant::now() > deadline {
                    return Ok(b);
                }
                std::thread::sleep(Duration::from_millis(10));
            }
        }
        Ok(b)
    }
    pub fn exit(&mut self) -> Exit {
        match self.child.try_wait() {
            Ok(Some(st)) => match st.code() {
                Some(c) => Exit::Code(c),
                None => Exit::Signal(st.signal().unwrap_or(0)),
            },
            _ => Exit::Running,
        }
    }
    pub fn output(&self) -> String {
        String::from_utf8_lossy(&std::fs::read(&self.log).unwrap_or_default()).to_string()
    }
    pub fn tail(&self, n: usize) -> String {
        let s = self.output();
        let l: Vec<&str> = s.lines().collect();
        l[l.len().saturating_sub(n)..].join(" | ")
    }
}

impl Drop for Bin {
    fn drop(&mut self) {
        let _ = self.child.kill();
        let _ = self.child.wait();
        let _ = std::fs::remove_dir_all(&self.dir);
    }
}

/// `redproxy-rs -c <file> -t 1`: (exit, combined output, seconds)
pub fn config_test(yaml: &str, limit: Duration) -> (Exit, String, f64) {
    let n = SEQ.fetch_add(1, Ordering::Relaxed);
    let dir = run_dir().join(format!("t{}", n));
    let _ = std::fs::create_dir_all(&dir);
    let cfg = dir.join("config.yaml");
    let _ = std::fs::write(&cfg, yaml);
    let out = dir.join("out.log");
    let t0 = Instant::now();
    let r = (|| {
        let logf = std::fs::File::create(&out).map_err(|e| e.to_string())?;
        let mut child = Command::new(repo_bin())
            .arg("-c")
            .arg(&cfg)
            .arg("-t")
            .arg("1")
            .arg("-l")
            .arg("erro")
            .current_dir(&dir)
            .stdin(Stdio::null())
            .stdout(logf.try_clone().map(Stdio::from).map_err(|e| e.to_string())?)
            .stderr(Stdio::from(logf))
            .spawn()
            .map_err(|e| e.to_string())?;
        loop {
            match child.try_wait() {
                Ok(Some(st)) => {
                    return Ok(match st.code() {
                        Some(c) => Exit::Code(c),
                        None => Exit::Signal(st.signal().unwrap_or(0)),
                    })
                }
                Ok(None) => {
                    if t0.elapsed() > limit {
                        let _ = child.kill();
                        let _ = child.wait();
                        return Ok(Exit::Running);
                    }
                    std::thread::sleep(Duration::from_millis(3));
                }
                Err(e) => return Err(e.to_string()),
            }
        }
    })();
    let text = String::from_utf8_lossy(&std::fs::read(&out).unwrap_or_default()).to_string();
    let _ = std::fs::remove_dir_all(&dir);
    match r {
        Ok(e) => (e, text, t0.elapsed().as_secs_f64()),
        Err(e) => (Exit::Code(-1), e, t0.elapsed().as_secs_f64()),
    }
}

/// one HTTP/1.1 exchange with `Connection: close`; Ok((status, body)) or Err(what happened)
pub fn http(port: u16, method: &str, path: &str, body: Option<&[u8]>, limit: Duration) -> Result<(u16, Vec<u8>), String> {
    let mut s = TcpStream::connect_timeout(&SocketAddr::from(([127, 0, 0, 1], port)), Duration::from_secs(2)).map_err(|e| format!("connect: {}", e))?;
    let _ = s.set_read_timeout(Some(limit));
    let _ = s.set_write_timeout(Some(limit));
    let mut req = format!("{} {} HTTP/1.1\r\nHost: x\r\nConnection: close\r\n", method, path).into_bytes();
    if let Some(b) = body {
        req.extend_from_slice(format!("Content-Type: application/json\r\nContent-Length: {}\r\n", b.len()).as_bytes());
    }
    req.extend_from_slice(b"\r\n");
    if let Some(b) = body {
        req.extend_from_slice(b);
    }
    // the server may answer (413) and close before it has read everything
    let _ = s.write_all(&req);
    let mut resp = vec![];
    let mut buf = [0u8; 16384];
    let t0 = Instant::now();
    loop {
        match s.read(&mut buf) {
            Ok(0) => break,
            Ok(n) => resp.extend_from_slice(&buf[..n]),
            Err(e) => {
                if resp.is_empty() {
                    return Err(format!("read: {}", e));
                }
                break;
            }
        }
        if t0.elapsed() > limit {
            return Err("timeout".into());
        }
    }
    if resp.len() < 12 || !resp.starts_with(b"HTTP/1.") {
        return Err(format!("no HTTP response ({} bytes)", resp.len()));
    }
    let status = std::str::from_utf8(&resp[9..12]).ok().and_then(|s| s.parse().ok()).ok_or("bad status line")?;
    let body = resp.windows(4).position(|w| w == b"\r\n\r\n").map(|p| resp[p + 4..].to_vec()).unwrap_or_default();
    Ok((status, body))
}

/// write `hello` to a TCP port and read what comes back for up to `limit`
pub fn poke(port: u16, hello: &[u8], limit: Duration) -> Result<Vec<u8>, String> {
    let mut s = TcpStream::connect_timeout(&SocketAddr::from(([127, 0, 0, 1], port)), Duration::from_secs(2)).map_err(|e| format!("connect: {}", e))?;
    let _ = s.set_read_timeout(Some(limit));
    let _ = s.write_all(hello);
    let mut buf = [0u8; 4096];
    match s.read(&mut buf) {
        Ok(n) => Ok(buf[..n].to_vec()),
        Err(_) => Ok(vec![]),
    }
}

/// a TCP echo origin on a std thread
pub struct Echo {
    pub port: u16,
}
impl Echo {
    pub fn start() -> Echo {
        let l = TcpListener::bind("127.0.0.1:0").unwrap();
        let port = l.local_addr().unwrap().port();
        std::thread::spawn(move || {
            for s in l.incoming().flatten() {
                std::thread::spawn(move || {
                    let mut s = s;
                    let _ = s.set_read_timeout(Some(Duration::from_secs(5)));
                    let mut b = [0u8; 4096];
                    while let Ok(n) = s.read(&mut b) {
                        if n == 0 || s.write_all(&b[..n]).is_err() {
                            break;
                        }
                    }
                });
            }
        });
        Echo { port }
    }
}
