//! C12 — stream decoders are insensitive to segmentation; truncated input never yields a message.
use crate::harness::codec::{drive, run_async, Decoder, DriveFail, Outcome};
use crate::harness::util::sel;
use proptest::prelude::*;
use serde::{Deserialize, Serialize};
use serde_json::json;
use vcore::refcodec::{self as rc, Dest, Host, Rpfm};
use vcore::{fail, CaseInfo, Failure, SubCheck};

#[derive(Clone, Debug, Serialize, Deserialize)]
pub enum Msg {
    HttpReq { dest: Dest, headers: Vec<(String, String)> },
    HttpResp { code: u16, reason: String, headers: Vec<(String, String)> },
    Socks4 { cmd: u8, dest: Dest, userid: String },
    Socks5 { extra_methods: Vec<u8>, auth: Option<(String, String)>, cmd: u8, dest: Dest },
    SocksResp4 { cd: u8, port: u16, ip: [u8; 4] },
    SocksResp5 { rep: u8, dest: Dest },
    Rpfm { frames: Vec<(u32, Option<Dest>, u64, u32)> },
}

#[derive(Clone, Debug, Serialize, Deserialize)]
pub struct Case {
    pub msg: Msg,
    pub trail_tag: u64,
    pub trail_len: u16,
    /// cut selectors for the random cut sets (each maps to an offset of M‖P)
    pub cutsets: Vec<Vec<u16>>,
    /// truncation selector
    pub trunc: Vec<u16>,
}

fn name_strategy() -> impl Strategy<Value = String> {
    prop_oneof![
        4 => "[a-z0-9][a-z0-9.-]{0,30}[a-z0-9]",
        1 => "[a-z]{4,8}(\\.[a-z0-9-]{1,20}){1,8}",
        1 => "[a-z]{200,250}",
        1 => "[a-z0-9]{1,3}",
    ]
}

pub fn dest_strategy(allow_v6: bool, allow_name: bool) -> BoxedStrategy<Dest> {
    let port = prop_oneof![Just(0u16), Just(1), Just(80), Just(255), Just(256), Just(65535), any::<u16>()];
    let mut opts: Vec<BoxedStrategy<Host>> = vec![any::<[u8; 4]>()
        .prop_map(|mut a| {
            if a[0] == 0 {
                a[0] = 10; // 0.0.0.x is the SOCKS4a marker
            }
            Host::V4(a)
        })
        .boxed()];
    if allow_v6 {
        opts.push(any::<[u8; 16]>().prop_map(Host::V6).boxed());
    }
    if allow_name {
        opts.push(name_strategy().prop_map(|s| Host::Name(s.into_bytes())).boxed());
        opts.push(name_strategy().prop_map(|s| Host::Name(s.into_bytes())).boxed());
    }
    (proptest::strategy::Union::new(opts), port)
        .prop_map(|(host, port)| Dest { host, port })
        .boxed()
}

fn headers_strategy() -> impl Strategy<Value = Vec<(String, String)>> {
    prop::collection::vec(("[A-Za-z][A-Za-z0-9-]{0,20}", "[!-~]([ -~]{0,40}[!-~])?"), 0..20)
}

fn msg_strategy() -> impl Strategy<Value = Msg> {
    prop_oneof![
        3 => (dest_strategy(true, true), headers_strategy()).prop_map(|(dest, headers)| Msg::HttpReq { dest, headers }),
        2 => (100u16..600, "[A-Za-z][A-Za-z ]{0,20}[a-z]", headers_strategy()).prop_map(|(code, reason, headers)| Msg::HttpResp { code, reason, headers }),
        3 => (1u8..3, dest_strategy(false, true), "[a-zA-Z0-9]{0,12}").prop_map(|(cmd, dest, userid)| Msg::Socks4 { cmd, dest, userid }),
        4 => (prop::collection::vec(prop_oneof![Just(1u8), Just(3u8), 4u8..255], 0..6), prop::option::of(("[a-z0-9]{0,20}", "[ -~]{0,20}")), 1u8..4, dest_strategy(true, true))
            .prop_map(|(extra_methods, auth, cmd, dest)| Msg::Socks5 { extra_methods, auth, cmd, dest }),
        1 => (90u8..94, any::<u16>(), any::<[u8;4]>()).prop_map(|(cd, port, ip)| Msg::SocksResp4 { cd, port, ip }),
        2 => (0u8..9, dest_strategy(true, true)).prop_map(|(rep, dest)| Msg::SocksResp5 { rep, dest }),
        4 => prop::collection::vec((any::<u32>(), prop::option::of(dest_strategy(true, true)), any::<u64>(), prop_oneof![Just(0u32), Just(1), 0u32..64, 0u32..3000, Just(65535)]), 1..6)
            .prop_map(|frames| Msg::Rpfm { frames }),
    ]
}

pub fn case_strategy() -> impl Strategy<Value = Case> {
    (
        msg_strategy(),
        any::<u64>(),
        prop_oneof![Just(0u16), 1u16..16, 0u16..4096],
        prop::collection::vec(prop::collection::vec(any::<u16>(), 1..8), 1..4),
        prop::collection::vec(any::<u16>(), 1..4),
    )
        .prop_map(|(msg, trail_tag, trail_len, cutsets, trunc)| Case {
            msg,
            trail_tag,
            trail_len,
            cutsets,
            trunc,
        })
}

pub struct Encoded {
    pub dec: Decoder,
    pub bytes: Vec<u8>,
    /// offsets strictly inside a length-prefixed or delimiter-terminated field
    pub field_interiors: Vec<(usize, usize)>,
    pub want_dest: Option<Dest>,
    pub want_writes: Option<Vec<u8>>,
    pub want_repr_contains: Vec<String>,
    /// for RPFM: the byte length of each frame
    pub frame_lens: Vec<usize>,
    /// does the decoder consume trailing bytes as more messages (RPFM)? then no trailing payload is appended
    pub framed_stream: bool,
}

fn hdrs(h: &[(String, String)]) -> Vec<(Vec<u8>, Vec<u8>)> {
    h.iter().map(|(k, v)| (k.as_bytes().to_vec(), v.as_bytes().to_vec())).collect()
}

pub fn encode(msg: &Msg) -> Encoded {
    match msg {
        Msg::HttpReq { dest, headers } => {
            let bytes = rc::encode_connect(&dest.authority(), &hdrs(headers));
            let mut wr = vec![format!("resource: {:?}", dest.render()), "method: \"CONNECT\"".to_string()];
            for (k, v) in headers {
                wr.push(format!("({:?}, {:?})", k, v));
            }
            Encoded {
                dec: Decoder::HttpReq,
                field_interiors: vec![(1, bytes.len() - 1)],
                bytes,
                want_dest: None,
                want_writes: Some(vec![]),
                want_repr_contains: wr,
                frame_lens: vec![],
                framed_stream: false,
            }
        }
        Msg::HttpResp { code, reason, headers } => {
            let bytes = rc::encode_response(*code, reason.as_bytes(), &hdrs(headers));
            let mut wr = vec![format!("code: {}", code), format!("status: {:?}", reason)];
            for (k, v) in headers {
                wr.push(format!("({:?}, {:?})", k, v));
            }
            Encoded {
                dec: Decoder::HttpResp,
                field_interiors: vec![(1, bytes.len() - 1)],
                bytes,
                want_dest: None,
                want_writes: Some(vec![]),
                want_repr_contains: wr,
                frame_lens: vec![],
                framed_stream: false,
            }
        }
        Msg::Socks4 { cmd, dest, userid } => {
            let bytes = rc::encode_socks4(*cmd, dest, userid.as_bytes()).unwrap();
            Encoded {
                dec: Decoder::SocksReq { required: false },
                field_interiors: vec![(8, bytes.len() - 1)],
                bytes,
                want_dest: Some(dest.clone()),
                want_writes: Some(vec![]),
                want_repr_contains: vec![format!("cmd={} ver=4 auth=Some(({:?}, \"\"))", cmd, userid)],
                frame_lens: vec![],
                framed_stream: false,
            }
        }
        Msg::Socks5 { extra_methods, auth, cmd, dest } => {
            let mut methods = extra_methods.clone();
            let required = auth.is_some();
            methods.push(if required { 2 } else { 0 });
            let mut bytes = rc::encode_socks5_greeting(&methods);
            let mut interiors = vec![(1, bytes.len() - 1)];
            let mut writes = vec![5u8, if required { 2 } else { 0 }];
            if let Some((u, p)) = auth {
                let a = bytes.len();
                bytes.extend_from_slice(&rc::encode_socks5_userpass(u.as_bytes(), p.as_bytes()));
                interiors.push((a + 1, bytes.len() - 1));
                writes.extend_from_slice(&[1, 0]);
            }
            let a = bytes.len();
            bytes.extend_from_slice(&rc::encode_socks5_request(*cmd, dest).unwrap());
            interiors.push((a + 4, bytes.len() - 1));
            let auth_repr = match auth {
                Some((u, p)) => format!("Some(({:?}, {:?}))", u, p),
                None => "None".to_string(),
            };
            Encoded {
                dec: Decoder::SocksReq { required },
                bytes,
                field_interiors: interiors,
                want_dest: Some(dest.clone()),
                want_writes: Some(writes),
                want_repr_contains: vec![format!("cmd={} ver=5 auth={}", cmd, auth_repr)],
                frame_lens: vec![],
                framed_stream: false,
            }
        }
        Msg::SocksResp4 { cd, port, ip } => {
            let bytes = rc::encode_socks4_reply(*cd, *port, *ip);
            Encoded {
                dec: Decoder::SocksResp,
                field_interiors: vec![(1, 7)],
                bytes,
                want_dest: Some(Dest {
                    host: Host::V4(*ip),
                    port: *port,
                }),
                want_writes: Some(vec![]),
                // the reader maps the version-4 grant (90) to the common success code 0; other codes are kept
                want_repr_contains: vec![format!("cmd: {}", if *cd == 90 { 0 } else { *cd })],
                frame_lens: vec![],
                framed_stream: false,
            }
        }
        Msg::SocksResp5 { rep, dest } => {
            let bytes = rc::encode_socks5_reply(*rep, dest).unwrap();
            Encoded {
                dec: Decoder::SocksResp,
                field_interiors: vec![(4, bytes.len() - 1)],
                bytes,
                want_dest: Some(dest.clone()),
                want_writes: Some(vec![]),
                want_repr_contains: vec![format!("cmd: {}", rep)],
                frame_lens: vec![],
                framed_stream: false,
            }
        }
        Msg::Rpfm { frames } => {
            let mut bytes = vec![];
            let mut lens = vec![];
            let mut interiors = vec![];
            for (session, addr, tag, len) in frames {
                let f = Rpfm {
                    session: *session,
                    addr: addr.clone(),
                    body: vcore::payload(*tag, *len as usize),
                };
                let b = rc::encode_rpfm(&f).unwrap();
                interiors.push((bytes.len() + 1, bytes.len() + b.len() - 1));
                lens.push(b.len());
                bytes.extend_from_slice(&b);
            }
            Encoded {
                dec: Decoder::Rpfm,
                bytes,
                field_interiors: interiors,
                want_dest: None,
                want_writes: None,
                want_repr_contains: vec![],
                frame_lens: lens,
                framed_stream: true,
            }
        }
    }
}

fn msg_kind(m: &Msg) -> &'static str {
    match m {
        Msg::HttpReq { .. } => "http-req",
        Msg::HttpResp { .. } => "http-resp",
        Msg::Socks4 { dest, .. } => {
            if matches!(dest.host, Host::Name(_)) {
                "socks4a"
            } else {
                "socks4"
            }
        }
        Msg::Socks5 { auth, .. } => {
            if auth.is_some() {
                "socks5-userpass"
            } else {
                "socks5"
            }
        }
        Msg::SocksResp4 { .. } => "socks4-reply",
        Msg::SocksResp5 { .. } => "socks5-reply",
        Msg::Rpfm { .. } => "rpfm",
    }
}

fn same(a: &Outcome, b: &Outcome) -> bool {
    a.parsed == b.parsed && a.dest == b.dest && a.rest == b.rest && a.writes == b.writes && a.frames == b.frames && a.err.is_some() == b.err.is_some()
}

fn rpfm_repr(frames: &[(u32, Option<Dest>, u64, u32)]) -> Vec<(Option<Dest>, Vec<u8>)> {
    frames
        .iter()
        .map(|(_, a, tag, len)| (a.clone(), vcore::payload(*tag, *len as usize)))
        .collect()
}

pub fn run_case(case: &Case, info: &mut CaseInfo) -> Result<(), Failure> {
    let enc = encode(&case.msg);
    let kind = msg_kind(&case.msg);
    let trail = if enc.framed_stream {
        vec![]
    } else {
        vcore::payload(case.trail_tag, case.trail_len as usize)
    };
    let mut input = enc.bytes.clone();
    input.extend_from_slice(&trail);
    let n = input.len();
    // cut sets: all-singletons, exhaustive for n<=12, generated otherwise
    // byte-at-a-time delivery of the whole message (every byte of the first 400, then the first 40
    // bytes after every frame start and the first 32 bytes of the trailing payload)
    let bytewise: Vec<usize> = {
        let m = enc.bytes.len();
        let mut c: Vec<usize> = (1..n.min(400)).collect();
        for (a, _) in &enc.field_interiors {
            c.extend((a.saturating_sub(1)..(a + 40).min(n)).filter(|x| *x >= 1));
        }
        c.extend(m.min(n)..(m + 32).min(n));
        c.retain(|x| *x >= 1 && *x < n);
        c.sort();
        c.dedup();
        c
    };
    let mut cutsets: Vec<Vec<usize>> = vec![bytewise];
    if n <= 12 && n >= 2 {
        for mask in 0u32..(1 << (n - 1)) {
            cutsets.push((1..n).filter(|i| mask & (1 << (i - 1)) != 0).collect());
        }
        info.class("cuts-exhaustive");
    } else {
        for cs in &case.cutsets {
            let mut c: Vec<usize> = cs.iter().map(|s| 1 + sel(*s, n.saturating_sub(1))).filter(|c| *c < n).collect();
            c.sort();
            c.dedup();
            cutsets.push(c);
        }
        // one cut in the middle of every field interior
        let mut c: Vec<usize> = enc.field_interiors.iter().filter(|(a, b)| b > a).map(|(a, b)| (a + b) / 2).collect();
        c.sort();
        c.dedup();
        cutsets.push(c);
    }
    let truncs: Vec<usize> = {
        let m = enc.bytes.len();
        let mut t: Vec<usize> = case.trunc.iter().map(|s| sel(*s, m)).collect();
        t.push(m - 1);
        t.push(0);
        t.sort();
        t.dedup();
        t
    };
    let msg = case.msg.clone();
    let dec = enc.dec;
    let res = run_async(async {
        let whole = drive(dec, &input, &[], None).await;
        // (1) the single-read result agrees with what was encoded
        if whole.parsed.is_none() {
            fail!(format!("valid-message-rejected:{}", kind), "{} rejected a valid message delivered in one read: {:?}", kind, whole.err);
        }
        let repr = whole.parsed.clone().unwrap();
        let all = format!("{} {}", repr, whole.extra.join(" "));
        for w in &enc.want_repr_contains {
            if !all.contains(w) {
                fail!(format!("parsed-differs:{}", kind), "{}: parsed message {:?} lacks {:?}", kind, all, w);
            }
        }
        if let Some(d) = &enc.want_dest {
            if whole.dest.as_ref() != Some(d) {
                fail!(format!("parsed-differs:{}", kind), "{}: destination parsed as {:?}, encoded {:?}", kind, whole.dest, d);
            }
        }
        if let Some(w) = &enc.want_writes {
            if &whole.writes != w {
                fail!(format!("writes-differ:{}", kind), "{}: decoder wrote {:02x?}, expected {:02x?}", kind, whole.writes, w);
            }
        }
        if !enc.framed_stream && whole.rest != trail {
            fail!(
                format!("residue-differs:{}", kind),
                "{}: {} bytes left unread after the message, {} bytes of payload followed it (whole delivery)",
                kind,
                whole.rest.len(),
                trail.len()
            );
        }
        if let Msg::Rpfm { frames } = &msg {
            if whole.frames != frames.len() || whole.err.is_some() {
                fail!("frames-differ:rpfm", "{} frames encoded, {} parsed, err={:?}", frames.len(), whole.frames, whole.err);
            }
            // compare with reference decoding
            let want: Vec<String> = rpfm_repr(frames)
                .iter()
                .map(|(a, b)| format!("{:?}|{}", a, vcore::fnv(b)))
                .collect();
            let mut got = vec![];
            let mut rest = &input[..];
            while let Ok(Some((f, used))) = rc::parse_rpfm(rest) {
                got.push(format!("{:?}|{}", f.addr, vcore::fnv(&f.body)));
                rest = &rest[used..];
            }
            if got != want {
                fail!("harness-bug", "reference RPFM decoder disagrees with reference encoder");
            }
        }
        // (2) every segmentation gives the same outcome
        for cuts in &cutsets {
            let seg = drive(dec, &input, cuts, None).await;
            if !same(&seg, &whole) {
                let what = if seg.parsed != whole.parsed {
                    "parsed"
                } else if seg.rest != whole.rest {
                    "residue"
                } else if seg.writes != whole.writes {
                    "writes"
                } else {
                    "status"
                };
                fail!(
                    format!("segmentation-changes-{}:{}", what, kind),
                    "{}: cut set {:?} of {} bytes changed the outcome: whole=({:?}, rest {}, err {:?}) segmented=({:?}, rest {}, err {:?})",
                    kind,
                    if cuts.len() > 12 { &cuts[..12] } else { &cuts[..] },
                    n,
                    whole.parsed.as_ref().map(|s| s.len()),
                    whole.rest.len(),
                    whole.err,
                    seg.parsed.as_ref().map(|s| s.len()),
                    seg.rest.len(),
                    seg.err
                );
            }
        }
        // (3) truncation never yields a message
        for t in &truncs {
            let tr = drive(dec, &enc.bytes[..*t], &[], None).await;
            match &msg {
                Msg::Rpfm { .. } => {
                    let mut full = 0;
                    let mut acc = 0;
                    for l in &enc.frame_lens {
                        if acc + l <= *t {
                            full += 1;
                            acc += l;
                        } else {
                            break;
                        }
                    }
                    if tr.frames != full {
                        fail!(
                            "truncation-yields-message:rpfm",
                            "prefix of {} bytes holds {} complete frames but {} were parsed",
                            t,
                            full,
                            tr.frames
                        );
                    }
                }
                _ => {
                    if tr.parsed.is_some() {
                        fail!(
                            format!("truncation-yields-message:{}", kind),
                            "{}: a {}-byte prefix of a {}-byte message was accepted as {:?}",
                            kind,
                            t,
                            enc.bytes.len(),
                            tr.parsed
                        );
                    }
                }
            }
        }
        Ok(())
    });
    match res {
        Ok(r) => r?,
        Err(DriveFail::Panic(p)) => fail!(format!("panic:{}", p.class()), "{}: decoder panicked: {}", kind, p.msg),
        Err(DriveFail::Wedged) => fail!(format!("wedged:{}", kind), "{}: decoder did not terminate on finite input + EOF", kind),
    }
    info.class(kind);
    let interior_cut = cutsets.iter().any(|c| c.iter().any(|x| enc.field_interiors.iter().any(|(a, b)| x >= a && x <= b)));
    info.nontrivial = interior_cut;
    info.sample = Some(json!({"kind": kind, "message_len": enc.bytes.len(), "trailing": trail.len(), "cutsets": cutsets.len(), "truncations": truncs.len()}));
    Ok(())
}

/// every truncation point of a sample of messages
#[derive(Clone, Debug, Serialize, Deserialize)]
pub struct TruncCase {
    pub msg: Msg,
}

pub fn run_trunc(c: &TruncCase, info: &mut CaseInfo) -> Result<(), Failure> {
    let case = Case {
        msg: c.msg.clone(),
        trail_tag: 0,
        trail_len: 0,
        cutsets: vec![],
        trunc: vec![],
    };
    let enc = encode(&case.msg);
    let kind = msg_kind(&case.msg);
    let m = enc.bytes.len();
    if m > 600 {
        info.class("skipped-long");
        return Ok(());
    }
    let dec = enc.dec;
    let res = run_async(async {
        for t in 0..m {
            let tr = drive(dec, &enc.bytes[..t], &[], None).await;
            if enc.framed_stream {
                let mut full = 0;
                let mut acc = 0;
                for l in &enc.frame_lens {
                    if acc + l <= t {
                        full += 1;
                        acc += l;
                    } else {
                        break;
                    }
                }
                if tr.frames != full {
                    fail!("truncation-yields-message:rpfm", "prefix of {} bytes holds {} complete frames but {} were parsed", t, full, tr.frames);
                }
            } else if tr.parsed.is_some() {
                fail!(
                    format!("truncation-yields-message:{}", kind),
                    "{}: a {}-byte prefix of a {}-byte message was accepted as {:?}",
                    kind,
                    t,
                    m,
                    tr.parsed
                );
            }
        }
        Ok(())
    });
    match res {
        Ok(r) => r?,
        Err(DriveFail::Panic(p)) => fail!(format!("panic:{}", p.class()), "{}: decoder panicked: {}", kind, p.msg),
        Err(DriveFail::Wedged) => fail!(format!("wedged:{}", kind), "{}: decoder did not terminate", kind),
    }
    info.class(kind);
    info.nontrivial = true;
    info.sample = Some(json!({"kind": kind, "message_len": m, "truncation_points": m}));
    Ok(())
}

pub fn checks() -> Vec<Box<dyn SubCheck>> {
    vec![
        Box::new(vcore::PropCheck {
            property: "C12",
            name: "segment",
            rule: "valid message M from the independent reference encoders (HTTP CONNECT request head, HTTP response head, SOCKS4/4a, SOCKS5 greeting+[userpass]+request, SOCKS4/5 replies, 1-5 RPFM frames) followed by 0-4 KiB payload P; delivered whole, byte-by-byte, with 1-3 generated cut sets, with a cut in the middle of every field, and (|M||P| <= 12) with all 2^(n-1) cut sets; plus generated truncation points; oracle: same parsed message, same reply bytes, unread residue == P, parsed fields == encoded fields, truncated => no message; non-trivial = some cut falls strictly inside a length-prefixed / delimited field",
            quick: 2500,
            thorough: 150_000,
            max_shrink: 400,
            strategy: case_strategy,
            case: run_case,
        }),
        Box::new(vcore::PropCheck {
            property: "C12",
            name: "truncate",
            rule: "every truncation point 0..|M|-1 of generated valid messages (<= 600 bytes) of every codec followed by EOF: the reader must return an error / clean end of stream, never a message; for RPFM exactly the complete frames; every case non-trivial",
            quick: 300,
            thorough: 6000,
            max_shrink: 200,
            strategy: || msg_strategy().prop_map(|msg| TruncCase { msg }),
            case: run_trunc,
        }),
    ]
}
