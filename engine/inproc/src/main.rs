#![allow(dead_code, unused_imports, unused_variables, clippy::all)]
// The real crate root of redproxy-rs, re-rooted by build.rs (see DESIGN.md §1), followed by the
// harness. Harness modules are children of the real root and therefore see its private items.
include!(concat!(env!("OUT_DIR"), "/root.rs"));

#[path = "harness/mod.rs"]
mod harness;

fn main() {
    std::process::exit(harness::main());
}
