//! C13 — idle tunnels are closed after the configured timeout, and only then (real seconds, in parallel).
use crate::net::*;
use crate::world::*;
use serde::{Deserialize, Serialize};
use serde_json::json;
use std::net::SocketAddr;
use std::sync::Arc;
use std::time::{Duration, Instant};
use tokio::io::{AsyncReadExt, AsyncWriteExt};
use tokio::net::{TcpStream, UdpSocket};
use vcore::refcodec::{self as rc, Dest, Host};
use vcore::{CaseInfo, Failure, Part, SubCheck, Tier};

#[derive(Clone, Copy, Debug, PartialEq, Eq, Serialize, Deserialize)]
pub enum Kind {
    Http,
    Socks5,
    Socks4,
    Reverse,
    Socks5Udp,
    ReverseUdp,
    /// a UDP session carried inline over an HTTP CONNECT (Proxy-Protocol: udp): subject to timeouts.udp
    HttpUdp,
}

#[derive(Clone, Copy, Debug, PartialEq, Eq, Serialize, Deserialize)]
pub enum Pattern {
    Silent,
    BurstThenSilence,
    /// client sends one byte every 0.6 T, k times
    TrickleC2s(u8),
    /// origin sends one byte every 0.6 T, k times (the client stays silent)
    TrickleS2c(u8),
    Alternating(u8),
    /// the client half-closes after an echo; the origin keeps its side open and silent
    ClientHalfCloseThenSilence,
    /// the origin half-closes after an echo; the client keeps its side open and silent
    OriginHalfCloseThenSilence,
}

#[derive(Clone, Debug, Serialize, Deserialize)]
pub struct Case {
    /// configured (idle, udp); None = key absent
    pub idle: Option<u64>,
    pub udp: Option<u64>,
    pub kind: Kind,
    pub pattern: Pattern,
}

struct Instance {
    proxy: Proxy,
    http: u16,
    socks: u16,
    reverse: u16,
    reverse_udp: u16,
    api: u16,
}

async fn start_instance(idle: Option<u64>, udp: Option<u64>, origin: SocketAddr, udp_origin: SocketAddr) -> Result<Instance, String> {
    let (http, socks, reverse, reverse_udp, api) = (free_port(), free_port(), free_port(), free_port(), free_port());
    let mut timeouts = String::new();
    if idle.is_some() || udp.is_some() {
        timeouts.push_str("timeouts:\n");
        if let Some(i) = idle {
            timeouts.push_str(&format!("  idle: {}\n", i));
        }
        if let Some(u) = udp {
            timeouts.push_str(&format!("  udp: {}\n", u));
        }
    }
    let yaml = format!(
        r#"apiVersion: v1
kind: test
listeners:
  - name: http
    bind: 127.0.0.1:{http}
  - name: socks
    bind: 127.0.0.1:{socks}
  - name: reverse
    bind: 127.0.0.1:{reverse}
    target: {origin}
  - name: reverseudp
    type: reverse
    protocol: udp
    bind: 127.0.0.1:{reverse_udp}
    target: {udp_origin}
connectors:
  - name: direct
rules:
  - target: direct
metrics:
  bind: 127.0.0.1:{api}
  historySize: 200
{timeouts}ioParams:
  bufferSize: 4096
  useSplice: false
"#,
        http = http,
        socks = socks,
        reverse = reverse,
        reverse_udp = reverse_udp,
        origin = origin,
        udp_origin = udp_origin,
        api = api,
        timeouts = timeouts
    );
    let proxy = tokio::task::spawn_blocking(move || Proxy::start("c13", &yaml, &[http, socks, reverse, api], Some(api))).await.map_err(|e| e.to_string())??;
    Ok(Instance { proxy, http, socks, reverse, reverse_udp, api })
}

/// origin protocol: the first byte of a connection selects the behaviour: 'E' echo, 'T' k p: send k bytes with period p*10ms,
/// 'H' echo and stay open and silent after the client's FIN, 'F' echo, then send FIN and keep reading
async fn tcp_origin() -> (SocketAddr, tokio::task::JoinHandle<()>) {
    let l = tokio::net::TcpListener::bind("127.0.0.1:0").await.unwrap();
    let addr = l.local_addr().unwrap();
    let h = tokio::spawn(async move {
        loop {
            let (mut s, _) = match l.accept().await {
                Ok(x) => x,
                Err(_) => return,
            };
            tokio::spawn(async move {
                let mut buf = [0u8; 4096];
                let mut first = true;
                let mut hold = false;
                loop {
                    match s.read(&mut buf).await {
                        Ok(0) if hold => {
                            // half-closed by the peer: stay open, say nothing
                            tokio::time::sleep(Duration::from_secs(30)).await;
                            break;
                        }
                        Ok(0) | Err(_) => break,
                        Ok(n) => {
                            if first && (buf[0] == b'H' || buf[0] == b'F') {
                                hold = true;
                                if s.write_all(&buf[..n]).await.is_err() {
                                    break;
                                }
                                if buf[0] == b'F' {
                                    let _ = s.shutdown().await;
                                }
                            } else if first && buf[0] == b'T' && n >= 3 {
                                let (k, p) = (buf[1], buf[2]);
                                for _ in 0..k {
                                    tokio::time::sleep(Duration::from_millis(p as u64 * 10)).await;
                                    if s.write_all(b"t").await.is_err() {
                                        return;
                                    }
                                }
                            } else if s.write_all(&buf[..n]).await.is_err() {
                                break;
                            }
                            first = false;
                        }
                    }
                }
            });
        }
    });
    (addr, h)
}

async fn udp_origin() -> (SocketAddr, tokio::task::JoinHandle<()>) {
    let s = UdpSocket::bind("127.0.0.1:0").await.unwrap();
    let addr = s.local_addr().unwrap();
    let h = tokio::spawn(async move {
        let mut buf = vec![0u8; 65536];
        loop {
            if let Ok((n, from)) = s.recv_from(&mut buf).await {
                let _ = s.send_to(&buf[..n], from).await;
            }
        }
    });
    (addr, h)
}

fn expected_timeout(c: &Case) -> u64 {
    match c.kind {
        Kind::Socks5Udp | Kind::ReverseUdp | Kind::HttpUdp => c.udp.unwrap_or(600),
        _ => c.idle.unwrap_or(600),
    }
}

async fn live_entry(api_port: u16, source: SocketAddr) -> Option<serde_json::Value> {
    let (_, v) = api_json(api_port, "GET", "/api/live", None, Duration::from_secs(5)).await.ok()?;
    v.as_array()?.iter().find(|e| e["source"].as_str() == Some(&source.to_string())).cloned()
}

struct Outcome {
    wiring: Option<u64>,
    /// seconds between the last byte in either direction and the close; None = still open at the end of the observation
    closed_after: Option<f64>,
    /// how much later than the proxy the harness may have seen the last byte (the proxy measures idleness from
    /// its own last relayed byte; the harness sees that byte later by the delivery latency)
    slack: f64,
    observed_for: f64,
    closed_during_traffic: bool,
    stalled: bool,
}

async fn run_case(inst: &Instance, origin: SocketAddr, udp_orig: SocketAddr, c: &Case) -> Result<Outcome, String> {
    let t = expected_timeout(c);
    let period = Duration::from_millis(if (1..=3).contains(&t) { t * 600 } else { 600 });
    let dur = Duration::from_secs(10);
    // heartbeat to detect host stalls
    let stall = Arc::new(std::sync::atomic::AtomicBool::new(false));
    let st2 = stall.clone();
    let hb = tokio::spawn(async move {
        let mut last = Instant::now();
        loop {
            tokio::time::sleep(Duration::from_millis(50)).await;
            if last.elapsed() > Duration::from_millis(600) {
                st2.store(true, std::sync::atomic::Ordering::Relaxed);
            }
            last = Instant::now();
        }
    });
    let observe = Duration::from_millis(if (1..=3).contains(&t) { t * 1000 + 3500 } else { 4000 });
    let out = match c.kind {
        Kind::Http | Kind::Socks5 | Kind::Socks4 | Kind::Reverse => {
            let port = match c.kind {
                Kind::Http => inst.http,
                Kind::Reverse => inst.reverse,
                _ => inst.socks,
            };
            let mut s = TcpStream::connect(lo(port)).await.map_err(|e| e.to_string())?;
            let src = s.local_addr().map_err(|e| e.to_string())?;
            let d = dest_for(origin);
            let r = match c.kind {
                Kind::Http => http_connect(&mut s, &d.authority(), &[], &[], dur).await,
                Kind::Socks5 => socks5_connect(&mut s, &d, None, 1, &[], dur).await,
                Kind::Socks4 => socks4_connect(&mut s, &d, b"", 1, &[], dur).await,
                _ => Reply::Ok { leftover: vec![] },
            };
            if !matches!(r, Reply::Ok { .. }) {
                return Err(format!("could not establish: {:?}", r));
            }
            let mut last = Instant::now();
            // the instant before the harness's last write that the proxy relayed: the proxy's own "last byte"
            // lies between this and `last`
            let mut t_send: Option<Instant> = None;
            let mut origin_driven = false;
            let mut closed_during = false;
            let mut half_closed = false;
            let mut buf = [0u8; 256];
            match c.pattern {
                Pattern::Silent => {}
                Pattern::BurstThenSilence => {
                    t_send = Some(Instant::now());
                    s.write_all(b"Eburst-burst-burst").await.map_err(|e| e.to_string())?;
                    let mut got = 0;
                    while got < 18 {
                        match tokio::time::timeout(dur, s.read(&mut buf)).await {
                            Ok(Ok(n)) if n > 0 => got += n,
                            _ => return Err("echo failed".into()),
                        }
                    }
                    last = Instant::now();
                }
                Pattern::TrickleC2s(k) | Pattern::Alternating(k) => {
                    for i in 0..k {
                        tokio::time::sleep(period).await;
                        t_send = Some(Instant::now());
                        if s.write_all(if i == 0 { b"E" } else { b"x" }).await.is_err() {
                            closed_during = true;
                            break;
                        }
                        match tokio::time::timeout(Duration::from_secs(3), s.read(&mut buf)).await {
                            Ok(Ok(n)) if n > 0 => {}
                            _ => {
                                closed_during = true;
                                break;
                            }
                        }
                        last = Instant::now();
                    }
                }
                Pattern::ClientHalfCloseThenSilence | Pattern::OriginHalfCloseThenSilence => {
                    let origin_closes = c.pattern == Pattern::OriginHalfCloseThenSilence;
                    t_send = Some(Instant::now());
                    s.write_all(if origin_closes { b"Fhalf" } else { b"Hhalf" }).await.map_err(|e| e.to_string())?;
                    let mut got = 0;
                    while got < 5 {
                        match tokio::time::timeout(dur, s.read(&mut buf)).await {
                            Ok(Ok(n)) if n > 0 => got += n,
                            _ => return Err("echo failed".into()),
                        }
                    }
                    if origin_closes {
                        // the relayed FIN arrives; the tunnel itself stays (half) open
                        match tokio::time::timeout(Duration::from_secs(3), s.read(&mut buf)).await {
                            Ok(Ok(0)) => {}
                            other => return Err(format!("origin FIN not relayed: {:?}", other.map(|r| r.map(|_| ())))),
                        }
                    } else {
                        s.shutdown().await.map_err(|e| e.to_string())?;
                    }
                    last = Instant::now();
                    half_closed = true;
                }
                Pattern::TrickleS2c(k) => {
                    origin_driven = true;
                    s.write_all(&[b'T', k, (period.as_millis() / 10) as u8]).await.map_err(|e| e.to_string())?;
                    for _ in 0..k {
                        match tokio::time::timeout(period + Duration::from_secs(3), s.read(&mut buf)).await {
                            Ok(Ok(n)) if n > 0 => last = Instant::now(),
                            _ => {
                                closed_during = true;
                                break;
                            }
                        }
                    }
                }
            }
            // the proxy may not have registered a just-accepted connection yet (reverse listener: no handshake
            // to wait for): give it a moment before concluding that it is missing from the live table
            let mut entry = live_entry(inst.api, src).await;
            for _ in 0..20 {
                if entry.is_some() || half_closed {
                    break;
                }
                tokio::time::sleep(Duration::from_millis(25)).await;
                entry = live_entry(inst.api, src).await;
            }
            let wiring = entry.and_then(|e| e["idle_timeout"].as_u64());
            // now silence: wait for the close
            let mut closed_after = None;
            if half_closed {
                // the client socket cannot tell (its read side may already be at EOF): the tunnel is closed when
                // it leaves the live table
                let deadline = last + observe;
                while Instant::now() < deadline {
                    tokio::time::sleep(Duration::from_millis(100)).await;
                    if live_entry(inst.api, src).await.is_none() {
                        closed_after = Some(last.elapsed().as_secs_f64());
                        break;
                    }
                }
            } else if !closed_during {
                let deadline = last + observe;
                loop {
                    let now = Instant::now();
                    if now >= deadline {
                        break;
                    }
                    match tokio::time::timeout(deadline - now, s.read(&mut buf)).await {
                        Err(_) => break,
                        Ok(Ok(n)) if n > 0 => continue,
                        Ok(_) => {
                            closed_after = Some(last.elapsed().as_secs_f64());
                            break;
                        }
                    }
                }
            }
            Outcome {
                wiring,
                closed_after,
                slack: match t_send {
                    Some(t) => last.duration_since(t).as_secs_f64(),
                    None if origin_driven => 0.4,
                    None => 0.0,
                },
                observed_for: observe.as_secs_f64(),
                closed_during_traffic: closed_during,
                stalled: false,
            }
        }
        Kind::HttpUdp => {
            let mut s = TcpStream::connect(lo(inst.http)).await.map_err(|e| e.to_string())?;
            let src = s.local_addr().map_err(|e| e.to_string())?;
            let t = b"0.0.0.0:0".to_vec();
            match http_connect(&mut s, &t, &[(b"Proxy-Protocol".to_vec(), b"udp".to_vec()), (b"Proxy-Channel".to_vec(), b"inline".to_vec())], &[], dur).await {
                Reply::Ok { .. } => {}
                other => return Err(format!("udp over http refused: {:?}", other).chars().take(160).collect()),
            }
            let target = dest_for(udp_orig);
            let mut last = Instant::now();
            let mut t_send: Option<Instant> = None;
            let mut closed_during = false;
            let mut buf = [0u8; 2048];
            let rounds = match c.pattern {
                Pattern::Silent | Pattern::ClientHalfCloseThenSilence | Pattern::OriginHalfCloseThenSilence => 0,
                Pattern::BurstThenSilence => 1,
                Pattern::TrickleC2s(k) | Pattern::TrickleS2c(k) | Pattern::Alternating(k) => k,
            };
            for i in 0..rounds {
                if i > 0 || !matches!(c.pattern, Pattern::BurstThenSilence) {
                    tokio::time::sleep(period).await;
                }
                let f = rc::encode_rpfm(&rc::Rpfm { session: 0, addr: Some(target.clone()), body: b"ping".to_vec() }).unwrap();
                t_send = Some(Instant::now());
                if s.write_all(&f).await.is_err() {
                    closed_during = true;
                    break;
                }
                match tokio::time::timeout(Duration::from_secs(3), s.read(&mut buf)).await {
                    Ok(Ok(n)) if n > 0 => last = Instant::now(),
                    _ => {
                        closed_during = true;
                        break;
                    }
                }
            }
            let mut entry = live_entry(inst.api, src).await;
            for _ in 0..20 {
                if entry.is_some() {
                    break;
                }
                tokio::time::sleep(Duration::from_millis(25)).await;
                entry = live_entry(inst.api, src).await;
            }
            let wiring = entry.and_then(|e| e["idle_timeout"].as_u64());
            let mut closed_after = None;
            if !closed_during {
                let deadline = last + observe;
                loop {
                    let now = Instant::now();
                    if now >= deadline {
                        break;
                    }
                    match tokio::time::timeout(deadline - now, s.read(&mut buf)).await {
                        Err(_) => break,
                        Ok(Ok(n)) if n > 0 => continue,
                        Ok(_) => {
                            closed_after = Some(last.elapsed().as_secs_f64());
                            break;
                        }
                    }
                }
            }
            Outcome {
                wiring,
                closed_after,
                slack: t_send.map(|t| last.saturating_duration_since(t).as_secs_f64()).unwrap_or(0.0),
                observed_for: observe.as_secs_f64(),
                closed_during_traffic: closed_during,
                stalled: false,
            }
        }
        Kind::Socks5Udp => {
            let mut s = TcpStream::connect(lo(inst.socks)).await.map_err(|e| e.to_string())?;
            let src = s.local_addr().map_err(|e| e.to_string())?;
            let any = Dest { host: Host::V4([0, 0, 0, 0]), port: 0 };
            let mut msg = rc::encode_socks5_greeting(&[0]);
            msg.extend_from_slice(&rc::encode_socks5_request(3, &any).unwrap());
            s.write_all(&msg).await.map_err(|e| e.to_string())?;
            let mut buf = vec![];
            read_until(&mut s, &mut buf, |b| if b.len() >= 2 { rc::parse_socks5_msg(&b[2..]).map(|m| m.consumed + 2) } else { None }, dur).await?;
            let m = rc::parse_socks5_msg(&buf[2..]).ok_or("bad reply")?;
            if m.code != 0 {
                return Err(format!("udp associate refused: {}", m.code));
            }
            let relay: SocketAddr = match m.dest.host {
                Host::V4(a) => SocketAddr::from((a, m.dest.port)),
                _ => return Err("relay address".into()),
            };
            let u = UdpSocket::bind("127.0.0.1:0").await.map_err(|e| e.to_string())?;
            let target = dest_for(udp_orig);
            let mut last = Instant::now();
            let mut closed_during = false;
            let mut rb = vec![0u8; 2048];
            let rounds = match c.pattern {
                Pattern::Silent | Pattern::ClientHalfCloseThenSilence | Pattern::OriginHalfCloseThenSilence => 0,
                Pattern::BurstThenSilence => 1,
                Pattern::TrickleC2s(k) | Pattern::TrickleS2c(k) | Pattern::Alternating(k) => k,
            };
            for i in 0..rounds {
                if i > 0 || !matches!(c.pattern, Pattern::BurstThenSilence) {
                    tokio::time::sleep(period).await;
                }
                let pkt = rc::encode_socks5_udp(&target, b"ping").unwrap();
                let _ = u.send_to(&pkt, relay).await;
                let sent_at = Instant::now();
                match tokio::time::timeout(Duration::from_millis(500), u.recv_from(&mut rb)).await {
                    Ok(Ok(_)) => last = Instant::now(),
                    _ => {
                        // the first datagram of a session may be what opens it; a missing echo is C10's business,
                        // here only a closed control connection counts
                        let mut probe = [0u8; 1];
                        if let Ok(Ok(0)) = tokio::time::timeout(Duration::from_millis(50), s.read(&mut probe)).await {
                            closed_during = true;
                            break;
                        }
                        last = sent_at;
                    }
                }
            }
            let wiring = live_entry(inst.api, src).await.and_then(|e| e["idle_timeout"].as_u64());
            let mut closed_after = None;
            if !closed_during {
                let mut probe = [0u8; 16];
                let deadline = last + observe;
                loop {
                    let now = Instant::now();
                    if now >= deadline {
                        break;
                    }
                    match tokio::time::timeout(deadline - now, s.read(&mut probe)).await {
                        Err(_) => break,
                        Ok(Ok(n)) if n > 0 => continue,
                        Ok(_) => {
                            closed_after = Some(last.elapsed().as_secs_f64());
                            break;
                        }
                    }
                }
            }
            Outcome {
                wiring,
                closed_after,
                slack: 0.3,
                observed_for: observe.as_secs_f64(),
                closed_during_traffic: closed_during,
                stalled: false,
            }
        }
        Kind::ReverseUdp => {
            let u = UdpSocket::bind("127.0.0.1:0").await.map_err(|e| e.to_string())?;
            let src = u.local_addr().map_err(|e| e.to_string())?;
            let relay = lo(inst.reverse_udp);
            let mut rb = vec![0u8; 2048];
            // a session exists from its first datagram on
            let rounds = match c.pattern {
                Pattern::Silent | Pattern::BurstThenSilence | Pattern::ClientHalfCloseThenSilence | Pattern::OriginHalfCloseThenSilence => 1,
                Pattern::TrickleC2s(k) | Pattern::TrickleS2c(k) | Pattern::Alternating(k) => k.max(1),
            };
            let mut last = Instant::now();
            for i in 0..rounds {
                if i > 0 {
                    tokio::time::sleep(period).await;
                }
                let _ = u.send_to(b"ping", relay).await;
                last = Instant::now();
                if let Ok(Ok(_)) = tokio::time::timeout(Duration::from_millis(300), u.recv_from(&mut rb)).await {
                    last = Instant::now();
                }
            }
            let wiring = live_entry(inst.api, src).await.and_then(|e| e["idle_timeout"].as_u64());
            // observe through the API: the session leaves /api/live when it is closed
            let mut closed_after = None;
            let deadline = last + observe;
            while Instant::now() < deadline {
                tokio::time::sleep(Duration::from_millis(100)).await;
                if live_entry(inst.api, src).await.is_none() {
                    closed_after = Some(last.elapsed().as_secs_f64());
                    break;
                }
            }
            Outcome {
                wiring,
                closed_after,
                slack: 0.3,
                observed_for: observe.as_secs_f64(),
                closed_during_traffic: false,
                stalled: false,
            }
        }
    };
    hb.abort();
    Ok(Outcome {
        stalled: stall.load(std::sync::atomic::Ordering::Relaxed),
        ..out
    })
}

fn judge(c: &Case, o: &Outcome) -> Result<(), Failure> {
    let t = expected_timeout(c);
    let which = if matches!(c.kind, Kind::Socks5Udp | Kind::ReverseUdp | Kind::HttpUdp) { "udp" } else { "idle" };
    let cfg = |v: Option<u64>| v.map(|x| x.to_string()).unwrap_or_else(|| "absent".into());
    let shape = format!("{:?}:{}={}", c.kind, which, if matches!(c.kind, Kind::Socks5Udp | Kind::ReverseUdp | Kind::HttpUdp) { cfg(c.udp) } else { cfg(c.idle) });
    match o.wiring {
        Some(w) if w == t => {}
        Some(w) => {
            return Err(Failure::new(
                format!("wiring:{}", shape),
                format!("configured timeouts idle={} udp={}: the live {:?} tunnel carries idle_timeout={} instead of {}", cfg(c.idle), cfg(c.udp), c.kind, w, t),
            ))
        }
        None => {
            if !o.closed_during_traffic && o.closed_after.is_none() {
                return Err(Failure::new(format!("not-in-live:{:?}", c.kind), "the tunnel is open but not listed in /api/live".to_string()));
            }
        }
    }
    if o.closed_during_traffic {
        return Err(Failure::new(
            format!("closed-during-traffic:{}", shape),
            format!("the tunnel was closed while data was still flowing every {:.1} s (timeout {} s, pattern {:?})", 0.6 * t.max(1) as f64, t, c.pattern),
        ));
    }
    if (1..=3).contains(&t) {
        match o.closed_after {
            None => {
                return Err(Failure::new(
                    format!("not-closed:{}", shape),
                    format!("timeout {} s: the tunnel was still open {:.1} s after the last byte", t, o.observed_for),
                ))
            }
            Some(dt) => {
                if dt < t as f64 - 0.1 - o.slack {
                    return Err(Failure::new(format!("closed-early:{}", shape), format!("timeout {} s: closed {:.2} s after the last byte was seen by the harness, which saw it at most {:.2} s after the proxy relayed it", t, dt, o.slack)));
                }
                if dt > t as f64 + 1.0 + 1.5 {
                    return Err(Failure::new(format!("closed-late:{}", shape), format!("timeout {} s: closed {:.2} s after the last byte", t, dt)));
                }
            }
        }
    } else if let Some(dt) = o.closed_after {
        return Err(Failure::new(
            format!("closed-early:{}", shape),
            format!("timeout {} ({}): the tunnel was closed after {:.2} s of silence", t, if t == 0 { "disabled" } else { "600 s" }, dt),
        ));
    }
    Ok(())
}

pub fn cases(tier: Tier) -> Vec<Case> {
    let configs: Vec<(Option<u64>, Option<u64>)> = vec![(None, None), (Some(0), Some(0)), (Some(1), Some(2)), (Some(2), Some(1)), (Some(3), None)];
    let kinds = [Kind::Http, Kind::Socks5, Kind::Socks4, Kind::Reverse, Kind::Socks5Udp, Kind::ReverseUdp, Kind::HttpUdp];
    let mut v = vec![];
    for (ci, (idle, udp)) in configs.iter().enumerate() {
        for (ki, k) in kinds.iter().enumerate() {
            let pats: Vec<Pattern> = if tier == Tier::Quick {
                // two patterns per (config, kind), rotating
                let all = [Pattern::Silent, Pattern::BurstThenSilence, Pattern::TrickleC2s(3), Pattern::TrickleS2c(3), Pattern::Alternating(2)];
                vec![all[(ci + ki) % 5], all[(ci + ki + 2) % 5]]
            } else {
                vec![Pattern::Silent, Pattern::BurstThenSilence, Pattern::TrickleC2s(2), Pattern::TrickleC2s(5), Pattern::TrickleS2c(3), Pattern::TrickleS2c(5), Pattern::Alternating(4)]
            };
            let mut pats = pats;
            if !matches!(k, Kind::ReverseUdp | Kind::Socks5Udp | Kind::HttpUdp) {
                if tier == Tier::Quick {
                    pats.push(if (ci + ki) % 2 == 0 { Pattern::ClientHalfCloseThenSilence } else { Pattern::OriginHalfCloseThenSilence });
                } else {
                    pats.push(Pattern::ClientHalfCloseThenSilence);
                    pats.push(Pattern::OriginHalfCloseThenSilence);
                }
            }
            for p in pats {
                if matches!(p, Pattern::TrickleS2c(_)) && matches!(k, Kind::ReverseUdp | Kind::Socks5Udp | Kind::HttpUdp) {
                    continue;
                }
                v.push(Case { idle: *idle, udp: *udp, kind: *k, pattern: p });
            }
        }
    }
    v
}

pub struct IdleCheck;
impl SubCheck for IdleCheck {
    fn property(&self) -> &'static str {
        "C13"
    }
    fn name(&self) -> &'static str {
        "idle"
    }
    fn rule(&self) -> String {
        "five real proxy instances (timeouts absent / idle=0,udp=0 / idle=1,udp=2 / idle=2,udp=1 / idle=3) x tunnel kind {http, socks5, socks4, reverse TCP, SOCKS5 UDP association, reverse UDP session, UDP session inline over HTTP CONNECT} x traffic pattern {silent, burst then silence, client trickle every 0.6 T, origin trickle every 0.6 T, alternating, client half-close then silence, origin half-close then silence (TCP kinds; closure observed through /api/live)}, all cases of an instance in parallel, real seconds; oracle: /api/live shows idle_timeout == the configured value for that kind (TCP <- idle, every UDP kind <- udp, absent => 600); T in 1..3: closed between T-0.1 s (minus the measured delivery latency of that byte: the proxy counts from its own relay of it) and T+2.5 s after the last byte and never during a trickle; T = 0 or 600: still open after 4 s of silence; a host stall (> 0.6 s heartbeat gap) makes an upper-bound miss inconclusive; non-trivial = data after establishment or a non-default timeout".into()
    }
    fn run(&self, part: &mut Part) {
        let all = cases(part.tier);
        let rt = tokio::runtime::Builder::new_multi_thread().worker_threads(8).enable_all().build().unwrap();
        let res: Result<Vec<(Case, Result<Outcome, String>)>, String> = rt.block_on(async {
            let (origin, _h1) = tcp_origin().await;
            let (uorigin, _h2) = udp_origin().await;
            // group by config
            let mut configs: Vec<(Option<u64>, Option<u64>)> = vec![];
            for c in &all {
                if !configs.contains(&(c.idle, c.udp)) {
                    configs.push((c.idle, c.udp));
                }
            }
            let mut handles = vec![];
            for (idle, udp) in configs {
                let mine: Vec<Case> = all.iter().filter(|c| c.idle == idle && c.udp == udp).cloned().collect();
                handles.push(tokio::spawn(async move {
                    let inst = match start_instance(idle, udp, origin, uorigin).await {
                        Ok(i) => Arc::new(i),
                        Err(e) => return Err(e),
                    };
                    let mut hs = vec![];
                    for c in mine {
                        let inst = inst.clone();
                        hs.push(tokio::spawn(async move {
                            let r = run_case(&inst, origin, uorigin, &c).await;
                            (c, r)
                        }));
                    }
                    let mut out = vec![];
                    for h in hs {
                        out.push(h.await.map_err(|e| e.to_string())?);
                    }
                    Ok(out)
                }));
            }
            let mut out = vec![];
            for h in handles {
                out.extend(h.await.map_err(|e| e.to_string())??);
            }
            Ok(out)
        });
        let res = match res {
            Ok(r) => r,
            Err(e) => {
                part.note(format!("infrastructure: {}", e));
                part.extra.insert("infrastructure_error".into(), json!(e));
                return;
            }
        };
        for (c, r) in res {
            let mut info = CaseInfo::default();
            info.nontrivial = !matches!(c.pattern, Pattern::Silent) || expected_timeout(&c) != 600;
            info.class(format!("{:?}", c.kind));
            match r {
                Err(e) => {
                    info.inconclusive = true;
                    part.note(format!("case {:?} could not run: {}", c, e));
                    part.account(vcore::digest_json(&c), info);
                }
                Ok(o) => {
                    if part.samples.len() < 5 {
                        info.sample = Some(json!({"case": c, "idle_timeout_in_live": o.wiring, "closed_after_s": o.closed_after, "observed_s": o.observed_for}));
                    }
                    let verdict = judge(&c, &o);
                    if let Err(f) = &verdict {
                        if o.stalled && (f.key.starts_with("closed-late") || f.key.starts_with("not-closed")) {
                            info.inconclusive = true;
                            part.account(vcore::digest_json(&c), info);
                            continue;
                        }
                    }
                    part.account(vcore::digest_json(&c), info);
                    if let Err(f) = verdict {
                        part.record_failure(f, serde_json::to_value(&c).unwrap());
                    }
                }
            }
        }
    }
    fn replay(&self, case: &serde_json::Value) -> Result<(), Failure> {
        let c: Case = serde_json::from_value(case.clone()).map_err(|e| Failure::new("replay-decode", e.to_string()))?;
        let rt = tokio::runtime::Builder::new_multi_thread().worker_threads(2).enable_all().build().unwrap();
        rt.block_on(async {
            let (origin, _h1) = tcp_origin().await;
            let (uorigin, _h2) = udp_origin().await;
            let inst = start_instance(c.idle, c.udp, origin, uorigin).await.map_err(|e| Failure::new("fixture", e))?;
            let o = run_case(&inst, origin, uorigin, &c).await.map_err(|e| Failure::new("fixture", e))?;
            judge(&c, &o)
        })
    }
}

pub fn checks() -> Vec<Box<dyn SubCheck>> {
    vec![Box::new(IdleCheck)]
}
