//! Client drivers, origins and the API client, all speaking through refcodec (never the repo's codecs).
use std::net::SocketAddr;
use std::time::Duration;
use tokio::io::{AsyncReadExt, AsyncWriteExt};
use tokio::net::{TcpListener, TcpSocket, TcpStream};
use vcore::refcodec::{self as rc, Dest, Host};

pub fn lo(port: u16) -> SocketAddr {
    SocketAddr::from(([127, 0, 0, 1], port))
}

pub async fn connect_from(src: Option<SocketAddr>, dst: SocketAddr) -> std::io::Result<TcpStream> {
    let s = if dst.is_ipv4() { TcpSocket::new_v4()? } else { TcpSocket::new_v6()? };
    if let Some(src) = src {
        s.set_reuseaddr(true)?;
        s.bind(src)?;
    }
    s.connect(dst).await
}

/// read until `pred(buf)` returns Some(n) (message complete, n bytes) or EOF / timeout
pub async fn read_until<F: Fn(&[u8]) -> Option<usize>>(s: &mut (impl AsyncReadExt + Unpin), buf: &mut Vec<u8>, pred: F, dur: Duration) -> Result<usize, String> {
    let deadline = tokio::time::Instant::now() + dur;
    loop {
        if let Some(n) = pred(buf) {
            return Ok(n);
        }
        let mut tmp = [0u8; 4096];
        match tokio::time::timeout_at(deadline, s.read(&mut tmp)).await {
            Err(_) => return Err("timeout".into()),
            Ok(Err(e)) => return Err(format!("io: {}", e)),
            Ok(Ok(0)) => return Err("eof".into()),
            Ok(Ok(n)) => buf.extend_from_slice(&tmp[..n]),
        }
    }
}

/// Read everything until EOF or reset (bounded by `dur`): (bytes, "eof" | "reset" | "timeout")
pub async fn read_to_end_within(s: &mut (impl AsyncReadExt + Unpin), dur: Duration) -> (Vec<u8>, &'static str) {
    let mut out = vec![];
    let deadline = tokio::time::Instant::now() + dur;
    let mut tmp = vec![0u8; 65536];
    loop {
        match tokio::time::timeout_at(deadline, s.read(&mut tmp)).await {
            Err(_) => return (out, "timeout"),
            Ok(Err(_)) => return (out, "reset"),
            Ok(Ok(0)) => return (out, "eof"),
            Ok(Ok(n)) => out.extend_from_slice(&tmp[..n]),
        }
    }
}

#[derive(Debug, Clone)]
pub enum Reply {
    /// the proxy said "established"
    Ok { leftover: Vec<u8> },
    /// a complete failure reply in the client's protocol: (code, raw bytes)
    Refused { code: u16, raw: Vec<u8> },
    /// the connection ended / timed out without a complete reply
    Broken { got: Vec<u8>, why: String },
}

/// HTTP CONNECT: send head (+ early data in the same write) and read the response head.
pub async fn http_connect(s: &mut (impl AsyncReadExt + AsyncWriteExt + Unpin), target: &[u8], extra_headers: &[(Vec<u8>, Vec<u8>)], early: &[u8], dur: Duration) -> Reply {
    let mut headers = vec![(b"Host".to_vec(), target.to_vec())];
    headers.extend_from_slice(extra_headers);
    let mut msg = rc::encode_connect(target, &headers);
    msg.extend_from_slice(early);
    if let Err(e) = s.write_all(&msg).await {
        return Reply::Broken { got: vec![], why: format!("write: {}", e) };
    }
    let mut buf = vec![];
    match read_until(s, &mut buf, |b| rc::parse_http_head(b, true).map(|h| h.consumed), dur).await {
        Ok(n) => {
            let head = rc::parse_http_head(&buf, true).unwrap();
            let code: u16 = String::from_utf8_lossy(&head.start.1).parse().unwrap_or(0);
            if code == 200 {
                Reply::Ok { leftover: buf[n..].to_vec() }
            } else {
                Reply::Refused { code, raw: buf }
            }
        }
        Err(why) => Reply::Broken { got: buf, why },
    }
}

pub async fn socks5_connect(s: &mut (impl AsyncReadExt + AsyncWriteExt + Unpin), dest: &Dest, auth: Option<(&[u8], &[u8])>, cmd: u8, early: &[u8], dur: Duration) -> Reply {
    // everything is pipelined in one write when there is no authentication step to wait for
    let methods: Vec<u8> = if auth.is_some() { vec![0, 2] } else { vec![0] };
    let mut msg = rc::encode_socks5_greeting(&methods);
    let mut buf = vec![];
    if auth.is_none() {
        msg.extend_from_slice(&rc::encode_socks5_request(cmd, dest).unwrap());
        msg.extend_from_slice(early);
        if s.write_all(&msg).await.is_err() {
            return Reply::Broken { got: vec![], why: "write".into() };
        }
        if let Err(why) = read_until(s, &mut buf, |b| if b.len() >= 2 { Some(2) } else { None }, dur).await {
            return Reply::Broken { got: buf, why };
        }
        if buf[..2] != [5, 0] {
            return Reply::Refused { code: buf[1] as u16 + 1000, raw: buf };
        }
        buf.drain(..2);
    } else {
        if s.write_all(&msg).await.is_err() {
            return Reply::Broken { got: vec![], why: "write".into() };
        }
        if let Err(why) = read_until(s, &mut buf, |b| if b.len() >= 2 { Some(2) } else { None }, dur).await {
            return Reply::Broken { got: buf, why };
        }
        let method = buf[1];
        buf.drain(..2);
        let mut next = vec![];
        if method == 2 {
            let (u, p) = auth.unwrap();
            next.extend_from_slice(&rc::encode_socks5_userpass(u, p));
        } else if method != 0 {
            return Reply::Refused { code: 1255, raw: vec![5, method] };
        }
        next.extend_from_slice(&rc::encode_socks5_request(cmd, dest).unwrap());
        next.extend_from_slice(early);
        if s.write_all(&next).await.is_err() {
            return Reply::Broken { got: vec![], why: "write".into() };
        }
        if method == 2 {
            if let Err(why) = read_until(s, &mut buf, |b| if b.len() >= 2 { Some(2) } else { None }, dur).await {
                return Reply::Broken { got: buf, why };
            }
            if buf[1] != 0 {
                return Reply::Refused { code: 1300 + buf[1] as u16, raw: buf };
            }
            buf.drain(..2);
        }
    }
    match read_until(s, &mut buf, |b| rc::parse_socks5_msg(b).map(|m| m.consumed), dur).await {
        Ok(n) => {
            let m = rc::parse_socks5_msg(&buf).unwrap();
            if m.ver == 5 && m.code == 0 {
                Reply::Ok { leftover: buf[n..].to_vec() }
            } else {
                Reply::Refused { code: m.code as u16, raw: buf }
            }
        }
        Err(why) => Reply::Broken { got: buf, why },
    }
}

pub async fn socks4_connect(s: &mut (impl AsyncReadExt + AsyncWriteExt + Unpin), dest: &Dest, userid: &[u8], cmd: u8, early: &[u8], dur: Duration) -> Reply {
    let mut msg = match rc::encode_socks4(cmd, dest, userid) {
        Some(m) => m,
        None => return Reply::Broken { got: vec![], why: "unencodable".into() },
    };
    msg.extend_from_slice(early);
    if s.write_all(&msg).await.is_err() {
        return Reply::Broken { got: vec![], why: "write".into() };
    }
    let mut buf = vec![];
    match read_until(s, &mut buf, |b| if b.len() >= 8 { Some(8) } else { None }, dur).await {
        Ok(_) => {
            if buf[0] == 0 && buf[1] == 90 {
                Reply::Ok { leftover: buf[8..].to_vec() }
            } else {
                Reply::Refused { code: buf[1] as u16, raw: buf }
            }
        }
        Err(why) => Reply::Broken { got: buf, why },
    }
}

pub fn dest_for(addr: SocketAddr) -> Dest {
    match addr {
        SocketAddr::V4(a) => Dest { host: Host::V4(a.ip().octets()), port: a.port() },
        SocketAddr::V6(a) => Dest { host: Host::V6(a.ip().octets()), port: a.port() },
    }
}

// ---------------------------------------------------------------- API client

#[derive(Debug, Clone)]
pub struct HttpResp {
    pub status: u16,
    pub body: Vec<u8>,
}

pub async fn api(port: u16, method: &str, path: &str, body: Option<&[u8]>, dur: Duration) -> Result<HttpResp, String> {
    let fut = async {
        let mut s = TcpStream::connect(lo(port)).await.map_err(|e| format!("connect: {}", e))?;
        let mut req = format!("{} {} HTTP/1.1\r\nHost: localhost\r\nConnection: close\r\n", method, path).into_bytes();
        if let Some(b) = body {
            req.extend_from_slice(format!("Content-Type: application/json\r\nContent-Length: {}\r\n", b.len()).as_bytes());
        }
        req.extend_from_slice(b"\r\n");
        if let Some(b) = body {
            req.extend_from_slice(b);
        }
        s.write_all(&req).await.map_err(|e| format!("write: {}", e))?;
        let mut all = vec![];
        s.read_to_end(&mut all).await.map_err(|e| format!("read: {}", e))?;
        let head = rc::parse_http_head(&all, true).ok_or_else(|| "bad response head".to_string())?;
        let status: u16 = String::from_utf8_lossy(&head.start.1).parse().unwrap_or(0);
        let mut body = all[head.consumed..].to_vec();
        if head.header("transfer-encoding").map(|v| v.eq_ignore_ascii_case(b"chunked")).unwrap_or(false) {
            body = dechunk(&body);
        }
        Ok(HttpResp { status, body })
    };
    match tokio::time::timeout(dur, fut).await {
        Ok(r) => r,
        Err(_) => Err("timeout".into()),
    }
}

fn dechunk(b: &[u8]) -> Vec<u8> {
    let mut out = vec![];
    let mut pos = 0;
    while pos < b.len() {
        let nl = match b[pos..].windows(2).position(|w| w == b"\r\n") {
            Some(n) => n,
            None => break,
        };
        let len = usize::from_str_radix(String::from_utf8_lossy(&b[pos..pos + nl]).trim(), 16).unwrap_or(0);
        pos += nl + 2;
        if len == 0 || pos + len > b.len() {
            break;
        }
        out.extend_from_slice(&b[pos..pos + len]);
        pos += len + 2;
    }
    out
}

pub async fn api_json(port: u16, method: &str, path: &str, body: Option<&serde_json::Value>, dur: Duration) -> Result<(u16, serde_json::Value), String> {
    let b = body.map(|v| serde_json::to_vec(v).unwrap());
    let r = api(port, method, path, b.as_deref(), dur).await?;
    let v = serde_json::from_slice(&r.body).unwrap_or(serde_json::Value::String(String::from_utf8_lossy(&r.body).to_string()));
    Ok((r.status, v))
}

// ---------------------------------------------------------------- origins

/// A TCP origin that records what each connection received and sends a scripted reply.
pub struct Origin {
    pub addr: SocketAddr,
    pub accepted: std::sync::Arc<std::sync::atomic::AtomicUsize>,
    pub conns: std::sync::Arc<tokio::sync::Mutex<Vec<OriginConn>>>,
    handle: tokio::task::JoinHandle<()>,
}

#[derive(Debug, Clone, Default)]
pub struct OriginConn {
    pub peer: Option<SocketAddr>,
    pub received: Vec<u8>,
    pub saw_eof: bool,
    pub accepted_at: Option<std::time::Instant>,
}

#[derive(Clone)]
pub struct OriginScript {
    /// bytes to send right after accept
    pub send: std::sync::Arc<Vec<u8>>,
    /// half-close after sending
    pub close_after_send: bool,
    /// echo everything received back (after `send`)
    pub echo: bool,
}

impl Origin {
    pub async fn start(bind: SocketAddr, script: OriginScript) -> std::io::Result<Origin> {
        let l = TcpListener::bind(bind).await?;
        let addr = l.local_addr()?;
        let accepted = std::sync::Arc::new(std::sync::atomic::AtomicUsize::new(0));
        let conns: std::sync::Arc<tokio::sync::Mutex<Vec<OriginConn>>> = Default::default();
        let a2 = accepted.clone();
        let c2 = conns.clone();
        let handle = tokio::spawn(async move {
            loop {
                let (mut s, peer) = match l.accept().await {
                    Ok(x) => x,
                    Err(_) => return,
                };
                a2.fetch_add(1, std::sync::atomic::Ordering::SeqCst);
                let idx = {
                    let mut g = c2.lock().await;
                    g.push(OriginConn { peer: Some(peer), accepted_at: Some(std::time::Instant::now()), ..Default::default() });
                    g.len() - 1
                };
                let script = script.clone();
                let c3 = c2.clone();
                tokio::spawn(async move {
                    if !script.send.is_empty() {
                        let _ = s.write_all(&script.send).await;
                    }
                    if script.close_after_send && !script.echo {
                        let _ = s.shutdown().await;
                    }
                    let mut buf = vec![0u8; 65536];
                    loop {
                        match s.read(&mut buf).await {
                            Ok(0) => {
                                c3.lock().await[idx].saw_eof = true;
                                break;
                            }
                            Ok(n) => {
                                c3.lock().await[idx].received.extend_from_slice(&buf[..n]);
                                if script.echo && s.write_all(&buf[..n]).await.is_err() {
                                    break;
                                }
                            }
                            Err(_) => break,
                        }
                    }
                    let _ = s.shutdown().await;
                });
            }
        });
        Ok(Origin { addr, accepted, conns, handle })
    }
    pub fn count(&self) -> usize {
        self.accepted.load(std::sync::atomic::Ordering::SeqCst)
    }
}

impl Drop for Origin {
    fn drop(&mut self) {
        self.handle.abort();
    }
}

pub fn echo_script() -> OriginScript {
    OriginScript { send: Default::default(), close_after_send: false, echo: true }
}
