//! A scripted TCP tunnel through real proxy processes: client driver, scripted origin, result record.
use crate::net::*;
use serde::{Deserialize, Serialize};
use std::net::SocketAddr;
use std::sync::Arc;
use std::time::{Duration, Instant};
use tokio::io::{AsyncReadExt, AsyncWriteExt};
use tokio::net::{TcpListener, TcpStream};
use vcore::refcodec::{Dest, Host};

#[derive(Clone, Copy, Debug, PartialEq, Eq, Hash, Serialize, Deserialize)]
pub enum Lk {
    Http,
    Socks5,
    Socks4,
    Reverse,
}

#[derive(Clone, Copy, Debug, PartialEq, Eq, Serialize, Deserialize)]
pub enum Reader {
    Continuous,
    /// read, then sleep ms between reads of at most 16 KiB
    Bursty(u16),
    /// do not read at all for ms, then continuously
    InitialStall(u16),
}

#[derive(Clone, Copy, Debug, PartialEq, Eq, Serialize, Deserialize)]
pub enum End {
    /// shutdown(WR) right after the last byte
    HalfClose,
    /// keep the sending direction open until the peer's EOF was seen, then close
    AfterPeerEof,
    /// abort (SO_LINGER 0) after `n` of the payload bytes were written
    Reset(u32),
}

#[derive(Clone, Debug, Serialize, Deserialize)]
pub struct TunnelSpec {
    pub listener: Lk,
    /// selects the upstream path: the target host is 127.0.1.<route>
    pub route: u8,
    pub tag: u64,
    pub c2s_len: u32,
    pub s2c_len: u32,
    pub early: u32,
    pub client_chunk: u32,
    pub origin_chunk: u32,
    pub client_reader: Reader,
    pub origin_reader: Reader,
    pub small_rcvbuf: bool,
    pub client_end: End,
    pub origin_end: End,
}

#[derive(Clone, Debug, Default, Serialize)]
pub struct TunnelResult {
    pub established: bool,
    pub refusal: Option<String>,
    pub origin_accepted: bool,
    pub origin_len: usize,
    pub origin_ok_prefix: bool,
    pub origin_first_diff: Option<usize>,
    /// "eof" | "reset" | "timeout" | "none"
    pub origin_end: String,
    pub client_len: usize,
    pub client_ok_prefix: bool,
    pub client_first_diff: Option<usize>,
    pub client_end: String,
    /// milliseconds between the moment both senders were done and the moment the slower receiver saw the end
    pub end_lag_ms: u64,
    pub source: Option<SocketAddr>,
    pub wall_ms: u64,
}

pub fn payloads(spec: &TunnelSpec) -> (Vec<u8>, Vec<u8>) {
    (vcore::payload(spec.tag, spec.c2s_len as usize), vcore::payload(spec.tag ^ 0x5a5a_1234_8765_a5a5, spec.s2c_len as usize))
}

fn first_diff(got: &[u8], want: &[u8]) -> Option<usize> {
    let n = got.len().min(want.len());
    for i in 0..n {
        if got[i] != want[i] {
            return Some(i);
        }
    }
    if got.len() > want.len() {
        Some(want.len())
    } else {
        None
    }
}

async fn read_side(mut r: tokio::net::tcp::OwnedReadHalf, pattern: Reader, budget: Duration) -> (Vec<u8>, &'static str, Instant) {
    let mut out = vec![];
    let deadline = tokio::time::Instant::now() + budget;
    let mut buf = vec![0u8; 1 << 16];
    if let Reader::InitialStall(ms) = pattern {
        tokio::time::sleep(Duration::from_millis(ms as u64)).await;
    }
    loop {
        let cap = match pattern {
            Reader::Bursty(_) => 16384,
            _ => buf.len(),
        };
        match tokio::time::timeout_at(deadline, r.read(&mut buf[..cap])).await {
            Err(_) => return (out, "timeout", Instant::now()),
            Ok(Err(_)) => return (out, "reset", Instant::now()),
            Ok(Ok(0)) => return (out, "eof", Instant::now()),
            Ok(Ok(n)) => out.extend_from_slice(&buf[..n]),
        }
        if let Reader::Bursty(ms) = pattern {
            tokio::time::sleep(Duration::from_millis(ms as u64)).await;
        }
    }
}

/// returns the instant the sender was done (or gave up)
async fn write_side(mut w: tokio::net::tcp::OwnedWriteHalf, data: Vec<u8>, chunk: u32, end: End, peer_eof: tokio::sync::watch::Receiver<bool>) -> Instant {
    let limit = match end {
        End::Reset(n) => (n as usize).min(data.len()),
        _ => data.len(),
    };
    let chunk = if chunk == 0 { limit.max(1) } else { chunk as usize };
    let mut pos = 0;
    while pos < limit {
        let n = chunk.min(limit - pos);
        if w.write_all(&data[pos..pos + n]).await.is_err() {
            return Instant::now();
        }
        pos += n;
    }
    match end {
        End::HalfClose => {
            let _ = w.shutdown().await;
            let done = Instant::now();
            // keep the socket until the peer is done so that nothing is reset
            let mut rx = peer_eof;
            while !*rx.borrow() {
                if rx.changed().await.is_err() {
                    break;
                }
            }
            done
        }
        End::AfterPeerEof => {
            let mut rx = peer_eof;
            while !*rx.borrow() {
                if rx.changed().await.is_err() {
                    break;
                }
            }
            let _ = w.shutdown().await;
            Instant::now()
        }
        End::Reset(_) => {
            // abort: linger 0 then drop both halves (the read half is dropped by the caller on our signal)
            let _ = socket2::SockRef::from(w.as_ref()).set_linger(Some(Duration::from_secs(0)));
            Instant::now()
        }
    }
}

pub struct Ports {
    pub http: u16,
    pub socks: u16,
    pub reverse: u16,
}

/// hub for the reverse listener's fixed target: hands accepted sockets to the single pending case
pub struct Hub {
    pub port: u16,
    pub gate: Arc<tokio::sync::Mutex<()>>,
    queue: Arc<tokio::sync::Mutex<tokio::sync::mpsc::UnboundedReceiver<TcpStream>>>,
    _h: tokio::task::JoinHandle<()>,
}

impl Hub {
    pub async fn start() -> Hub {
        let l = TcpListener::bind("0.0.0.0:0").await.unwrap();
        let port = l.local_addr().unwrap().port();
        let (tx, rx) = tokio::sync::mpsc::unbounded_channel();
        let h = tokio::spawn(async move {
            loop {
                if let Ok((s, _)) = l.accept().await {
                    let _ = tx.send(s);
                }
            }
        });
        Hub { port, gate: Default::default(), queue: Arc::new(tokio::sync::Mutex::new(rx)), _h: h }
    }
}

pub async fn run_tunnel(ports: &Ports, hub: Option<&Hub>, spec: &TunnelSpec, budget: Duration) -> TunnelResult {
    let t_start = Instant::now();
    let (c2s, s2c) = payloads(spec);
    let mut res = TunnelResult { origin_end: "none".into(), client_end: "none".into(), ..Default::default() };
    let dur = Duration::from_secs(15);
    // ---- origin
    let reverse = spec.listener == Lk::Reverse;
    let _gate = if reverse { Some(hub.expect("hub").gate.clone().lock_owned().await) } else { None };
    if reverse {
        // drop connections that reached the hub on behalf of nobody (e.g. the readiness probe of the reverse port)
        let q = hub.unwrap().queue.clone();
        let mut g = q.lock().await;
        tokio::time::sleep(Duration::from_millis(30)).await;
        while let Ok(s) = g.try_recv() {
            drop(s);
        }
    }
    let listener = if reverse { None } else { Some(TcpListener::bind("0.0.0.0:0").await.unwrap()) };
    let oport = listener.as_ref().map(|l| l.local_addr().unwrap().port()).unwrap_or(0);
    let target = Dest { host: Host::V4([127, 0, 1, spec.route.max(1)]), port: oport };
    let (o_eof_tx, o_eof_rx) = tokio::sync::watch::channel(false);
    let (c_eof_tx, c_eof_rx) = tokio::sync::watch::channel(false);
    let spec_o = spec.clone();
    let s2c_o = s2c.clone();
    let hubq = hub.map(|h| h.queue.clone());
    let origin_task = tokio::spawn(async move {
        let sock = if let Some(l) = listener {
            match tokio::time::timeout(Duration::from_secs(20), l.accept()).await {
                Ok(Ok((s, _))) => s,
                _ => return None,
            }
        } else {
            let q = hubq.unwrap();
            let mut g = q.lock().await;
            match tokio::time::timeout(Duration::from_secs(20), g.recv()).await {
                Ok(Some(s)) => s,
                _ => return None,
            }
        };
        if spec_o.small_rcvbuf {
            // fixed (not auto-tuned) but at least two loopback segments, otherwise the transfer crawls
            let _ = socket2::SockRef::from(&sock).set_recv_buffer_size(256 * 1024);
        }
        let (r, w) = sock.into_split();
        let reader = tokio::spawn(read_side(r, spec_o.origin_reader, budget));
        let writer = tokio::spawn(write_side(w, s2c_o, spec_o.origin_chunk, spec_o.origin_end, o_eof_rx));
        let (got, end, t_end) = reader.await.ok()?;
        let _ = o_eof_tx.send(true);
        let t_done = writer.await.ok()?;
        Some((got, end, t_end, t_done))
    });
    // ---- client
    let port = match spec.listener {
        Lk::Http => ports.http,
        Lk::Socks5 | Lk::Socks4 => ports.socks,
        Lk::Reverse => ports.reverse,
    };
    let mut s = match TcpStream::connect(lo(port)).await {
        Ok(s) => s,
        Err(e) => {
            res.refusal = Some(format!("connect: {}", e));
            origin_task.abort();
            return res;
        }
    };
    res.source = s.local_addr().ok();
    let early = (spec.early as usize).min(c2s.len());
    let reply = match spec.listener {
        Lk::Http => http_connect(&mut s, &target.authority(), &[], &c2s[..early], dur).await,
        Lk::Socks5 => socks5_connect(&mut s, &target, None, 1, &c2s[..early], dur).await,
        Lk::Socks4 => socks4_connect(&mut s, &target, b"u", 1, &c2s[..early], dur).await,
        Lk::Reverse => Reply::Ok { leftover: vec![] },
    };
    let leftover = match reply {
        Reply::Ok { leftover } => leftover,
        other => {
            res.refusal = Some(format!("{:?}", other).chars().take(200).collect());
            origin_task.abort();
            return res;
        }
    };
    res.established = true;
    let sent_early = if spec.listener == Lk::Reverse { 0 } else { early };
    if spec.small_rcvbuf {
        let _ = socket2::SockRef::from(&s).set_recv_buffer_size(256 * 1024);
    }
    let (r, w) = s.into_split();
    let client_pattern = spec.client_reader;
    let creader = tokio::spawn(async move {
        let (mut got, end, t) = read_side(r, client_pattern, budget).await;
        let mut all = leftover;
        all.append(&mut got);
        (all, end, t)
    });
    let cwriter = tokio::spawn(write_side(w, c2s[sent_early..].to_vec(), spec.client_chunk, match spec.client_end {
        End::Reset(n) => End::Reset(n.saturating_sub(sent_early as u32)),
        e => e,
    }, c_eof_rx));
    let (cgot, cend, c_t_end) = creader.await.unwrap_or((vec![], "timeout", Instant::now()));
    let _ = c_eof_tx.send(true);
    let c_t_done = cwriter.await.unwrap_or_else(|_| Instant::now());
    let o = origin_task.await.ok().flatten();
    res.client_len = cgot.len();
    res.client_first_diff = first_diff(&cgot, &s2c);
    res.client_ok_prefix = res.client_first_diff.is_none();
    res.client_end = cend.to_string();
    if let Some((ogot, oend, o_t_end, o_t_done)) = o {
        res.origin_accepted = true;
        res.origin_len = ogot.len();
        res.origin_first_diff = first_diff(&ogot, &c2s);
        res.origin_ok_prefix = res.origin_first_diff.is_none();
        res.origin_end = oend.to_string();
        let both_done = c_t_done.max(o_t_done);
        let last_end = c_t_end.max(o_t_end);
        res.end_lag_ms = last_end.saturating_duration_since(both_done).as_millis() as u64;
    }
    res.wall_ms = t_start.elapsed().as_millis() as u64;
    res
}
