//! Spawning and supervising real redproxy-rs processes built from /repo.
use std::net::{SocketAddr, TcpListener as StdTcpListener};
use std::path::{Path, PathBuf};
use std::process::{Child, Command, Stdio};
use std::sync::atomic::{AtomicU32, Ordering};
use std::time::{Duration, Instant};

static SEQ: AtomicU32 = AtomicU32::new(0);

pub fn repo_bin() -> PathBuf {
    std::env::var("VERIF_REPO_BIN")
        .map(PathBuf::from)
        .unwrap_or_else(|_| PathBuf::from("/verif/.build/repo/debug/redproxy-rs"))
}

pub fn run_dir() -> PathBuf {
    let d = std::env::var("VERIF_RUN_DIR")
        .map(PathBuf::from)
        .unwrap_or_else(|_| PathBuf::from(format!("/verif/.build/run/manual-{}", std::process::id())));
    let _ = std::fs::create_dir_all(&d);
    d
}

/// Ask the kernel for a free TCP port on 127.0.0.1 (released immediately; the proxy binds it next).
pub fn free_port() -> u16 {
    // keep away from the ephemeral range used for outgoing connections: probe a private range
    // below the kernel's ephemeral range (32768..), a private block per process
    let base = 10000 + (std::process::id() % 200) as u16 * 100;
    for _ in 0..4000 {
        let n = SEQ.fetch_add(1, Ordering::Relaxed);
        let p = base + (n % 2000) as u16;
        if let Ok(l) = StdTcpListener::bind(("0.0.0.0", p)) {
            if std::net::UdpSocket::bind(("0.0.0.0", p)).is_ok() {
                drop(l);
                if std::env::var("VERIF_TRACE_PORTS").is_ok() {
                    eprintln!("free_port -> {} (n={})", p, n);
                }
                return p;
            }
        }
    }
    let l = StdTcpListener::bind("127.0.0.1:0").unwrap();
    l.local_addr().unwrap().port()
}

pub struct Proxy {
    pub child: Child,
    pub dir: PathBuf,
    pub cfg: PathBuf,
    pub log: PathBuf,
    pub name: String,
    pub api: Option<u16>,
    pub started: Instant,
}

#[derive(Debug)]
pub enum Exit {
    Running,
    Code(i32),
    Signal(i32),
}

impl Proxy {
    /// Start the binary with `yaml` as its configuration. `ready_ports`: TCP ports that must accept
    /// before we return.
    pub fn start(name: &str, yaml: &str, ready_ports: &[u16], api: Option<u16>) -> Result<Proxy, String> {
        let n = SEQ.fetch_add(1, Ordering::Relaxed);
        let dir = run_dir().join(format!("{}-{}", name, n));
        std::fs::create_dir_all(&dir).map_err(|e| e.to_string())?;
        let cfg = dir.join("config.yaml");
        std::fs::write(&cfg, yaml).map_err(|e| e.to_string())?;
        let log = dir.join("stderr.log");
        let logf = std::fs::File::create(&log).map_err(|e| e.to_string())?;
        let child = Command::new(repo_bin())
            .arg("-c")
            .arg(&cfg)
            .arg("-l")
            .arg(std::env::var("VERIF_PROXY_LOG").unwrap_or_else(|_| "warn".into()))
            .current_dir(&dir)
            .stdin(Stdio::null())
            .stdout(logf.try_clone().map(Stdio::from).unwrap_or_else(|_| Stdio::null()))
            .stderr(Stdio::from(logf))
            .spawn()
            .map_err(|e| format!("spawn {}: {}", repo_bin().display(), e))?;
        let mut p = Proxy {
            child,
            dir,
            cfg,
            log,
            name: name.to_string(),
            api,
            started: Instant::now(),
        };
        let deadline = Instant::now() + Duration::from_secs(20);
        for port in ready_ports {
            loop {
                if let Exit::Code(c) = p.exit_status() {
                    return Err(format!("{} exited with {} during start: {}", name, c, p.log_tail(15)));
                }
                if let Exit::Signal(s) = p.exit_status() {
                    return Err(format!("{} died with signal {} during start: {}", name, s, p.log_tail(15)));
                }
                if std::net::TcpStream::connect_timeout(&SocketAddr::from(([127, 0, 0, 1], *port)), Duration::from_millis(200)).is_ok() {
                    break;
                }
                if Instant::now() > deadline {
                    return Err(format!("{}: port {} not ready: {}", name, port, p.log_tail(15)));
                }
                std::thread::sleep(Duration::from_millis(20));
            }
        }
        Ok(p)
    }

    pub fn exit_status(&mut self) -> Exit {
        use std::os::unix::process::ExitStatusExt;
        match self.child.try_wait() {
            Ok(Some(st)) => match st.code() {
                Some(c) => Exit::Code(c),
                None => Exit::Signal(st.signal().unwrap_or(0)),
            },
            _ => Exit::Running,
        }
    }

    pub fn alive(&mut self) -> bool {
        matches!(self.exit_status(), Exit::Running)
    }

    pub fn log_tail(&self, n: usize) -> String {
        let s = std::fs::read_to_string(&self.log).unwrap_or_default();
        let lines: Vec<&str> = s.lines().collect();
        lines[lines.len().saturating_sub(n)..].join(" | ")
    }

    pub fn kill(&mut self) {
        let _ = self.child.kill();
        let _ = self.child.wait();
    }

    pub fn signal(&self, sig: i32) {
        unsafe {
            libc::kill(self.child.id() as i32, sig);
        }
    }

    pub fn path(&self, f: &str) -> PathBuf {
        self.dir.join(f)
    }
}

impl Drop for Proxy {
    fn drop(&mut self) {
        self.kill();
        if std::env::var("VERIF_KEEP").is_err() {
            let _ = std::fs::remove_dir_all(&self.dir);
        }
    }
}

/// Run the binary in --test mode on a configuration; returns (exit, output).
pub fn config_test(yaml: &str) -> (Exit, String) {
    use std::os::unix::process::ExitStatusExt;
    let n = SEQ.fetch_add(1, Ordering::Relaxed);
    let dir = run_dir().join(format!("cfgtest-{}", n));
    let _ = std::fs::create_dir_all(&dir);
    let cfg = dir.join("config.yaml");
    let _ = std::fs::write(&cfg, yaml);
    let out = Command::new(repo_bin()).arg("-c").arg(&cfg).arg("-t").arg("1").arg("-l").arg("erro").current_dir(&dir).stdin(Stdio::null()).output();
    let r = match out {
        Ok(o) => {
            let text = format!("{}{}", String::from_utf8_lossy(&o.stdout), String::from_utf8_lossy(&o.stderr));
            match o.status.code() {
                Some(c) => (Exit::Code(c), text),
                None => (Exit::Signal(o.status.signal().unwrap_or(0)), text),
            }
        }
        Err(e) => (Exit::Code(-1), e.to_string()),
    };
    let _ = std::fs::remove_dir_all(&dir);
    r
}

pub fn pki_dir() -> &'static Path {
    Path::new("/verif/pki")
}
