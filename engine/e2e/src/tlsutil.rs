//! TLS / QUIC client and server helpers for the harness (rustls 0.20, quinn 0.9) over the test PKI.
use std::io::BufReader;
use std::sync::Arc;
use tokio_rustls::rustls::{self, Certificate, ClientConfig, PrivateKey, RootCertStore, ServerConfig};

pub fn pki(name: &str) -> String {
    format!("/verif/pki/{}", name)
}

pub fn load_certs(path: &str) -> Vec<Certificate> {
    let f = std::fs::File::open(path).unwrap_or_else(|e| panic!("open {}: {}", path, e));
    rustls_pemfile::certs(&mut BufReader::new(f)).unwrap().into_iter().map(Certificate).collect()
}

pub fn load_key(path: &str) -> PrivateKey {
    let f = std::fs::File::open(path).unwrap_or_else(|e| panic!("open {}: {}", path, e));
    let mut r = BufReader::new(f);
    match rustls_pemfile::read_one(&mut r).unwrap() {
        Some(rustls_pemfile::Item::PKCS8Key(k)) | Some(rustls_pemfile::Item::RSAKey(k)) => PrivateKey(k),
        _ => panic!("no key in {}", path),
    }
}

/// client config trusting `ca` and optionally presenting a client certificate (name without extension)
pub fn client_config(ca: &str, client: Option<&str>, alpn: Option<&[u8]>) -> Arc<ClientConfig> {
    let mut roots = RootCertStore::empty();
    for c in load_certs(&pki(ca)) {
        roots.add(&c).unwrap();
    }
    let b = ClientConfig::builder().with_safe_defaults().with_root_certificates(roots);
    let mut cfg = match client {
        Some(n) => b.with_single_cert(load_certs(&pki(&format!("{}.crt", n))), load_key(&pki(&format!("{}.key", n)))).unwrap(),
        None => b.with_no_client_auth(),
    };
    if let Some(a) = alpn {
        cfg.alpn_protocols = vec![a.to_vec()];
    }
    Arc::new(cfg)
}

pub fn server_config(cert: &str, alpn: Option<&[u8]>) -> Arc<ServerConfig> {
    let mut cfg = ServerConfig::builder()
        .with_safe_defaults()
        .with_no_client_auth()
        .with_single_cert(load_certs(&pki(&format!("{}.crt", cert))), load_key(&pki(&format!("{}.key", cert))))
        .unwrap();
    if let Some(a) = alpn {
        cfg.alpn_protocols = vec![a.to_vec()];
    }
    Arc::new(cfg)
}

pub fn server_name() -> rustls::ServerName {
    std::convert::TryFrom::try_from("localhost").unwrap()
}

pub fn quic_client(ca: &str, client: Option<&str>) -> quinn::Endpoint {
    let cfg = client_config(ca, client, Some(b"h11c"));
    let mut ep = quinn::Endpoint::client("127.0.0.1:0".parse().unwrap()).unwrap();
    ep.set_default_client_config(quinn::ClientConfig::new(cfg));
    ep
}

pub fn quic_server(cert: &str) -> (quinn::Endpoint, u16) {
    let cfg = server_config(cert, Some(b"h11c"));
    let ep = quinn::Endpoint::server(quinn::ServerConfig::with_crypto(cfg), "127.0.0.1:0".parse().unwrap()).unwrap();
    let port = ep.local_addr().unwrap().port();
    (ep, port)
}
