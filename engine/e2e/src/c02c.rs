//! C02(c) — routing on the real process: the reference decision, nothing leaks on a refusal, and the
//! request attributes that filters see are the real connection's values.
use crate::net::*;
use crate::world::*;
use proptest::prelude::*;
use serde::{Deserialize, Serialize};
use serde_json::json;
use std::net::SocketAddr;
use std::sync::{Arc, Mutex};
use std::time::Duration;
use tokio::io::{AsyncReadExt, AsyncWriteExt};
use vcore::refcodec as rc;
use vcore::refcodec::{Dest, Host};
use vcore::{CaseInfo, Failure, Part, SubCheck};

#[derive(Clone, Debug, PartialEq, Serialize, Deserialize)]
pub enum Atom {
    True,
    False,
    PortEq(u8),
    PortLt(u8),
    HostEq(u8),
    ListenerEq(u8),
    SourceHostEq(bool),
    /// request.source == "ip:port" of probe i of the case
    SourceIs(u8),
    SourcePortIs(u8),
    TypeEq(u8),
    FeatureEq(bool),
    /// cidr_match(request.target.host | request.source.host, net)
    Cidr(bool, u8),
    TargetRegex(u8),
    /// filters that pass the type checker and fail for some or all requests
    Erroring(u8),
    Not(Box<Atom>),
    And(Box<Atom>, Box<Atom>),
    Or(Box<Atom>, Box<Atom>),
}

pub const HOSTS: &[&str] = &["127.0.1.1", "127.0.1.2", "127.0.1.3", "localhost"];
pub const LISTENERS: &[&str] = &["http", "socks", "reverse"];
pub const NETS: &[&str] = &["127.0.1.0/24", "127.0.1.2/32", "127.0.1.2/31", "127.0.0.0/16", "127.0.1.1/32", "10.0.0.0/8", "0.0.0.0/0", "::/0", "::1/128", "garbage"];
const TYPES: &[&str] = &["ipv4", "domain", "ipv6"];

#[derive(Clone, Debug, Serialize, Deserialize)]
pub struct RuleSpec {
    /// 0 deny, 1..=3 connector c0..c2, 4 the load balancer (TCP only), 5 the socks4 connector
    pub target: u8,
    pub filter: Option<Atom>,
}

#[derive(Clone, Debug, Serialize, Deserialize)]
pub struct Probe {
    /// 0 http, 1 socks5, 2 socks4/4a, 3 reverse, 4 socks5 UDP ASSOCIATE
    pub via: u8,
    pub host: u8,
    pub port: u8,
}

#[derive(Clone, Debug, Serialize, Deserialize)]
pub struct Case {
    pub rules: Vec<RuleSpec>,
    pub probes: Vec<Probe>,
}

/// what a probe looks like to a filter
struct Req {
    listener: usize,
    host: String,
    typ: &'static str,
    port: u16,
    source: SocketAddr,
    udp: bool,
}

struct World {
    oports: [u16; 3],
    sources: Vec<SocketAddr>,
}

fn cidr_ref(ip: &str, net: &str) -> bool {
    let ip: std::net::IpAddr = match ip.parse() {
        Ok(x) => x,
        Err(_) => return false,
    };
    let (n, l) = match net.split_once('/') {
        Some(x) => x,
        None => return false,
    };
    let l: u32 = match l.parse() {
        Ok(x) => x,
        Err(_) => return false,
    };
    match (ip, n.parse::<std::net::IpAddr>()) {
        (std::net::IpAddr::V4(a), Ok(std::net::IpAddr::V4(b))) if l <= 32 => {
            let m = if l == 0 { 0 } else { u32::MAX << (32 - l) };
            (u32::from(a) & m) == (u32::from(b) & m)
        }
        (std::net::IpAddr::V6(a), Ok(std::net::IpAddr::V6(b))) if l <= 128 => {
            let m = if l == 0 { 0 } else { u128::MAX << (128 - l) };
            (u128::from(a) & m) == (u128::from(b) & m)
        }
        _ => false,
    }
}

impl Atom {
    fn src(&self, w: &World) -> String {
        match self {
            Atom::True => "true".into(),
            Atom::False => "false".into(),
            Atom::PortEq(k) => format!("request.target.port == {}", w.oports[*k as usize % 3]),
            Atom::PortLt(k) => format!("request.target.port < {}", w.oports[*k as usize % 3]),
            Atom::HostEq(h) => format!("request.target.host == \"{}\"", HOSTS[*h as usize % 4]),
            Atom::ListenerEq(l) => format!("request.listener == \"{}\"", LISTENERS[*l as usize % 3]),
            Atom::SourceHostEq(b) => format!("request.source.host == \"{}\"", if *b { "127.0.0.1" } else { "10.9.8.7" }),
            Atom::SourceIs(i) => format!("request.source == \"{}\"", w.sources[*i as usize % w.sources.len()]),
            Atom::SourcePortIs(i) => format!("request.source.port == {}", w.sources[*i as usize % w.sources.len()].port()),
            Atom::TypeEq(t) => format!("request.target.type == \"{}\"", TYPES[*t as usize % 3]),
            Atom::FeatureEq(u) => format!("request.feature == \"{}\"", if *u { "UdpForward" } else { "TcpForward" }),
            Atom::Cidr(target, n) => format!("cidr_match(request.{}.host, \"{}\")", if *target { "target" } else { "source" }, NETS[*n as usize % NETS.len()]),
            Atom::TargetRegex(k) => match k % 4 {
                0 => "request.target =~ \"^127\\\\.0\\\\.1\\\\.2:\"".into(),
                1 => format!("request.target =~ \":{}$\"", w.oports[1]),
                2 => "request.target =~ \"^localhost:\"".into(),
                _ => "request.target.host !~ \"^127\\\\.\"".into(),
            },
            Atom::Erroring(k) => match k % 4 {
                0 => "to_integer(request.target.host) == 1".into(),
                1 => format!("1 / (request.target.port - {}) == 7", w.oports[0]),
                2 => "split(request.target.host, \".\")[3] == \"2\"".into(),
                _ => "to_integer(request.listener) > 0".into(),
            },
            Atom::Not(a) => format!("!({})", a.src(w)),
            Atom::And(a, b) => format!("({}) && ({})", a.src(w), b.src(w)),
            Atom::Or(a, b) => format!("({}) || ({})", a.src(w), b.src(w)),
        }
    }
    /// Err = the evaluation fails (the rule does not match)
    fn eval(&self, r: &Req, w: &World) -> Result<bool, ()> {
        Ok(match self {
            Atom::True => true,
            Atom::False => false,
            Atom::PortEq(k) => r.port == w.oports[*k as usize % 3],
            Atom::PortLt(k) => r.port < w.oports[*k as usize % 3],
            Atom::HostEq(h) => r.host == HOSTS[*h as usize % 4],
            Atom::ListenerEq(l) => r.listener == *l as usize % 3,
            Atom::SourceHostEq(b) => *b,
            Atom::SourceIs(i) => r.source == w.sources[*i as usize % w.sources.len()],
            Atom::SourcePortIs(i) => r.source.port() == w.sources[*i as usize % w.sources.len()].port(),
            Atom::TypeEq(t) => r.typ == TYPES[*t as usize % 3],
            Atom::FeatureEq(u) => r.udp == *u,
            Atom::Cidr(target, n) => cidr_ref(if *target { &r.host } else { "127.0.0.1" }, NETS[*n as usize % NETS.len()]),
            Atom::TargetRegex(k) => match k % 4 {
                0 => r.host == "127.0.1.2",
                1 => r.port == w.oports[1],
                2 => r.host == "localhost",
                _ => !r.host.starts_with("127."),
            },
            Atom::Erroring(k) => match k % 4 {
                0 => return Err(()), // no host here is a number
                1 => {
                    if r.port == w.oports[0] {
                        return Err(());
                    }
                    1 / (r.port as i64 - w.oports[0] as i64) == 7
                }
                2 => {
                    let parts: Vec<&str> = r.host.split('.').collect();
                    match parts.get(3) {
                        Some(p) => *p == "2",
                        None => return Err(()),
                    }
                }
                _ => return Err(()),
            },
            Atom::Not(a) => !a.eval(r, w)?,
            Atom::And(a, b) => a.eval(r, w)? && b.eval(r, w)?,
            Atom::Or(a, b) => a.eval(r, w)? || b.eval(r, w)?,
        })
    }
    fn has_error_atom(&self) -> bool {
        match self {
            Atom::Erroring(_) => true,
            Atom::Not(a) => a.has_error_atom(),
            Atom::And(a, b) | Atom::Or(a, b) => a.has_error_atom() || b.has_error_atom(),
            _ => false,
        }
    }
}

fn atom_strategy() -> impl Strategy<Value = Atom> {
    let leaf = prop_oneof![
        2 => Just(Atom::True),
        2 => Just(Atom::False),
        3 => (0u8..3).prop_map(Atom::PortEq),
        1 => (0u8..3).prop_map(Atom::PortLt),
        3 => (0u8..4).prop_map(Atom::HostEq),
        3 => (0u8..3).prop_map(Atom::ListenerEq),
        1 => any::<bool>().prop_map(Atom::SourceHostEq),
        3 => (0u8..3).prop_map(Atom::SourceIs),
        1 => (0u8..3).prop_map(Atom::SourcePortIs),
        2 => (0u8..3).prop_map(Atom::TypeEq),
        2 => any::<bool>().prop_map(Atom::FeatureEq),
        3 => (any::<bool>(), 0u8..10).prop_map(|(t, n)| Atom::Cidr(t, n)),
        2 => (0u8..4).prop_map(Atom::TargetRegex),
        3 => (0u8..4).prop_map(Atom::Erroring),
    ];
    leaf.prop_recursive(2, 6, 2, |inner| {
        prop_oneof![
            inner.clone().prop_map(|a| Atom::Not(Box::new(a))),
            (inner.clone(), inner.clone()).prop_map(|(a, b)| Atom::And(Box::new(a), Box::new(b))),
            (inner.clone(), inner).prop_map(|(a, b)| Atom::Or(Box::new(a), Box::new(b))),
        ]
    })
}

pub fn case_strategy() -> impl Strategy<Value = Case> {
    let rule = (prop_oneof![2 => Just(0u8), 6 => 1u8..4, 1 => Just(4u8), 1 => Just(5u8)], prop::option::weighted(0.85, atom_strategy())).prop_map(|(target, filter)| RuleSpec { target, filter });
    let probe = (prop_oneof![3 => Just(0u8), 3 => Just(1u8), 2 => Just(2u8), 1 => Just(3u8), 2 => Just(4u8)], 0u8..4, 0u8..3).prop_map(|(via, host, port)| Probe { via, host, port });
    (prop::collection::vec(rule, 0..7), prop::collection::vec(probe, 3..4)).prop_map(|(rules, probes)| Case { rules, probes })
}

#[derive(Default)]
struct Seen {
    /// (origin index or 100 for the socks4 upstream, peer ip, bytes)
    conns: Vec<(usize, String, Vec<u8>)>,
}

pub struct Fx {
    proxy: Proxy,
    http: u16,
    socks: u16,
    reverse: u16,
    api: u16,
    oports: [u16; 3],
    seen: Arc<Mutex<Seen>>,
    _tasks: Vec<tokio::task::JoinHandle<()>>,
}

impl Drop for Fx {
    fn drop(&mut self) {
        for t in &self._tasks {
            t.abort();
        }
    }
}

async fn recorder(idx: usize, seen: Arc<Mutex<Seen>>) -> Result<(u16, tokio::task::JoinHandle<()>), String> {
    let l = tokio::net::TcpListener::bind("0.0.0.0:0").await.map_err(|e| e.to_string())?;
    let port = l.local_addr().unwrap().port();
    let h = tokio::spawn(async move {
        loop {
            if let Ok((mut s, peer)) = l.accept().await {
                let slot = {
                    let mut g = seen.lock().unwrap();
                    g.conns.push((idx, peer.ip().to_string(), vec![]));
                    g.conns.len() - 1
                };
                let seen = seen.clone();
                tokio::spawn(async move {
                    if idx == 100 {
                        // the socks4 upstream: read the request, refuse it (91)
                        let mut b = [0u8; 512];
                        if let Ok(Ok(n)) = tokio::time::timeout(Duration::from_secs(2), s.read(&mut b)).await {
                            seen.lock().unwrap().conns[slot].2.extend_from_slice(&b[..n]);
                        }
                        let _ = s.write_all(&[0, 91, 0, 0, 0, 0, 0, 0]).await;
                        return;
                    }
                    let _ = s.write_all(format!("peer={}\n", peer.ip()).as_bytes()).await;
                    let mut b = [0u8; 4096];
                    while let Ok(n) = s.read(&mut b).await {
                        if n == 0 {
                            break;
                        }
                        seen.lock().unwrap().conns[slot].2.extend_from_slice(&b[..n]);
                    }
                });
            }
        }
    });
    Ok((port, h))
}

pub async fn fixture() -> Result<Fx, String> {
    let seen: Arc<Mutex<Seen>> = Default::default();
    let mut tasks = vec![];
    let mut oports = [0u16; 3];
    for i in 0..3 {
        let (p, h) = recorder(i, seen.clone()).await?;
        oports[i] = p;
        tasks.push(h);
    }
    let (up4, h) = recorder(100, seen.clone()).await?;
    tasks.push(h);
    let (http, socks, reverse, api) = (free_port(), free_port(), free_port(), free_port());
    let yaml = format!(
        r#"apiVersion: v1
kind: test
listeners:
  - name: http
    bind: 127.0.0.1:{http}
  - name: socks
    bind: 127.0.0.1:{socks}
  - name: reverse
    bind: 127.0.0.1:{reverse}
    target: 127.0.1.1:{o0}
connectors:
  - name: c0
    type: direct
    bind: 127.0.2.1
    dns:
      servers: system
      family: V4Only
  - name: c1
    type: direct
    bind: 127.0.2.2
    dns:
      servers: system
      family: V4Only
  - name: c2
    type: direct
    bind: 127.0.2.3
    dns:
      servers: system
      family: V4Only
  - name: lb
    type: loadbalance
    connectors: [c1]
  - name: s4
    type: socks
    version: 4
    server: 127.0.0.1
    port: {up4}
rules: []
metrics:
  bind: 127.0.0.1:{api}
  historySize: 10
ioParams:
  bufferSize: 4096
  useSplice: false
"#,
        http = http,
        socks = socks,
        reverse = reverse,
        api = api,
        o0 = oports[0],
        up4 = up4
    );
    let proxy = tokio::task::spawn_blocking(move || Proxy::start("c02c", &yaml, &[http, socks, reverse, api], Some(api))).await.map_err(|e| e.to_string())??;
    // the readiness probes of Proxy::start are connections too (the one to the reverse listener would be
    // routed by whatever list is in force when it is processed): wait until none is live any more
    for _ in 0..100 {
        match api_json(api, "GET", "/api/live", None, Duration::from_secs(2)).await {
            Ok((200, v)) if v.as_array().map(|a| a.is_empty()).unwrap_or(false) => break,
            _ => tokio::time::sleep(Duration::from_millis(20)).await,
        }
    }
    tokio::time::sleep(Duration::from_millis(50)).await;
    Ok(Fx { proxy, http, socks, reverse, api, oports, seen, _tasks: tasks })
}

const TARGETS: &[&str] = &["deny", "c0", "c1", "c2", "lb", "s4"];

/// reference decision: Some(target index 1..=5) or None = refused
fn decide(rules: &[RuleSpec], r: &Req, w: &World) -> (Option<u8>, Option<usize>, &'static str) {
    for (i, rule) in rules.iter().enumerate() {
        let hit = match &rule.filter {
            None => true,
            Some(f) => f.eval(r, w) == Ok(true),
        };
        if hit {
            let t = rule.target % 6;
            if t == 0 {
                return (None, Some(i), "deny-rule");
            }
            if r.udp && t == 4 {
                return (None, Some(i), "feature-not-supported");
            }
            return (Some(t), Some(i), "routed");
        }
    }
    (None, None, "no-rule")
}

pub async fn run_case(fx: &Fx, c: &Case, tag: u32) -> Result<(bool, serde_json::Value), Failure> {
    let dur = Duration::from_secs(8);
    let sources: Vec<SocketAddr> = c.probes.iter().map(|_| SocketAddr::from(([127, 0, 0, 1], free_port()))).collect();
    let w = World { oports: fx.oports, sources: sources.clone() };
    // install the list
    let body: Vec<serde_json::Value> = c
        .rules
        .iter()
        .map(|r| match &r.filter {
            Some(f) => json!({"target": TARGETS[r.target as usize % 6], "filter": f.src(&w)}),
            None => json!({"target": TARGETS[r.target as usize % 6]}),
        })
        .collect();
    let (st, resp) = api_json(fx.api, "POST", "/api/rules", Some(&json!(body)), dur).await.map_err(|e| Failure::new("infrastructure", format!("POST /api/rules: {}", e)))?;
    if st / 100 != 2 {
        return Err(Failure::new("valid-list-rejected", format!("a rule list of well-typed filters was rejected with {}: {} — {}", st, resp, json!(body))));
    }
    let mut trace = vec![];
    let mut nontrivial = false;
    for (pi, p) in c.probes.iter().enumerate() {
        let host = HOSTS[p.host as usize % 4];
        let oi = p.port as usize % 3;
        let via = p.via % 5;
        let (listener, req_host, req_port, typ, udp) = match via {
            3 => (2usize, "127.0.1.1".to_string(), fx.oports[0], "ipv4", false),
            4 => (1usize, "0.0.0.0".to_string(), 0u16, "ipv4", true),
            0 => (0usize, host.to_string(), fx.oports[oi], if host == "localhost" { "domain" } else { "ipv4" }, false),
            _ => (1usize, host.to_string(), fx.oports[oi], if host == "localhost" { "domain" } else { "ipv4" }, false),
        };
        let r = Req { listener, host: req_host.clone(), typ, port: req_port, source: sources[pi], udp };
        let (want, rule_idx, why) = decide(&c.rules, &r, &w);
        let before = fx.seen.lock().unwrap().conns.len();
        let marker = format!("SECRET-{:08x}-{:02}-PAYLOAD", tag, pi).into_bytes();
        let d = if host == "localhost" { Dest::name("localhost", req_port) } else { Dest { host: Host::V4(req_host.parse::<std::net::Ipv4Addr>().map(|a| a.octets()).unwrap_or([0; 4])), port: req_port } };
        let lport = [fx.http, fx.socks, fx.reverse][listener];
        let mut s = connect_from(Some(sources[pi]), lo(lport)).await.map_err(|e| Failure::new("infrastructure", format!("connect from {}: {}", sources[pi], e)))?;
        // the payload is pipelined right behind the handshake
        let reply = match via {
            0 => http_connect(&mut s, &d.authority(), &[], &marker, dur).await,
            1 => socks5_connect(&mut s, &d, None, 1, &marker, dur).await,
            2 => socks4_connect(&mut s, &d, b"u", 1, &marker, dur).await,
            3 => {
                let _ = s.write_all(&marker).await;
                Reply::Ok { leftover: vec![] }
            }
            _ => socks5_connect(&mut s, &Dest { host: Host::V4([0, 0, 0, 0]), port: 0 }, None, 3, &[], dur).await,
        };
        // what happened
        let mut banner = match &reply {
            Reply::Ok { leftover } => leftover.clone(),
            _ => vec![],
        };
        let mut got_connector: Option<u8> = None;
        let established = matches!(reply, Reply::Ok { .. });
        if established && !udp {
            let _ = read_until(&mut s, &mut banner, |b| b.iter().position(|c| *c == b'\n').map(|i| i + 1), Duration::from_millis(if want.is_some() && want != Some(5) { 4000 } else { 400 })).await;
            let line = String::from_utf8_lossy(&banner).to_string();
            got_connector = match line.trim().strip_prefix("peer=") {
                Some("127.0.2.1") => Some(1),
                Some("127.0.2.2") => Some(if want == Some(4) { 4 } else { 2 }),
                Some("127.0.2.3") => Some(3),
                _ => None,
            };
        }
        tokio::time::sleep(Duration::from_millis(if want.is_none() || want == Some(5) { 120 } else { 30 })).await;
        drop(s);
        let new: Vec<(usize, String, Vec<u8>)> = fx.seen.lock().unwrap().conns[before..].to_vec();
        let desc = format!(
            "probe #{} via {} to {}:{} from {} ({}): reference = {} ({}{})",
            pi,
            ["http", "socks5", "socks4", "reverse", "socks5-udp-associate"][via as usize],
            req_host,
            req_port,
            sources[pi],
            if udp { "UdpForward" } else { "TcpForward" },
            want.map(|t| TARGETS[t as usize]).unwrap_or("refused"),
            why,
            rule_idx.map(|i| format!(", rule #{}", i)).unwrap_or_default()
        );
        let rules_txt = || json!(body).to_string();
        match want {
            None => {
                // refused: no upstream connection at all, not a byte of the payload anywhere
                if !new.is_empty() {
                    let leaked = new.iter().any(|(_, _, b)| b.windows(6).any(|w| w == b"SECRET"));
                    return Err(Failure::new(
                        format!("{}:{}", if leaked { "payload-leaked-on-refusal" } else { "upstream-opened-on-refusal" }, why),
                        format!("{} — but {} upstream connection(s) were opened (origin index, from, bytes): {:?}; rules = {}", desc, new.len(), new.iter().map(|(i, p, b)| (i, p, b.len())).collect::<Vec<_>>(), rules_txt()),
                    ));
                }
                if established && via != 3 {
                    return Err(Failure::new(format!("established-instead-of-refused:{}", why), format!("{} — the client was told the tunnel is established; rules = {}", desc, rules_txt())));
                }
            }
            Some(5) if !udp => {
                // the socks4 upstream refuses every request: it must have been asked, exactly once, and nobody else
                let asked: Vec<_> = new.iter().filter(|(i, _, _)| *i == 100).collect();
                if asked.len() != 1 || new.len() != 1 {
                    return Err(Failure::new("wrong-connector:s4", format!("{} — upstream connections: {:?}; rules = {}", desc, new.iter().map(|(i, p, b)| (i, p, b.len())).collect::<Vec<_>>(), rules_txt())));
                }
            }
            Some(5) if udp => {}
            Some(t) if udp => {
                if !established {
                    return Err(Failure::new("udp-refused-instead-of-routed", format!("{} — the UDP ASSOCIATE was refused ({:?}); rules = {}", desc, reply, rules_txt()).chars().take(900).collect::<String>()));
                }
                let _ = t;
            }
            Some(t) => {
                if !established {
                    return Err(Failure::new(
                        format!("refused-instead-of-routed:{}", if rule_idx.map(|i| i > 0).unwrap_or(false) { "later-rule" } else { "first-rule" }),
                        format!("{} — the client got {:?}; rules = {}", desc, reply, rules_txt()).chars().take(900).collect::<String>(),
                    ));
                }
                if got_connector != Some(t) {
                    return Err(Failure::new(
                        format!("wrong-connector:{}", if c.rules.iter().any(|r| r.filter.as_ref().map(|f| f.has_error_atom()).unwrap_or(false)) { "with-erroring-filter" } else { "plain" }),
                        format!("{} — but the origin was reached through {:?} (banner {:?}); rules = {}", desc, got_connector.map(|t| TARGETS[t as usize]), String::from_utf8_lossy(&banner), rules_txt()),
                    ));
                }
                // exactly one upstream connection, to the addressed origin, carrying the payload
                let expect_origin = if via == 3 { 0 } else { oi };
                if new.len() != 1 || new[0].0 != expect_origin {
                    return Err(Failure::new("wrong-upstream-connections", format!("{} — upstream connections: {:?}", desc, new.iter().map(|(i, p, b)| (i, p, b.len())).collect::<Vec<_>>())));
                }
                if new[0].2 != marker {
                    return Err(Failure::new("pipelined-payload-differs", format!("{} — the origin received {:?}, the client sent {:?}", desc, String::from_utf8_lossy(&new[0].2), String::from_utf8_lossy(&marker))));
                }
            }
        }
        if rule_idx.map(|i| i >= 1).unwrap_or(true) || why != "routed" || c.rules.iter().any(|r| r.filter.as_ref().map(|f| f.has_error_atom()).unwrap_or(false)) {
            nontrivial = true;
        }
        trace.push(desc);
    }
    Ok((nontrivial, json!({"rules": body, "probes": trace})))
}

pub struct RoutingCheck;
impl SubCheck for RoutingCheck {
    fn property(&self) -> &'static str {
        "C02"
    }
    fn name(&self) -> &'static str {
        "e2e-routing"
    }
    fn rule(&self) -> String {
        "rule lists of 0-6 rules installed with POST /api/rules on real proxies (listeners http, socks, reverse; connectors c0-c2 = direct bound to 127.0.2.1-3, a TCP-only load balancer, a SOCKS4 upstream that records and refuses): targets deny / c0 / c1 / c2 / lb / s4, filters from a grammar with a Rust reference predicate (target port / host / type, listener, source host, the exact source ip:port or port the harness bound for probe i, feature, cidr_match of target or source against 10 networks, regexes over request.target, four filters that fail at run time for some or all requests, combined with ! && ||; an error makes the rule not match), then 3 probes per list via HTTP CONNECT, SOCKS5, SOCKS4/4a, the reverse listener or SOCKS5 UDP ASSOCIATE to 127.0.1.1-3 / localhost x 3 recording origins, each from a harness-bound source port with a marked payload pipelined behind the handshake; oracle: the first matching rule's connector serves (identified by the address the origin sees / by the SOCKS4 upstream being asked), exactly one upstream connection to the addressed origin carrying exactly the payload; on deny / no rule / unsupported feature the client is refused, no origin or upstream accepts any connection and the payload appears nowhere; non-trivial = decided by a rule at index >= 1, by fall-through, by a refusal, or with an erroring filter in the list".into()
    }
    fn run(&self, part: &mut Part) {
        let n = part.tier.pick(400, 12000) as usize;
        let cases = part.draw("e2e-routing", n, &case_strategy());
        let rt = tokio::runtime::Builder::new_multi_thread().worker_threads(8).enable_all().build().unwrap();
        let lanes = 8usize;
        let results: Vec<(Case, Result<(bool, serde_json::Value), Failure>)> = rt.block_on(async {
            let mut hs = vec![];
            for lane in 0..lanes {
                let mine: Vec<(usize, Case)> = cases.iter().cloned().enumerate().filter(|(i, _)| i % lanes == lane).collect();
                hs.push(tokio::spawn(async move {
                    let mut out = vec![];
                    let mut fx = match fixture().await {
                        Ok(f) => f,
                        Err(e) => return vec![(mine[0].1.clone(), Err(Failure::new("infrastructure", e)))],
                    };
                    for (i, c) in mine {
                        let r = run_case(&fx, &c, i as u32).await;
                        let failed = r.is_err();
                        out.push((c, r));
                        if failed || !fx.proxy.alive() {
                            fx = match fixture().await {
                                Ok(f) => f,
                                Err(_) => break,
                            };
                        }
                    }
                    out
                }));
            }
            let mut all = vec![];
            for h in hs {
                if let Ok(v) = h.await {
                    all.extend(v);
                }
            }
            all
        });
        for (c, r) in results {
            let mut info = CaseInfo::default();
            for p in &c.probes {
                info.class(["via:http", "via:socks5", "via:socks4", "via:reverse", "via:udp-associate"][(p.via % 5) as usize]);
            }
            match r {
                Ok((nt, sample)) => {
                    info.nontrivial = nt;
                    if part.samples.len() < 3 {
                        info.sample = Some(sample);
                    }
                    part.account(vcore::digest_json(&c), info);
                }
                Err(f) if f.key == "infrastructure" => {
                    info.inconclusive = true;
                    part.note(format!("infrastructure: {}", f.desc));
                    part.account(vcore::digest_json(&c), info);
                }
                Err(f) => {
                    part.account(vcore::digest_json(&c), info);
                    part.record_failure(f, serde_json::to_value(&c).unwrap());
                }
            }
        }
    }
    fn replay(&self, case: &serde_json::Value) -> Result<(), Failure> {
        let c: Case = serde_json::from_value(case.clone()).map_err(|e| Failure::new("replay-decode", e.to_string()))?;
        let rt = tokio::runtime::Builder::new_multi_thread().worker_threads(4).enable_all().build().unwrap();
        rt.block_on(async {
            let fx = fixture().await.map_err(|e| Failure::new("infrastructure", e))?;
            run_case(&fx, &c, 1).await.map(|_| ())
        })
    }
}

pub fn checks() -> Vec<Box<dyn SubCheck>> {
    let _ = rc::encode_socks5_greeting(&[0]);
    vec![Box::new(RoutingCheck)]
}
