mod c06;
mod c13;
mod c14;
mod c15;
mod net;
mod world;

use vcore::SubCheck;

fn main() {
    let mut checks: Vec<Box<dyn SubCheck>> = vec![];
    checks.extend(c06::checks());
    checks.extend(c13::checks());
    checks.extend(c14::checks());
    checks.extend(c15::checks());
    std::process::exit(vcore::driver("vp-e2e", checks));
}
