mod c01b;
mod c01c;
mod c02c;
mod c05b;
mod c06;
mod c07;
mod c10;
mod c13;
mod c14;
mod c15;
mod c16;
mod c19;
mod net;
mod tlsutil;
mod tunnel;
mod world;

use vcore::SubCheck;

fn main() {
    let mut checks: Vec<Box<dyn SubCheck>> = vec![];
    checks.extend(c01b::checks());
    checks.extend(c01c::checks());
    checks.extend(c02c::checks());
    checks.extend(c05b::checks());
    checks.extend(c06::checks());
    checks.extend(c07::checks());
    checks.extend(c10::checks());
    checks.extend(c13::checks());
    checks.extend(c14::checks());
    checks.extend(c15::checks());
    checks.extend(c16::checks());
    checks.extend(c19::checks());
    std::process::exit(vcore::driver("vp-e2e", checks));
}
