fn main() {
    std::process::exit(vcore::driver("vp-e2e", vec![]));
}
