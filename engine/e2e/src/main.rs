mod c06;
mod c13;
mod net;
mod world;

use vcore::SubCheck;

fn main() {
    let mut checks: Vec<Box<dyn SubCheck>> = vec![];
    checks.extend(c06::checks());
    checks.extend(c13::checks());
    std::process::exit(vcore::driver("vp-e2e", checks));
}
