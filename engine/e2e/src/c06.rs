//! C06 — the client is told "established" iff the upstream is, and only after; every failure gets one
//! complete reply in the client's protocol, then EOF; never both.
use crate::net::*;
use crate::world::*;
use proptest::prelude::*;
use serde::{Deserialize, Serialize};
use serde_json::json;
use std::sync::Arc;
use std::time::{Duration, Instant};
use tokio::io::{AsyncReadExt, AsyncWriteExt};
use tokio::net::{TcpListener, TcpStream};
use vcore::refcodec::{self as rc, Dest, Host};
use vcore::{CaseInfo, Failure, Part, SubCheck, Tier};

#[derive(Clone, Copy, Debug, PartialEq, Eq, Serialize, Deserialize)]
pub enum Proto {
    Http,
    Socks5,
    Socks5Auth,
    Socks5BadAuth,
    Socks4,
    Socks4a,
}

#[derive(Clone, Copy, Debug, PartialEq, Eq, Serialize, Deserialize)]
pub enum Outcome {
    DirectReachable,
    DirectRefused,
    Deny,
    NoRule,
    /// upstream proxy kinds with a script number
    UpHttp(u8),
    UpSocks5(u8),
    UpSocks4(u8),
    /// UDP ASSOCIATE routed to a TCP-only load balancer
    FeatureUnsupported,
    /// SOCKS BIND / unknown command, HTTP non-CONNECT
    BadCommand(u8),
}

#[derive(Clone, Copy, Debug, PartialEq, Eq, Serialize, Deserialize)]
pub enum Behave {
    Waits,
    Pipelines,
    HalfCloses,
}

#[derive(Clone, Debug, Serialize, Deserialize)]
pub struct Case {
    pub proto: Proto,
    pub outcome: Outcome,
    pub behave: Behave,
    pub tag: u32,
}

pub const HTTP_SCRIPTS: u8 = 11;
pub const S5_SCRIPTS: u8 = 16;
pub const S4_SCRIPTS: u8 = 6;

/// what the fake upstream does; returns true if the script is a success
pub fn http_script(n: u8) -> (Vec<u8>, bool, bool) {
    // (reply bytes, success, close right after reply)
    match n % HTTP_SCRIPTS {
        0 => (b"HTTP/1.1 200 OK\r\n\r\n".to_vec(), true, false),
        1 => (b"HTTP/1.1 200 \r\n\r\n".to_vec(), true, false),
        2 => (b"HTTP/1.1 200 Connection established\r\nVia: 1.1 fake\r\nX-Extra: a: b\r\n\r\n".to_vec(), true, false),
        3 => (b"HTTP/1.1 403 Forbidden\r\nContent-Length: 5\r\n\r\nnope!".to_vec(), false, true),
        4 => (b"HTTP/1.1 407 Proxy Authentication Required\r\nProxy-Authenticate: Basic realm=\"x\"\r\nContent-Length: 0\r\n\r\n".to_vec(), false, true),
        5 => (b"HTTP/1.1 502 Bad Gateway\r\n\r\n".to_vec(), false, true),
        6 => (vec![], false, true),
        7 => (b"\x00\x01garbage\r\n\r\n".to_vec(), false, true),
        8 => (b"HTTP/1.1 200 OK\r\n\r\n".to_vec(), true, true),
        9 => (b"HTTP/1.1 302 Found\r\nLocation: http://elsewhere.test/\r\nContent-Length: 0\r\n\r\n".to_vec(), false, true),
        _ => (b"HTTP/1.0 200 Connection Established\r\nProxy-agent: fake/1.0\r\n\r\n".to_vec(), true, false),
    }
}

pub fn s5_script(n: u8) -> (Vec<u8>, bool) {
    let ok4 = rc::encode_socks5_reply(0, &Dest { host: Host::V4([127, 0, 0, 1]), port: 4000 }).unwrap();
    match n % S5_SCRIPTS {
        0 => ([vec![5, 0], ok4].concat(), true),
        1 => ([vec![5, 0], rc::encode_socks5_reply(0, &Dest::name("bound.example", 4000)).unwrap()].concat(), true),
        2 => ([vec![5, 0], rc::encode_socks5_reply(0, &Dest { host: Host::V6([0; 16]), port: 1 }).unwrap()].concat(), true),
        3 => (vec![5, 0xff], false),
        4 => (vec![5, 0], false), // closes after the method selection
        5 => (vec![], false),
        6 => (vec![5, 0, 9, 9, 9, 9, 9], false),
        k => ([vec![5, 0], rc::encode_socks5_reply(k - 6, &Dest { host: Host::V4([0, 0, 0, 0]), port: 0 }).unwrap()].concat(), false), // rep 1..9
    }
}

pub fn s4_script(n: u8) -> (Vec<u8>, bool) {
    match n % S4_SCRIPTS {
        0 => (rc::encode_socks4_reply(90, 4000, [127, 0, 0, 1]), true),
        1 => (rc::encode_socks4_reply(91, 0, [0, 0, 0, 0]), false),
        2 => (rc::encode_socks4_reply(92, 0, [0, 0, 0, 0]), false),
        3 => (rc::encode_socks4_reply(93, 0, [0, 0, 0, 0]), false),
        4 => (vec![], false),
        _ => (vec![0, 90], false), // truncated grant
    }
}

pub struct Fixture {
    pub proxy: Proxy,
    pub http: u16,
    pub socks: u16,
    pub socks_auth: u16,
    pub api: u16,
    pub origin: Origin,
    pub refused_port: u16,
    pub up_http: FakeUp,
    pub up_s5: FakeUp,
    pub up_s4: FakeUp,
}

/// A fake upstream proxy: reads the request, answers from the script encoded in the target port,
/// records when it answered, then echoes.
pub struct FakeUp {
    pub port: u16,
    /// SOCKS5 only: what to do at the greeting, before the target (and thereby the script) is known:
    /// 0 = select "no authentication", 3 = answer "no acceptable method", 5 = close without a word
    pub greeting_mode: Arc<std::sync::atomic::AtomicU8>,
    pub events: Arc<std::sync::Mutex<Vec<(u16, Instant, bool)>>>,
    pub requests: Arc<std::sync::Mutex<Vec<Vec<u8>>>>,
    handle: tokio::task::JoinHandle<()>,
}
impl Drop for FakeUp {
    fn drop(&mut self) {
        self.handle.abort();
    }
}

pub const SCRIPT_PORT_BASE: u16 = 30000;

async fn fake_upstream(kind: &'static str) -> FakeUp {
    let l = TcpListener::bind("127.0.0.1:0").await.unwrap();
    let port = l.local_addr().unwrap().port();
    let events: Arc<std::sync::Mutex<Vec<(u16, Instant, bool)>>> = Default::default();
    let requests: Arc<std::sync::Mutex<Vec<Vec<u8>>>> = Default::default();
    let ev = events.clone();
    let rq = requests.clone();
    let greeting_mode: Arc<std::sync::atomic::AtomicU8> = Default::default();
    let gm = greeting_mode.clone();
    let handle = tokio::spawn(async move {
        loop {
            let (mut s, _) = match l.accept().await {
                Ok(x) => x,
                Err(_) => return,
            };
            let ev = ev.clone();
            let rq = rq.clone();
            let gm = gm.clone();
            tokio::spawn(async move {
                let mut buf = vec![];
                let dur = Duration::from_secs(10);
                // read the request of the upstream protocol and find the target port
                let (tport, reply, ok, close): (u16, Vec<u8>, bool, bool) = match kind {
                    "http" => {
                        if read_until(&mut s, &mut buf, |b| rc::parse_http_head(b, false).map(|h| h.consumed), dur).await.is_err() {
                            return;
                        }
                        let head = rc::parse_http_head(&buf, false).unwrap();
                        let d = rc::parse_authority(&head.start.1);
                        let p = d.map(|d| d.port).unwrap_or(0);
                        let (r, ok, close) = http_script((p.wrapping_sub(SCRIPT_PORT_BASE)) as u8);
                        buf.drain(..head.consumed);
                        (p, r, ok, close)
                    }
                    "socks5" => {
                        if read_until(&mut s, &mut buf, |b| if b.len() >= 2 && b.len() >= 2 + b[1] as usize { Some(2 + b[1] as usize) } else { None }, dur).await.is_err() {
                            return;
                        }
                        let n = 2 + buf[1] as usize;
                        buf.drain(..n);
                        match gm.load(std::sync::atomic::Ordering::SeqCst) {
                            3 => {
                                let _ = s.write_all(&[5, 0xff]).await;
                                ev.lock().unwrap().push((0, Instant::now(), false));
                                let _ = s.shutdown().await;
                                let _ = read_to_end_within(&mut s, Duration::from_secs(2)).await;
                                return;
                            }
                            5 => {
                                ev.lock().unwrap().push((0, Instant::now(), false));
                                return;
                            }
                            _ => {}
                        }
                        // we need the request to know the script, but the method selection must go out first
                        // for scripts that get that far: peek the script from a second read after replying 5,0
                        let _ = s.write_all(&[5, 0]).await;
                        if read_until(&mut s, &mut buf, |b| rc::parse_socks5_msg(b).map(|m| m.consumed), dur).await.is_err() {
                            return;
                        }
                        let m = rc::parse_socks5_msg(&buf).unwrap();
                        buf.drain(..m.consumed);
                        let p = m.dest.port;
                        let (r, ok) = s5_script(p.wrapping_sub(SCRIPT_PORT_BASE) as u8);
                        // the method selection was already sent: strip it from scripted replies that start with it
                        let r = if r.len() >= 2 && r[0] == 5 && r[1] == 0 { r[2..].to_vec() } else { r };
                        (p, r, ok, !ok)
                    }
                    _ => {
                        if read_until(&mut s, &mut buf, |b| rc::parse_socks4(b).map(|m| m.consumed), dur).await.is_err() {
                            return;
                        }
                        let m = rc::parse_socks4(&buf).unwrap();
                        buf.drain(..m.consumed);
                        let p = m.dest.port;
                        let (r, ok) = s4_script(p.wrapping_sub(SCRIPT_PORT_BASE) as u8);
                        (p, r, ok, !ok)
                    }
                };
                rq.lock().unwrap().push(buf.clone());
                // recorded before the reply leaves: the client can only learn of a grant after this instant
                // (recording it afterwards raced with a fast proxy: the success reply was seen first)
                ev.lock().unwrap().push((tport, Instant::now(), ok));
                if !reply.is_empty() {
                    let _ = s.write_all(&reply).await;
                }
                if close || !ok {
                    let _ = s.shutdown().await;
                    // drain
                    let _ = read_to_end_within(&mut s, Duration::from_secs(2)).await;
                    return;
                }
                // tunnel: echo (including bytes that arrived glued to the request)
                if !buf.is_empty() {
                    let _ = s.write_all(&buf).await;
                }
                let mut tmp = vec![0u8; 16384];
                loop {
                    match s.read(&mut tmp).await {
                        Ok(0) | Err(_) => break,
                        Ok(n) => {
                            if s.write_all(&tmp[..n]).await.is_err() {
                                break;
                            }
                        }
                    }
                }
                let _ = s.shutdown().await;
            });
        }
    });
    FakeUp { port, greeting_mode, events, requests, handle }
}

pub async fn fixture() -> Result<Fixture, String> {
    let http = free_port();
    let socks = free_port();
    let socks_auth = free_port();
    let api = free_port();
    let refused_port = free_port();
    let origin = Origin::start("127.0.1.1:0".parse().unwrap(), echo_script()).await.map_err(|e| e.to_string())?;
    let up_http = fake_upstream("http").await;
    let up_s5 = fake_upstream("socks5").await;
    let up_s4 = fake_upstream("socks4").await;
    let yaml = format!(
        r#"apiVersion: v1
kind: test
listeners:
  - name: http
    bind: 127.0.0.1:{http}
  - name: socks
    bind: 127.0.0.1:{socks}
  - name: socksauth
    type: socks
    bind: 127.0.0.1:{socks_auth}
    auth:
      required: true
      users:
        - username: alice
          password: secret
connectors:
  - name: direct
  - name: uphttp
    type: http
    server: 127.0.0.1
    port: {uh}
  - name: upsocks5
    type: socks
    server: 127.0.0.1
    port: {u5}
  - name: upsocks4
    type: socks
    version: 4
    server: 127.0.0.1
    port: {u4}
  - name: lb
    type: loadbalance
    connectors: [direct]
rules:
  - filter: request.feature == "UdpForward"
    target: lb
  - filter: request.target.host == "127.0.1.3"
    target: deny
  - filter: request.target.host == "127.0.1.5" || request.target.host == "up-http.test"
    target: uphttp
  - filter: request.target.host == "127.0.1.6" || request.target.host == "up-socks5.test"
    target: upsocks5
  - filter: request.target.host == "127.0.1.7" || request.target.host == "up-socks4.test"
    target: upsocks4
  - filter: request.target.host == "127.0.1.1" || request.target.host == "127.0.1.2"
    target: direct
metrics:
  bind: 127.0.0.1:{api}
  historySize: 50
ioParams:
  bufferSize: 4096
  useSplice: false
"#,
        http = http,
        socks = socks,
        socks_auth = socks_auth,
        uh = up_http.port,
        u5 = up_s5.port,
        u4 = up_s4.port,
        api = api,
    );
    let proxy = tokio::task::spawn_blocking(move || Proxy::start("c06", &yaml, &[http, socks, socks_auth, api], Some(api)))
        .await
        .map_err(|e| e.to_string())??;
    Ok(Fixture {
        proxy,
        http,
        socks,
        socks_auth,
        api,
        origin,
        refused_port,
        up_http,
        up_s5,
        up_s4,
    })
}

fn target_for(fx: &Fixture, c: &Case) -> Dest {
    let v4 = |a: [u8; 4], p: u16| Dest { host: Host::V4(a), port: p };
    let named = c.proto == Proto::Socks4a;
    match c.outcome {
        Outcome::DirectReachable => v4([127, 0, 1, 1], fx.origin.addr.port()),
        Outcome::DirectRefused => v4([127, 0, 1, 2], fx.refused_port),
        Outcome::Deny => v4([127, 0, 1, 3], fx.origin.addr.port()),
        Outcome::NoRule => v4([127, 0, 1, 4], fx.origin.addr.port()),
        Outcome::UpHttp(n) => {
            if named {
                Dest::name("up-http.test", SCRIPT_PORT_BASE + (n % HTTP_SCRIPTS) as u16)
            } else {
                v4([127, 0, 1, 5], SCRIPT_PORT_BASE + (n % HTTP_SCRIPTS) as u16)
            }
        }
        Outcome::UpSocks5(n) => {
            if named {
                Dest::name("up-socks5.test", SCRIPT_PORT_BASE + (n % S5_SCRIPTS) as u16)
            } else {
                v4([127, 0, 1, 6], SCRIPT_PORT_BASE + (n % S5_SCRIPTS) as u16)
            }
        }
        Outcome::UpSocks4(n) => {
            if named {
                Dest::name("up-socks4.test", SCRIPT_PORT_BASE + (n % S4_SCRIPTS) as u16)
            } else {
                v4([127, 0, 1, 7], SCRIPT_PORT_BASE + (n % S4_SCRIPTS) as u16)
            }
        }
        Outcome::FeatureUnsupported | Outcome::BadCommand(_) => v4([127, 0, 1, 1], fx.origin.addr.port()),
    }
}

fn expect_success(c: &Case) -> bool {
    if c.proto == Proto::Socks5BadAuth {
        return false;
    }
    match c.outcome {
        Outcome::DirectReachable => true,
        Outcome::UpHttp(n) => http_script(n).1,
        Outcome::UpSocks5(n) => s5_script(n).1,
        Outcome::UpSocks4(n) => s4_script(n).1,
        _ => false,
    }
}

fn outcome_class(c: &Case) -> String {
    match c.outcome {
        Outcome::UpHttp(n) => format!("UpHttp#{}", n % HTTP_SCRIPTS),
        Outcome::UpSocks5(n) => format!("UpSocks5#{}", n % S5_SCRIPTS),
        Outcome::UpSocks4(n) => format!("UpSocks4#{}", n % S4_SCRIPTS),
        Outcome::BadCommand(n) => format!("BadCommand#{}", n % 2),
        o => format!("{:?}", o),
    }
}

/// Is the raw failure reply one complete well-formed message of the client's protocol?
fn judge_failure_reply(proto: Proto, raw: &[u8], after: &[u8], end: &str) -> Result<(), String> {
    let all: Vec<u8> = [raw, after].concat();
    match proto {
        Proto::Http => {
            let head = rc::parse_http_head(&all, true).ok_or_else(|| format!("not an HTTP response head: {:?}", String::from_utf8_lossy(&all[..all.len().min(80)])))?;
            let code: u16 = String::from_utf8_lossy(&head.start.1).parse().unwrap_or(0);
            if !(400..600).contains(&code) {
                return Err(format!("status {} is not a failure status", code));
            }
            let body = &all[head.consumed..];
            if let Some(cl) = head.header("content-length") {
                let n: usize = String::from_utf8_lossy(cl).trim().parse().map_err(|_| "bad Content-Length".to_string())?;
                if body.len() != n {
                    return Err(format!("Content-Length {} but {} body bytes before the connection ended", n, body.len()));
                }
            }
            if rc::parse_http_head(body, true).is_some() {
                return Err("a second response follows the first".into());
            }
        }
        Proto::Socks4 | Proto::Socks4a => {
            if all.len() != 8 || all[0] != 0 || !(91..=93).contains(&all[1]) {
                return Err(format!("not one 8-byte SOCKS4 failure reply: {:02x?}", &all[..all.len().min(16)]));
            }
        }
        _ => {
            // SOCKS5: either a method-selection refusal (5, ff), an auth failure (1, !=0), or [auth ok] + reply with rep != 0
            let mut b = &all[..];
            if b == [5, 0xff] {
                return Ok(());
            }
            if b.len() >= 2 && b[0] == 1 {
                if b[1] != 0 && b.len() == 2 {
                    return Ok(());
                }
                b = &b[2..];
            }
            let m = rc::parse_socks5_msg(b).ok_or_else(|| format!("not a SOCKS5 reply: {:02x?}", &b[..b.len().min(24)]))?;
            if m.ver != 5 || m.code == 0 {
                return Err(format!("ver {} rep {} is not a failure reply", m.ver, m.code));
            }
            if m.consumed != b.len() {
                return Err(format!("{} extra bytes after the failure reply", b.len() - m.consumed));
            }
        }
    }
    if end != "eof" && end != "reset" {
        return Err(format!("the connection was not closed after the failure reply ({})", end));
    }
    Ok(())
}

pub async fn run_case(fx: &Fixture, c: &Case) -> Result<(bool, String), Failure> {
    let dest = target_for(fx, c);
    let class = outcome_class(c);
    let key = |what: &str| format!("{}:{:?}:{}", what, c.proto, class);
    let dur = Duration::from_secs(15);
    let port = match c.proto {
        Proto::Http => fx.http,
        Proto::Socks5 | Proto::Socks4 | Proto::Socks4a => fx.socks,
        Proto::Socks5Auth | Proto::Socks5BadAuth => fx.socks_auth,
    };
    let origin_before = fx.origin.count();
    let up_before = (fx.up_http.events.lock().unwrap().len(), fx.up_s5.events.lock().unwrap().len(), fx.up_s4.events.lock().unwrap().len());
    let payload = vcore::payload(c.tag as u64, 64 + (c.tag % 900) as usize);
    let early: &[u8] = if c.behave == Behave::Pipelines { &payload } else { &[] };
    let gmode = match c.outcome {
        Outcome::UpSocks5(n) if n % S5_SCRIPTS == 3 => 3,
        Outcome::UpSocks5(n) if n % S5_SCRIPTS == 5 => 5,
        _ => 0,
    };
    fx.up_s5.greeting_mode.store(gmode, std::sync::atomic::Ordering::SeqCst);
    let mut s = TcpStream::connect(lo(port)).await.map_err(|e| Failure::new("harness-connect", e.to_string()))?;
    let cmd: u8 = match c.outcome {
        Outcome::FeatureUnsupported => 3,
        Outcome::BadCommand(n) => {
            if n % 2 == 0 {
                2
            } else {
                9
            }
        }
        _ => 1,
    };
    let t_send = Instant::now();
    let reply = match c.proto {
        Proto::Http => {
            if matches!(c.outcome, Outcome::BadCommand(_)) {
                // not CONNECT
                let msg = format!("GET http://{}/ HTTP/1.1\r\nHost: {}\r\n\r\n", dest.render(), dest.render());
                let _ = s.write_all(msg.as_bytes()).await;
                let mut buf = vec![];
                match read_until(&mut s, &mut buf, |b| rc::parse_http_head(b, true).map(|h| h.consumed), dur).await {
                    Ok(_) => {
                        let head = rc::parse_http_head(&buf, true).unwrap();
                        let code: u16 = String::from_utf8_lossy(&head.start.1).parse().unwrap_or(0);
                        if code == 200 {
                            Reply::Ok { leftover: vec![] }
                        } else {
                            Reply::Refused { code, raw: buf }
                        }
                    }
                    Err(why) => Reply::Broken { got: buf, why },
                }
            } else if c.outcome == Outcome::FeatureUnsupported {
                http_connect(&mut s, &dest.authority(), &[(b"Proxy-Protocol".to_vec(), b"udp".to_vec())], early, dur).await
            } else {
                http_connect(&mut s, &dest.authority(), &[], early, dur).await
            }
        }
        Proto::Socks5 => socks5_connect(&mut s, &dest, None, cmd, early, dur).await,
        Proto::Socks5Auth => socks5_connect(&mut s, &dest, Some((b"alice", b"secret")), cmd, early, dur).await,
        Proto::Socks5BadAuth => socks5_connect(&mut s, &dest, Some((b"alice", b"wrong")), cmd, early, dur).await,
        Proto::Socks4 | Proto::Socks4a => socks4_connect(&mut s, &dest, b"id", cmd, early, dur).await,
    };
    let t_reply = Instant::now();
    if c.behave == Behave::HalfCloses {
        let _ = s.shutdown().await;
    }
    let want_ok = expect_success(c);
    match reply {
        Reply::Ok { leftover } => {
            if !want_ok {
                // consume to learn what else arrives
                let (rest, _) = read_to_end_within(&mut s, Duration::from_millis(300)).await;
                return Err(Failure::new(
                    key("success-without-upstream"),
                    format!("the client was told 'established' but the upstream path was not ({} more bytes followed)", rest.len()),
                ));
            }
            // (1) after the upstream event
            let upstream_at: Option<Instant> = match c.outcome {
                Outcome::DirectReachable => {
                    // wait briefly for the accept to be recorded
                    let mut t = None;
                    for _ in 0..100 {
                        let g = fx.origin.conns.lock().await;
                        if g.len() > origin_before {
                            t = g[origin_before].accepted_at;
                            break;
                        }
                        drop(g);
                        tokio::time::sleep(Duration::from_millis(10)).await;
                    }
                    t
                }
                Outcome::UpHttp(_) => fx.up_http.events.lock().unwrap().get(up_before.0).map(|e| e.1),
                Outcome::UpSocks5(_) => fx.up_s5.events.lock().unwrap().get(up_before.1).map(|e| e.1),
                Outcome::UpSocks4(_) => fx.up_s4.events.lock().unwrap().get(up_before.2).map(|e| e.1),
                _ => None,
            };
            match upstream_at {
                None => return Err(Failure::new(key("success-without-upstream"), "success reply but no upstream connection / grant was observed".to_string())),
                Some(t) => {
                    // the origin's accept() may be noticed by the harness slightly after the kernel completed the handshake;
                    // the upstream's own reply timestamp is taken before the proxy can have read it
                    if !matches!(c.outcome, Outcome::DirectReachable) && t > t_reply {
                        return Err(Failure::new(key("success-before-upstream"), format!("success reply received {:?} before the upstream granted", t - t_reply)));
                    }
                }
            }
            // the tunnel works: echo round trip of the payload (pipelined or sent now), exactly once
            let mut got = leftover;
            if c.behave != Behave::Pipelines && c.behave != Behave::HalfCloses {
                let _ = s.write_all(&payload).await;
            }
            if c.behave != Behave::HalfCloses {
                let closes_early = matches!(c.outcome, Outcome::UpHttp(n) if http_script(n).2);
                if !closes_early {
                    let need = payload.len();
                    let _ = read_until(&mut s, &mut got, |b| if b.len() >= need { Some(need) } else { None }, Duration::from_secs(10)).await;
                    if got != payload {
                        return Err(Failure::new(
                            key("tunnel-bytes"),
                            format!("echo through the established tunnel returned {} bytes, sent {} (first 16: {:02x?})", got.len(), payload.len(), &got[..got.len().min(16)]),
                        ));
                    }
                }
            }
            let _ = s.shutdown().await;
            let (rest, _) = read_to_end_within(&mut s, Duration::from_secs(5)).await;
            // (3) no failure reply after a success
            if c.proto == Proto::Http && rc::parse_http_head(&rest, true).is_some() {
                return Err(Failure::new(key("success-then-failure"), "an HTTP response head followed the 200".to_string()));
            }
            Ok((true, class))
        }
        Reply::Refused { code, raw } => {
            let (after, end) = read_to_end_within(&mut s, Duration::from_secs(10)).await;
            if want_ok {
                return Err(Failure::new(
                    key("failure-although-upstream-ok"),
                    format!("the upstream path is fine but the client got failure code {} ({:?})", code, String::from_utf8_lossy(&raw[..raw.len().min(60)])),
                ));
            }
            if let Err(why) = judge_failure_reply(c.proto, &raw, &after, end) {
                let k = if why.contains("Content-Length") { "failure-reply-body" } else if why.contains("not closed") { "failure-not-closed" } else { "failure-reply-malformed" };
                return Err(Failure::new(key(k), why));
            }
            // (4) nothing reached the origin
            tokio::time::sleep(Duration::from_millis(30)).await;
            if matches!(c.outcome, Outcome::Deny | Outcome::NoRule | Outcome::FeatureUnsupported | Outcome::BadCommand(_)) || c.proto == Proto::Socks5BadAuth {
                if fx.origin.count() != origin_before {
                    return Err(Failure::new(key("origin-contacted-on-refusal"), "the origin accepted a connection for a refused request".to_string()));
                }
            }
            let _ = t_send;
            Ok((false, class))
        }
        Reply::Broken { got, why } => {
            if want_ok {
                return Err(Failure::new(key("no-reply-although-upstream-ok"), format!("no complete reply ({}), got {} bytes", why, got.len())));
            }
            Err(Failure::new(
                key("no-failure-reply"),
                format!("the request failed but the client received no complete failure reply ({}; {} bytes: {:02x?})", why, got.len(), &got[..got.len().min(24)]),
            ))
        }
    }
}

pub fn all_cases(tier: Tier, seed: u64) -> Vec<Case> {
    let protos = [Proto::Http, Proto::Socks5, Proto::Socks5Auth, Proto::Socks5BadAuth, Proto::Socks4, Proto::Socks4a];
    let mut outcomes = vec![Outcome::DirectReachable, Outcome::DirectRefused, Outcome::Deny, Outcome::NoRule, Outcome::FeatureUnsupported, Outcome::BadCommand(0), Outcome::BadCommand(1)];
    for n in 0..HTTP_SCRIPTS {
        outcomes.push(Outcome::UpHttp(n));
    }
    for n in 0..S5_SCRIPTS {
        outcomes.push(Outcome::UpSocks5(n));
    }
    for n in 0..S4_SCRIPTS {
        outcomes.push(Outcome::UpSocks4(n));
    }
    let mut v = vec![];
    let mut k = seed as u32;
    let reps = if tier == Tier::Quick { 1 } else { 6 };
    for _ in 0..reps {
        for p in protos {
            for o in &outcomes {
                // protocol restrictions
                if matches!(p, Proto::Socks4a) && matches!(o, Outcome::DirectReachable | Outcome::DirectRefused | Outcome::Deny | Outcome::NoRule | Outcome::FeatureUnsupported | Outcome::BadCommand(_)) {
                    continue; // 4a carries a name; names are only routed to upstream proxies here (no DNS in the sandbox)
                }
                if matches!(p, Proto::Socks4 | Proto::Socks4a) && matches!(o, Outcome::FeatureUnsupported) {
                    continue; // no UDP in SOCKS4
                }
                if matches!(p, Proto::Socks4 | Proto::Socks4a) && matches!(o, Outcome::BadCommand(1)) {
                    continue;
                }
                for b in [Behave::Waits, Behave::Pipelines, Behave::HalfCloses] {
                    if b == Behave::HalfCloses && k % 3 != 0 {
                        k = k.wrapping_mul(1664525).wrapping_add(1013904223);
                        continue;
                    }
                    k = k.wrapping_mul(1664525).wrapping_add(1013904223);
                    v.push(Case { proto: p, outcome: *o, behave: b, tag: k });
                }
            }
        }
    }
    v
}

pub struct GridCheck;
impl SubCheck for GridCheck {
    fn property(&self) -> &'static str {
        "C06"
    }
    fn name(&self) -> &'static str {
        "replies"
    }
    fn rule(&self) -> String {
        "enumerated grid against one real proxy process: client protocol {HTTP CONNECT, SOCKS5, SOCKS5+userpass good/bad, SOCKS4, SOCKS4a} x outcome {direct reachable, direct refused, deny, no rule, UDP to a TCP-only load balancer, BIND / unknown command / non-CONNECT, fake upstream HTTP proxy x 11 reply scripts (200 variants incl. empty reason / HTTP/1.0 / extra headers, 403+body, 407, 502, 302, close, garbage, 200-then-close), fake SOCKS5 upstream x 16 scripts (bound address of each ATYP, no acceptable method, close, garbage, rep 1..9), fake SOCKS4 upstream x 6 scripts (90..93, close, truncated)} x client behaviour {waits, pipelines payload behind the handshake, half-closes right after it}; oracle: success reply iff the upstream path was established and not before the upstream's grant, then an exact echo round trip; otherwise exactly one complete failure reply of the client's protocol (HTTP: status line, headers, exactly Content-Length body bytes), then EOF, never both, and no origin connection on refusal; non-trivial = every case except plain allow+reachable".into()
    }
    fn run(&self, part: &mut Part) {
        let cases = all_cases(part.tier, part.seed);
        let rt = tokio::runtime::Builder::new_multi_thread().worker_threads(4).enable_all().build().unwrap();
        let results: Result<Vec<(Case, Result<(bool, String), Failure>)>, String> = rt.block_on(async {
            let fx = fixture().await?;
            let mut out = vec![];
            for c in cases {
                let r = run_case(&fx, &c).await;
                out.push((c, r));
            }
            let mut fx = fx;
            if !fx.proxy.alive() {
                return Err(format!("the proxy died during the grid: {}", fx.proxy.log_tail(10)));
            }
            Ok(out)
        });
        let results = match results {
            Ok(r) => r,
            Err(e) => {
                part.note(format!("fixture problem: {}", e));
                part.extra.insert("infrastructure_error".into(), json!(e));
                return;
            }
        };
        for (c, r) in results {
            let mut info = CaseInfo::default();
            info.nontrivial = !(c.outcome == Outcome::DirectReachable && c.behave == Behave::Waits);
            info.class(format!("{:?}", c.proto));
            match &r {
                Ok((ok, class)) => {
                    info.class(if *ok { "established" } else { "refused-cleanly" });
                    info.class(class.clone());
                }
                Err(_) => {}
            }
            if part.samples.len() < 4 {
                info.sample = Some(json!({"proto": format!("{:?}", c.proto), "outcome": outcome_class(&c), "behave": format!("{:?}", c.behave), "result": r.as_ref().map(|x| x.0).ok()}));
            }
            part.account(vcore::digest_json(&c), info);
            if let Err(f) = r {
                part.record_failure(f, serde_json::to_value(&c).unwrap());
            }
        }
        part.exhaustive = true;
    }
    fn replay(&self, case: &serde_json::Value) -> Result<(), Failure> {
        let c: Case = serde_json::from_value(case.clone()).map_err(|e| Failure::new("replay-decode", e.to_string()))?;
        let rt = tokio::runtime::Builder::new_multi_thread().worker_threads(2).enable_all().build().unwrap();
        rt.block_on(async {
            let fx = fixture().await.map_err(|e| Failure::new("fixture", e))?;
            run_case(&fx, &c).await.map(|_| ())
        })
    }
}

pub fn checks() -> Vec<Box<dyn SubCheck>> {
    let _ = (any::<u8>(),);
    vec![Box::new(GridCheck)]
}
