//! C05(b) — hostile peers against the real process: every listener, the UDP ports, QUIC streams and
//! datagrams, and the reply path of every connector; then the proxy must still serve.
use crate::net::*;
use crate::tlsutil::*;
use crate::world::*;
use proptest::prelude::*;
use serde::{Deserialize, Serialize};
use serde_json::json;
use std::sync::Arc;
use std::time::Duration;
use tokio::io::{AsyncReadExt, AsyncWriteExt};
use tokio::net::{TcpListener, TcpStream, UdpSocket};
use vcore::refcodec as rc;
use vcore::refcodec::{Dest, Host};
use vcore::{CaseInfo, Failure, Part, SubCheck};

#[derive(Clone, Debug, Serialize, Deserialize)]
pub struct Msg {
    pub base: u8,
    /// (kind, position, value)
    pub muts: Vec<(u8, u16, u8)>,
}

#[derive(Clone, Debug, Serialize, Deserialize)]
pub enum Attack {
    /// bytes to a TCP listener (0 http, 1 socks, 2 reverse-tcp), optionally cut and reset
    Stream { to: u8, msg: Msg, rst: bool },
    /// a QUIC connection, bytes on a bidirectional stream
    QuicStream { msg: Msg },
    /// SOCKS5 UDP ASSOCIATE, then datagrams to the relay port
    SocksUdp { grams: Vec<Msg> },
    /// datagrams to the reverse-UDP listener
    RevUdp { grams: Vec<Msg> },
    /// raw UDP datagrams to the QUIC listener's port
    QuicRaw { grams: Vec<Msg> },
    /// a QUIC connection, optionally with an open UDP session, then QUIC datagrams
    QuicDatagram { session: bool, grams: Vec<Msg> },
    /// a request routed to connector `via` (0 http, 1 socks5, 2 socks4, 3 quic) whose upstream answers with these bytes
    Upstream { via: u8, msg: Msg, close: bool, udp: bool },
}

#[derive(Clone, Debug, Serialize, Deserialize)]
pub struct Case {
    pub attacks: Vec<Attack>,
}

const NBASE: u8 = 22;

fn dests(k: u8) -> Dest {
    match k % 5 {
        0 => Dest { host: Host::V4([127, 0, 0, 1]), port: 9 },
        1 => Dest::name("localhost", 9),
        2 => Dest { host: Host::V6([0, 0, 0, 0, 0, 0, 0, 0, 0, 0, 0, 0, 0, 0, 0, 1]), port: 9 },
        3 => Dest { host: Host::Name(vec![b'a'; 255]), port: 65535 },
        _ => Dest::name("", 0),
    }
}

/// valid messages of every protocol the proxy reads from a peer; mutations start from these
fn base(k: u8) -> Vec<u8> {
    let d = dests(k / NBASE);
    let s5 = |cmd: u8, d: &Dest| {
        let mut v = rc::encode_socks5_greeting(&[0]);
        v.extend(rc::encode_socks5_request(cmd, d).unwrap_or_default());
        v
    };
    match k % NBASE {
        0 => rc::encode_connect(&d.authority(), &[(b"Host".to_vec(), d.authority())]),
        1 => rc::encode_connect(&d.authority(), &[(b"Proxy-Protocol".to_vec(), b"udp".to_vec()), (b"Proxy-Channel".to_vec(), b"inline".to_vec())]),
        2 => s5(1, &d),
        3 => s5(3, &d),
        4 => s5(2, &d),
        5 => {
            let mut v = rc::encode_socks5_greeting(&[2]);
            v.extend(rc::encode_socks5_userpass(b"user", b"pass"));
            v.extend(rc::encode_socks5_request(1, &d).unwrap_or_default());
            v
        }
        6 => rc::encode_socks4(1, &d, b"me").unwrap_or_else(|| vec![4, 1, 0, 9, 0, 0, 0, 1, 0, b'x', 0]),
        7 => rc::encode_socks4(2, &Dest::name("example.com", 80), b"").unwrap_or_default(),
        8 => rc::encode_rpfm(&rc::Rpfm { session: 1, addr: Some(d), body: b"hello".to_vec() }).unwrap_or_default(),
        9 => rc::encode_rpfm(&rc::Rpfm { session: 0, addr: None, body: vec![7; 300] }).unwrap_or_default(),
        10 => rc::encode_socks5_udp(&d, b"payload").unwrap_or_default(),
        11 => rc::encode_socks5_udp(&d, &vec![1; 1400]).unwrap_or_default(),
        12 => rc::encode_response(200, b"OK", &[(b"Session-Id".to_vec(), b"7".to_vec())]),
        13 => rc::encode_response(200, b"", &[(b"Session-Id".to_vec(), b"-1".to_vec())]),
        14 => rc::encode_response(503, b"no", &[(b"Content-Length".to_vec(), b"99999".to_vec())]),
        15 => {
            let mut v = vec![5, 0];
            v.extend(rc::encode_socks5_reply(0, &d).unwrap_or_default());
            v
        }
        16 => {
            let mut v = vec![5, 2, 1, 0];
            v.extend(rc::encode_socks5_reply(5, &d).unwrap_or_default());
            v
        }
        17 => rc::encode_socks4_reply(90, 9, [1, 2, 3, 4]),
        18 => {
            // one fragment of a frame
            let f = rc::encode_rpfm(&rc::Rpfm { session: 1, addr: Some(d), body: vec![3; 50] }).unwrap_or_default();
            rc::split_fragments(7, 1200, &f).and_then(|v| v.into_iter().next()).unwrap_or_default()
        }
        19 => {
            let f = rc::encode_rpfm(&rc::Rpfm { session: 1, addr: Some(d), body: vec![3; 3000] }).unwrap_or_default();
            rc::split_fragments(9, 1200, &f).and_then(|v| v.into_iter().nth(1)).unwrap_or_default()
        }
        20 => b"GET / HTTP/1.1\r\nHost: x\r\n\r\n".to_vec(),
        _ => vec![],
    }
}

pub fn render(m: &Msg) -> Vec<u8> {
    let mut v = base(m.base);
    for (kind, pos, val) in &m.muts {
        let len = v.len();
        let at = if len == 0 { 0 } else { (*pos as usize * len) >> 16 };
        match kind % 8 {
            0 => {
                if at < len {
                    v[at] ^= 1 << (val % 8);
                }
            }
            1 => v.truncate(at),
            2 => {
                if at < len {
                    v[at] = *val;
                }
            }
            3 => {
                let ins = vec![*val; 1 + (*val as usize % 7)];
                v.splice(at..at, ins);
            }
            4 => {
                if at < len {
                    v[at] = [0u8, 0xff, 0x7f, 0x80][*val as usize % 4];
                }
            }
            5 => {
                let dup = v[at.min(len)..].to_vec();
                v.extend(dup);
            }
            6 => {
                // big-endian 16-bit field perturbation
                if at + 1 < len {
                    let x = u16::from_be_bytes([v[at], v[at + 1]]).wrapping_add(*val as u16).wrapping_sub(128);
                    v[at..at + 2].copy_from_slice(&x.to_be_bytes());
                }
            }
            _ => {
                let n = 1 + *val as usize * 8;
                v.extend(std::iter::repeat(*val).take(n));
            }
        }
    }
    v
}

fn msg_strategy() -> impl Strategy<Value = Msg> {
    (any::<u8>(), prop::collection::vec((any::<u8>(), any::<u16>(), any::<u8>()), 0..4)).prop_map(|(base, muts)| Msg { base, muts })
}

pub fn case_strategy() -> impl Strategy<Value = Case> {
    let grams = || prop::collection::vec(msg_strategy(), 1..6);
    let attack = prop_oneof![
        5 => (0u8..3, msg_strategy(), any::<bool>()).prop_map(|(to, msg, rst)| Attack::Stream { to, msg, rst }),
        2 => msg_strategy().prop_map(|msg| Attack::QuicStream { msg }),
        2 => grams().prop_map(|grams| Attack::SocksUdp { grams }),
        1 => grams().prop_map(|grams| Attack::RevUdp { grams }),
        1 => grams().prop_map(|grams| Attack::QuicRaw { grams }),
        3 => (any::<bool>(), grams()).prop_map(|(session, grams)| Attack::QuicDatagram { session, grams }),
        4 => (0u8..4, msg_strategy(), any::<bool>(), any::<bool>()).prop_map(|(via, msg, close, udp)| Attack::Upstream { via, msg, close, udp }),
    ];
    prop::collection::vec(attack, 6..18).prop_map(|attacks| Case { attacks })
}

struct Fx {
    proxy: Proxy,
    http: u16,
    socks: u16,
    revtcp: u16,
    revudp: u16,
    quic: u16,
    api: u16,
    echo: Origin,
    /// what the fake upstreams answer next
    script: Arc<std::sync::Mutex<(Vec<u8>, bool)>>,
    _tasks: Vec<tokio::task::JoinHandle<()>>,
    _qep: quinn::Endpoint,
}

impl Drop for Fx {
    fn drop(&mut self) {
        for t in &self._tasks {
            t.abort();
        }
    }
}

async fn fixture() -> Result<Fx, String> {
    let echo = Origin::start("127.0.0.1:0".parse().unwrap(), echo_script()).await.map_err(|e| e.to_string())?;
    let script: Arc<std::sync::Mutex<(Vec<u8>, bool)>> = Arc::new(std::sync::Mutex::new((vec![], true)));
    let mut tasks = vec![];
    // fake TCP upstream: reads a little, answers with the script, closes or lingers
    let l = TcpListener::bind("127.0.0.1:0").await.map_err(|e| e.to_string())?;
    let up = l.local_addr().unwrap().port();
    let sc = script.clone();
    tasks.push(tokio::spawn(async move {
        loop {
            let (mut s, _) = match l.accept().await {
                Ok(x) => x,
                Err(_) => return,
            };
            let (bytes, close) = sc.lock().unwrap().clone();
            tokio::spawn(async move {
                let mut b = [0u8; 512];
                let _ = tokio::time::timeout(Duration::from_millis(100), s.read(&mut b)).await;
                let _ = s.write_all(&bytes).await;
                if !close {
                    let _ = tokio::time::timeout(Duration::from_millis(300), s.read(&mut b)).await;
                }
            });
        }
    }));
    // fake QUIC upstream: answers the script on every stream and echoes the script as datagrams
    let (qep, qup) = quic_server("server");
    let sc = script.clone();
    let qep2 = qep.clone();
    tasks.push(tokio::spawn(async move {
        while let Some(c) = qep2.accept().await {
            let sc = sc.clone();
            tokio::spawn(async move {
                if let Ok(conn) = c.await {
                    while let Ok((mut w, mut r)) = conn.accept_bi().await {
                        let (bytes, _) = sc.lock().unwrap().clone();
                        let mut b = [0u8; 512];
                        let _ = tokio::time::timeout(Duration::from_millis(100), r.read(&mut b)).await;
                        let _ = w.write_all(&bytes).await;
                        let _ = w.finish().await;
                        for chunk in bytes.chunks(900) {
                            let _ = conn.send_datagram(chunk.to_vec().into());
                        }
                    }
                }
            });
        }
    }));
    let udp_echo = UdpSocket::bind("127.0.0.1:0").await.map_err(|e| e.to_string())?;
    let udp_port = udp_echo.local_addr().unwrap().port();
    tasks.push(tokio::spawn(async move {
        let mut b = vec![0u8; 65536];
        while let Ok((n, from)) = udp_echo.recv_from(&mut b).await {
            let _ = udp_echo.send_to(&b[..n], from).await;
        }
    }));
    let (http, socks, revtcp, revudp, quic, api) = (free_port(), free_port(), free_port(), free_port(), free_port(), free_port());
    let yaml = format!(
        r#"apiVersion: v1
kind: t
listeners:
  - name: http
    bind: 127.0.0.1:{http}
  - name: socks
    bind: 127.0.0.1:{socks}
    allowUdp: true
  - name: revtcp
    type: reverse
    bind: 127.0.0.1:{revtcp}
    target: 127.0.0.1:{echo}
  - name: revudp
    type: reverse
    protocol: udp
    bind: 127.0.0.1:{revudp}
    target: 127.0.0.1:{udp}
  - name: quic
    bind: 127.0.0.1:{quic}
    tls:
      cert: /verif/pki/server.crt
      key: /verif/pki/server.key
connectors:
  - name: direct
  - name: uphttp
    type: http
    server: 127.0.0.1
    port: {up}
  - name: upsocks
    type: socks
    server: 127.0.0.1
    port: {up}
  - name: upsocks4
    type: socks
    version: 4
    server: 127.0.0.1
    port: {up}
  - name: upquic
    type: quic
    server: localhost
    port: {qup}
    bind: "127.0.0.1:0"
    tls:
      ca: /verif/pki/ca.crt
rules:
  - filter: request.target.port == 1
    target: uphttp
  - filter: request.target.port == 2
    target: upsocks
  - filter: request.target.port == 3
    target: upsocks4
  - filter: request.target.port == 4
    target: upquic
  - target: direct
metrics:
  bind: 127.0.0.1:{api}
timeouts:
  idle: 2
  udp: 2
"#,
        http = http,
        socks = socks,
        revtcp = revtcp,
        revudp = revudp,
        quic = quic,
        api = api,
        up = up,
        qup = qup,
        echo = echo.addr.port(),
        udp = udp_port
    );
    let proxy = tokio::task::spawn_blocking(move || Proxy::start("c05b", &yaml, &[http, socks, revtcp, api], Some(api))).await.map_err(|e| e.to_string())??;
    Ok(Fx { proxy, http, socks, revtcp, revudp, quic, api, echo, script, _tasks: tasks, _qep: qep })
}

async fn quic_conn(port: u16) -> Option<quinn::Connection> {
    let ep = quic_client("ca.crt", None);
    let c = ep.connect(lo(port), "localhost").ok()?;
    tokio::time::timeout(Duration::from_secs(3), c).await.ok()?.ok()
}

async fn attack(fx: &Fx, a: &Attack) -> String {
    let short = Duration::from_millis(150);
    match a {
        Attack::Stream { to, msg, rst } => {
            let port = [fx.http, fx.socks, fx.revtcp][*to as usize % 3];
            let bytes = render(msg);
            if let Ok(mut s) = TcpStream::connect(lo(port)).await {
                let _ = s.write_all(&bytes).await;
                let mut b = [0u8; 2048];
                let _ = tokio::time::timeout(short, s.read(&mut b)).await;
                if *rst {
                    let _ = s.set_linger(Some(Duration::ZERO));
                }
            }
            format!("stream->{}:{}B", ["http", "socks", "reverse"][*to as usize % 3], bytes.len())
        }
        Attack::QuicStream { msg } => {
            let bytes = render(msg);
            if let Some(conn) = quic_conn(fx.quic).await {
                if let Ok(Ok((mut w, mut r))) = tokio::time::timeout(Duration::from_secs(2), conn.open_bi()).await {
                    let _ = w.write_all(&bytes).await;
                    let mut b = [0u8; 2048];
                    let _ = tokio::time::timeout(short, r.read(&mut b)).await;
                    let _ = w.finish().await;
                }
                conn.close(0u32.into(), b"");
            }
            format!("quic-stream:{}B", bytes.len())
        }
        Attack::SocksUdp { grams } => {
            if let Ok(mut s) = TcpStream::connect(lo(fx.socks)).await {
                let any = Dest { host: Host::V4([0, 0, 0, 0]), port: 0 };
                let mut req = rc::encode_socks5_greeting(&[0]);
                req.extend(rc::encode_socks5_request(3, &any).unwrap());
                let _ = s.write_all(&req).await;
                let mut b = [0u8; 64];
                let mut got = vec![];
                while got.len() < 12 {
                    match tokio::time::timeout(Duration::from_secs(2), s.read(&mut b)).await {
                        Ok(Ok(n)) if n > 0 => got.extend_from_slice(&b[..n]),
                        _ => break,
                    }
                }
                if got.len() >= 12 && got[3] == 0 {
                    let port = u16::from_be_bytes([got[10], got[11]]);
                    if let Ok(u) = UdpSocket::bind("127.0.0.1:0").await {
                        for g in grams {
                            let _ = u.send_to(&render(g), lo(port)).await;
                        }
                        let mut b = [0u8; 2048];
                        let _ = tokio::time::timeout(short, u.recv_from(&mut b)).await;
                    }
                }
            }
            format!("socks-udp:{} datagrams", grams.len())
        }
        Attack::RevUdp { grams } | Attack::QuicRaw { grams } => {
            let port = if matches!(a, Attack::RevUdp { .. }) { fx.revudp } else { fx.quic };
            if let Ok(u) = UdpSocket::bind("127.0.0.1:0").await {
                for g in grams {
                    let _ = u.send_to(&render(g), lo(port)).await;
                }
                let mut b = [0u8; 2048];
                let _ = tokio::time::timeout(Duration::from_millis(50), u.recv_from(&mut b)).await;
            }
            format!("{}:{} datagrams", if matches!(a, Attack::RevUdp { .. }) { "reverse-udp" } else { "quic-raw-udp" }, grams.len())
        }
        Attack::QuicDatagram { session, grams } => {
            if let Some(conn) = quic_conn(fx.quic).await {
                if *session {
                    if let Ok(Ok((mut w, mut r))) = tokio::time::timeout(Duration::from_secs(2), conn.open_bi()).await {
                        let t = format!("127.0.0.1:{}", fx.echo.addr.port()).into_bytes();
                        let req = rc::encode_connect(&t, &[(b"Host".to_vec(), t.clone()), (b"Proxy-Protocol".to_vec(), b"udp".to_vec()), (b"Proxy-Channel".to_vec(), b"quic-datagrams".to_vec())]);
                        let _ = w.write_all(&req).await;
                        let mut b = [0u8; 1024];
                        let _ = tokio::time::timeout(Duration::from_millis(500), r.read(&mut b)).await;
                        for g in grams {
                            let _ = conn.send_datagram(render(g).into());
                        }
                        tokio::time::sleep(Duration::from_millis(80)).await;
                        let _ = w.finish().await;
                    }
                } else {
                    for g in grams {
                        let _ = conn.send_datagram(render(g).into());
                    }
                    tokio::time::sleep(Duration::from_millis(50)).await;
                }
                conn.close(0u32.into(), b"");
            }
            format!("quic-datagrams(session={}):{}", session, grams.len())
        }
        Attack::Upstream { via, msg, close, udp } => {
            let bytes = render(msg);
            *fx.script.lock().unwrap() = (bytes.clone(), *close);
            let port = 1 + (*via as u16 % 4);
            if let Ok(mut s) = TcpStream::connect(lo(fx.http)).await {
                let t = format!("127.0.0.1:{}", port).into_bytes();
                if *udp {
                    // a UDP session through the connector: the upstream's reply carries the Session-Id
                    let hs = [(b"Proxy-Protocol".to_vec(), b"udp".to_vec()), (b"Proxy-Channel".to_vec(), b"inline".to_vec())];
                    let _ = http_connect(&mut s, &t, &hs, &[], Duration::from_millis(700)).await;
                    let f = rc::encode_rpfm(&rc::Rpfm { session: 0, addr: Some(Dest { host: Host::V4([127, 0, 0, 1]), port }), body: b"dgram".to_vec() }).unwrap_or_default();
                    let _ = s.write_all(&f).await;
                } else {
                    let _ = http_connect(&mut s, &t, &[], b"early", Duration::from_millis(700)).await;
                    let _ = s.write_all(b"more").await;
                }
                let mut b = [0u8; 1024];
                let _ = tokio::time::timeout(Duration::from_millis(60), s.read(&mut b)).await;
            }
            format!("upstream-reply{} via {}:{}B", if *udp { "(udp)" } else { "" }, ["http", "socks5", "socks4", "quic"][*via as usize % 4], bytes.len())
        }
    }
}

async fn alive(fx: &mut Fx) -> Result<(), String> {
    if !fx.proxy.alive() {
        return Err(format!("process-died: the proxy exited ({:?}): {}", fx.proxy.exit_status(), fx.proxy.log_tail(4)));
    }
    let origin = dest_for(fx.echo.addr);
    // a fresh tunnel through each TCP listener must work
    let mut s = TcpStream::connect(lo(fx.http)).await.map_err(|e| format!("listener-dead:http: connect {}", e))?;
    match http_connect(&mut s, &origin.authority(), &[], &[], Duration::from_secs(4)).await {
        Reply::Ok { .. } => {}
        other => return Err(format!("listener-wedged:http: a fresh CONNECT got {:?}", other)),
    }
    s.write_all(b"ping").await.map_err(|e| e.to_string())?;
    let mut b = [0u8; 4];
    tokio::time::timeout(Duration::from_secs(4), s.read_exact(&mut b)).await.map_err(|_| "relay-wedged:http: no echo within 4 s".to_string())?.map_err(|e| format!("relay-wedged:http: {}", e))?;
    let mut s = TcpStream::connect(lo(fx.socks)).await.map_err(|e| format!("listener-dead:socks: connect {}", e))?;
    match socks5_connect(&mut s, &origin, None, 1, &[], Duration::from_secs(4)).await {
        Reply::Ok { .. } => {}
        other => return Err(format!("listener-wedged:socks: a fresh SOCKS5 CONNECT got {:?}", other)),
    }
    match api(fx.api, "GET", "/api/status", None, Duration::from_secs(4)).await {
        Ok(r) if r.status == 200 => {}
        other => return Err(format!("api-wedged: GET /api/status -> {:?}", other.map(|r| r.status))),
    }
    let log = std::fs::read_to_string(&fx.proxy.log).unwrap_or_default();
    if let Some(l) = log.lines().find(|l| l.contains("panicked at")) {
        return Err(format!("task-panicked: {}", l.chars().take(200).collect::<String>()));
    }
    Ok(())
}

async fn quic_alive(fx: &Fx) -> Result<(), String> {
    let conn = quic_conn(fx.quic).await.ok_or("listener-dead:quic: no QUIC handshake within 3 s")?;
    let (mut w, mut r) = tokio::time::timeout(Duration::from_secs(3), conn.open_bi()).await.map_err(|_| "listener-wedged:quic: open_bi".to_string())?.map_err(|e| e.to_string())?;
    let t = dest_for(fx.echo.addr).authority();
    w.write_all(&rc::encode_connect(&t, &[(b"Host".to_vec(), t.clone())])).await.map_err(|e| e.to_string())?;
    let mut buf = vec![];
    let mut b = [0u8; 512];
    loop {
        if rc::parse_http_head(&buf, true).is_some() {
            break;
        }
        match tokio::time::timeout(Duration::from_secs(4), r.read(&mut b)).await {
            Ok(Ok(Some(n))) if n > 0 => buf.extend_from_slice(&b[..n]),
            _ => return Err(format!("listener-wedged:quic: no reply to a fresh CONNECT ({} bytes read)", buf.len())),
        }
    }
    conn.close(0u32.into(), b"");
    Ok(())
}

pub async fn run_case(c: &Case) -> Result<(bool, serde_json::Value), Failure> {
    let mut fx = fixture().await.map_err(|e| Failure::new("infrastructure", e))?;
    alive(&mut fx).await.map_err(|e| Failure::new("infrastructure", format!("before any attack: {}", e)))?;
    let mut log = vec![];
    for (i, a) in c.attacks.iter().enumerate() {
        let what = attack(&fx, a).await;
        log.push(what.clone());
        let mut verdict = alive(&mut fx).await;
        if verdict.is_ok() && (matches!(a, Attack::QuicStream { .. } | Attack::QuicDatagram { .. } | Attack::QuicRaw { .. }) || i + 1 == c.attacks.len()) {
            verdict = quic_alive(&fx).await;
        }
        if let Err(e) = verdict {
            let key = e.split(':').take(2).collect::<Vec<_>>().join(":");
            return Err(Failure::new(
                format!("{}:after:{}", key.trim(), what.split(':').next().unwrap_or("")),
                format!("after attack #{} ({}) {:?}: {} — attacks so far: {:?}", i, what, a_short(a), e, log),
            ));
        }
    }
    Ok((true, json!({"attacks": log})))
}

fn a_short(a: &Attack) -> String {
    let s = format!("{:?}", a);
    s.chars().take(300).collect()
}

pub struct Hostile;
impl SubCheck for Hostile {
    fn property(&self) -> &'static str {
        "C05"
    }
    fn name(&self) -> &'static str {
        "hostile-sessions"
    }
    fn rule(&self) -> String {
        "sequences of 6-17 hostile sessions against one real proxy (listeners http, socks with UDP, reverse tcp, reverse udp, quic; connectors direct, http, socks5, socks4, quic pointing at harness upstreams): bytes to each TCP listener, bytes on a QUIC stream, datagrams to the SOCKS5 UDP relay port after a real ASSOCIATE, to the reverse-UDP port, raw UDP to the QUIC port, QUIC datagrams with and without an open UDP session, and upstream replies for every connector kind to TCP and UDP requests (TCP and QUIC streams + datagrams); every byte string is one of 22 valid messages (CONNECT tcp/udp, SOCKS5 connect/associate/bind/userpass, SOCKS4/4a, RPFM frames, SOCKS5-UDP datagrams, HTTP responses incl. Session-Id, SOCKS replies, first / middle fragment of a fragmented frame, GET, empty) x 5 destinations under 0-3 mutations (bit flip, truncate, overwrite, insert, boundary byte, duplicate tail, 16-bit field +-128, append up to 2 KB), optionally ended by RST; oracle after every session: the process is running, a fresh HTTP CONNECT and a fresh SOCKS5 CONNECT reach an echo origin and relay within 4 s, GET /api/status answers 200, no task has panicked, and (after QUIC attacks and at the end) a fresh QUIC CONNECT is answered; non-trivial = every sequence".into()
    }
    fn run(&self, part: &mut Part) {
        let n = part.tier.pick(48, 1600) as usize;
        let cases = part.draw("hostile", n, &case_strategy());
        let rt = tokio::runtime::Builder::new_multi_thread().worker_threads(8).enable_all().build().unwrap();
        let results: Vec<(Case, Result<(bool, serde_json::Value), Failure>)> = rt.block_on(async {
            let mut out = vec![];
            for chunk in cases.chunks(8) {
                let hs: Vec<_> = chunk
                    .iter()
                    .cloned()
                    .map(|c| {
                        tokio::spawn(async move {
                            let mut r = run_case(&c).await;
                            // minimise: does the last attack alone do it?
                            let mut c = c;
                            if let Err(f) = &r {
                                if f.key != "infrastructure" {
                                    if let Some(idx) = f.desc.strip_prefix("after attack #").and_then(|s| s.split(' ').next()).and_then(|s| s.parse::<usize>().ok()) {
                                        let single = Case { attacks: vec![c.attacks[idx].clone()] };
                                        if let Err(f2) = run_case(&single).await {
                                            if f2.key != "infrastructure" {
                                                c = single;
                                                r = Err(f2);
                                            }
                                        }
                                    }
                                }
                            }
                            (c, r)
                        })
                    })
                    .collect();
                for h in hs {
                    if let Ok(x) = h.await {
                        out.push(x);
                    }
                }
            }
            out
        });
        for (c, r) in results {
            let mut info = CaseInfo::default();
            for a in &c.attacks {
                info.class(match a {
                    Attack::Stream { to, .. } => ["stream:http", "stream:socks", "stream:reverse"][*to as usize % 3],
                    Attack::QuicStream { .. } => "quic-stream",
                    Attack::SocksUdp { .. } => "socks-udp",
                    Attack::RevUdp { .. } => "reverse-udp",
                    Attack::QuicRaw { .. } => "quic-raw-udp",
                    Attack::QuicDatagram { .. } => "quic-datagram",
                    Attack::Upstream { via, .. } => ["upstream:http", "upstream:socks5", "upstream:socks4", "upstream:quic"][*via as usize % 4],
                });
            }
            match r {
                Ok((nt, sample)) => {
                    info.nontrivial = nt;
                    if part.samples.len() < 3 {
                        info.sample = Some(sample);
                    }
                    part.account(vcore::digest_json(&c), info);
                }
                Err(f) if f.key == "infrastructure" => {
                    info.inconclusive = true;
                    part.note(format!("infrastructure: {}", f.desc));
                    part.account(vcore::digest_json(&c), info);
                }
                Err(f) => {
                    part.account(vcore::digest_json(&c), info);
                    part.record_failure(f, serde_json::to_value(&c).unwrap());
                }
            }
        }
    }
    fn replay(&self, case: &serde_json::Value) -> Result<(), Failure> {
        let c: Case = serde_json::from_value(case.clone()).map_err(|e| Failure::new("replay-decode", e.to_string()))?;
        let rt = tokio::runtime::Builder::new_multi_thread().worker_threads(4).enable_all().build().unwrap();
        rt.block_on(async { run_case(&c).await.map(|_| ()) })
    }
}

pub fn checks() -> Vec<Box<dyn SubCheck>> {
    vec![Box::new(Hostile)]
}
