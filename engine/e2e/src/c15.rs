//! C15(a) — rule hot-reload through the API is all-or-nothing (model-based histories on a real process).
use crate::net::*;
use crate::world::*;
use proptest::prelude::*;
use serde::{Deserialize, Serialize};
use serde_json::json;
use std::time::Duration;
use tokio::io::{AsyncReadExt, AsyncWriteExt};
use tokio::net::TcpStream;
use vcore::refcodec::{Dest, Host};
use vcore::{CaseInfo, Failure, Part, SubCheck};

#[derive(Clone, Debug, PartialEq, Serialize, Deserialize)]
pub enum Atom {
    True,
    False,
    PortEq(u16),
    PortLt(u16),
    HostEq(u8),
    ListenerEq(u8),
    Not(Box<Atom>),
    And(Box<Atom>, Box<Atom>),
    Or(Box<Atom>, Box<Atom>),
}

pub const HOSTS: &[&str] = &["127.0.1.1", "127.0.1.2", "127.0.1.3"];
pub const LISTENERS: &[&str] = &["http", "socks"];
pub const PORTS: &[u16] = &[80, 443, 8080];

impl Atom {
    pub fn src(&self) -> String {
        match self {
            Atom::True => "true".into(),
            Atom::False => "false".into(),
            Atom::PortEq(p) => format!("request.target.port == {}", p),
            Atom::PortLt(p) => format!("request.target.port < {}", p),
            Atom::HostEq(h) => format!("request.target.host == \"{}\"", HOSTS[*h as usize % HOSTS.len()]),
            Atom::ListenerEq(l) => format!("request.listener == \"{}\"", LISTENERS[*l as usize % LISTENERS.len()]),
            Atom::Not(a) => format!("!({})", a.src()),
            Atom::And(a, b) => format!("({}) && ({})", a.src(), b.src()),
            Atom::Or(a, b) => format!("({}) || ({})", a.src(), b.src()),
        }
    }
    pub fn eval(&self, p: &Probe) -> bool {
        match self {
            Atom::True => true,
            Atom::False => false,
            Atom::PortEq(x) => PORTS[p.port as usize % PORTS.len()] == *x,
            Atom::PortLt(x) => PORTS[p.port as usize % PORTS.len()] < *x,
            Atom::HostEq(h) => (*h as usize % HOSTS.len()) == (p.host as usize % HOSTS.len()),
            Atom::ListenerEq(l) => (*l as usize % LISTENERS.len()) == (p.listener as usize % LISTENERS.len()),
            Atom::Not(a) => !a.eval(p),
            Atom::And(a, b) => a.eval(p) && b.eval(p),
            Atom::Or(a, b) => a.eval(p) || b.eval(p),
        }
    }
}

#[derive(Clone, Debug, PartialEq, Serialize, Deserialize)]
pub struct RuleSpec {
    /// 0 = deny, 1..=3 connector c0..c2
    pub target: u8,
    pub filter: Option<Atom>,
}

#[derive(Clone, Debug, Serialize, Deserialize)]
pub struct Probe {
    pub listener: u8,
    pub host: u8,
    pub port: u8,
}

#[derive(Clone, Debug, Serialize, Deserialize)]
pub enum Defect {
    Syntax,
    TypeNotBoolean,
    TypeMismatch,
    UnknownTarget,
    MissingTarget,
    FilterIsNumber,
    NotAList,
    NestedTooDeep,
}

#[derive(Clone, Debug, Serialize, Deserialize)]
pub enum Op {
    Post(Vec<RuleSpec>),
    PostInvalid(Vec<RuleSpec>, u8, Defect),
    Get,
    GetThenPostBack,
    Probe(Probe),
}

#[derive(Clone, Debug, Serialize, Deserialize)]
pub struct Case {
    pub ops: Vec<Op>,
}

fn atom_strategy() -> impl Strategy<Value = Atom> {
    let leaf = prop_oneof![
        Just(Atom::True),
        Just(Atom::False),
        prop_oneof![Just(80u16), Just(443), Just(8080), Just(81)].prop_map(Atom::PortEq),
        prop_oneof![Just(100u16), Just(444), Just(9000), Just(80)].prop_map(Atom::PortLt),
        (0u8..3).prop_map(Atom::HostEq),
        (0u8..2).prop_map(Atom::ListenerEq),
    ];
    leaf.prop_recursive(2, 6, 2, |inner| {
        prop_oneof![
            inner.clone().prop_map(|a| Atom::Not(Box::new(a))),
            (inner.clone(), inner.clone()).prop_map(|(a, b)| Atom::And(Box::new(a), Box::new(b))),
            (inner.clone(), inner).prop_map(|(a, b)| Atom::Or(Box::new(a), Box::new(b))),
        ]
    })
}

fn rules_strategy() -> impl Strategy<Value = Vec<RuleSpec>> {
    prop::collection::vec((0u8..4, prop::option::weighted(0.8, atom_strategy())).prop_map(|(target, filter)| RuleSpec { target, filter }), 0..5)
}

fn probe_strategy() -> impl Strategy<Value = Probe> {
    (0u8..2, 0u8..3, 0u8..3).prop_map(|(listener, host, port)| Probe { listener, host, port })
}

pub fn case_strategy() -> impl Strategy<Value = Case> {
    let defect = prop_oneof![
        Just(Defect::Syntax),
        Just(Defect::TypeNotBoolean),
        Just(Defect::TypeMismatch),
        Just(Defect::UnknownTarget),
        Just(Defect::MissingTarget),
        Just(Defect::FilterIsNumber),
        Just(Defect::NotAList),
        Just(Defect::NestedTooDeep),
    ];
    let op = prop_oneof![
        3 => rules_strategy().prop_map(Op::Post),
        3 => (rules_strategy(), any::<u8>(), defect).prop_map(|(r, pos, d)| Op::PostInvalid(r, pos, d)),
        1 => Just(Op::Get),
        1 => Just(Op::GetThenPostBack),
        5 => probe_strategy().prop_map(Op::Probe),
    ];
    prop::collection::vec(op, 3..14).prop_map(|ops| Case { ops })
}

fn rule_json(r: &RuleSpec) -> serde_json::Value {
    let t = if r.target == 0 { "deny".to_string() } else { format!("c{}", (r.target - 1) % 3) };
    match &r.filter {
        Some(f) => json!({"target": t, "filter": f.src()}),
        None => json!({"target": t}),
    }
}

fn invalid_body(rules: &[RuleSpec], pos: u8, d: &Defect) -> (serde_json::Value, bool) {
    let mut list: Vec<serde_json::Value> = rules.iter().map(rule_json).collect();
    let bad = match d {
        Defect::Syntax => json!({"target": "c0", "filter": "request.target.port =="}),
        Defect::TypeNotBoolean => json!({"target": "c0", "filter": "request.target.port + 1"}),
        Defect::TypeMismatch => json!({"target": "c0", "filter": "request.listener == 1"}),
        Defect::UnknownTarget => json!({"target": "no-such-connector", "filter": "true"}),
        Defect::MissingTarget => json!({"filter": "true"}),
        Defect::FilterIsNumber => json!({"target": "c0", "filter": 5}),
        Defect::NestedTooDeep => json!({"target": "c0", "filter": format!("{}true{}", "(".repeat(40), ")".repeat(40))}),
        Defect::NotAList => return (json!({"rules": list}), true),
    };
    let at = if list.is_empty() { 0 } else { pos as usize % (list.len() + 1) };
    list.insert(at, bad);
    (json!(list), true)
}

/// reference decision: None = refused, Some(k) = connector ck
fn decide(rules: &[RuleSpec], p: &Probe) -> Option<u8> {
    for r in rules {
        let m = r.filter.as_ref().map(|f| f.eval(p)).unwrap_or(true);
        if m {
            return if r.target == 0 { None } else { Some((r.target - 1) % 3) };
        }
    }
    None
}

impl Drop for Fx {
    fn drop(&mut self) {
        for t in &self._tasks {
            t.abort();
        }
    }
}

pub struct Fx {
    pub proxy: Proxy,
    pub http: u16,
    pub socks: u16,
    pub api: u16,
    pub origin_ports: Vec<u16>,
    _tasks: Vec<tokio::task::JoinHandle<()>>,
}

/// origin that tells the client from which local address of the proxy it was reached
async fn peer_origin() -> (u16, tokio::task::JoinHandle<()>) {
    let l = tokio::net::TcpListener::bind(("0.0.0.0", 0)).await.expect("bind origin");
    let port = l.local_addr().unwrap().port();
    let h = peer_origin_loop(l);
    (port, h)
}

fn peer_origin_loop(l: tokio::net::TcpListener) -> tokio::task::JoinHandle<()> {
    tokio::spawn(async move {
        loop {
            if let Ok((mut s, peer)) = l.accept().await {
                tokio::spawn(async move {
                    let _ = s.write_all(format!("peer={}\n", peer.ip()).as_bytes()).await;
                    let mut b = [0u8; 256];
                    while let Ok(n) = s.read(&mut b).await {
                        if n == 0 {
                            break;
                        }
                    }
                });
            }
        }
    })
}

pub async fn fixture(initial: &[RuleSpec]) -> Result<Fx, String> {
    let (http, socks, api) = (free_port(), free_port(), free_port());
    let mut tasks = vec![];
    let mut origin_ports = vec![];
    // the three probe ports (80/443/8080 stand-ins): real listening ports chosen freely, mapped below
    for _ in 0..3 {
        let (p, h) = peer_origin().await;
        tasks.push(h);
        origin_ports.push(p);
    }
    let rules_yaml: String = if initial.is_empty() {
        "rules: []\n".to_string()
    } else {
        let mut s = String::from("rules:\n");
        for r in initial {
            let j = rule_json(r);
            s.push_str(&format!("  - target: {}\n", j["target"].as_str().unwrap()));
            if let Some(f) = j.get("filter") {
                s.push_str(&format!("    filter: {}\n", serde_json::to_string(f).unwrap()));
            }
        }
        s
    };
    let yaml = format!(
        r#"apiVersion: v1
kind: test
listeners:
  - name: http
    bind: 127.0.0.1:{http}
  - name: socks
    bind: 127.0.0.1:{socks}
connectors:
  - name: c0
    type: direct
    bind: 127.0.2.1
  - name: c1
    type: direct
    bind: 127.0.2.2
  - name: c2
    type: direct
    bind: 127.0.2.3
{rules}metrics:
  bind: 127.0.0.1:{api}
  historySize: 10
ioParams:
  bufferSize: 4096
  useSplice: false
"#,
        http = http,
        socks = socks,
        api = api,
        rules = rules_yaml
    );
    let proxy = tokio::task::spawn_blocking(move || Proxy::start("c15", &yaml, &[http, socks, api], Some(api))).await.map_err(|e| e.to_string())??;
    Ok(Fx { proxy, http, socks, api, origin_ports, _tasks: tasks })
}

/// The probe ports of the model (80/443/8080) are mapped to filters through the real listening ports:
/// filters are written against the real port numbers.
fn remap(rules: &[RuleSpec], fx_ports: &[u16]) -> Vec<RuleSpec> {
    fn m(a: &Atom, ports: &[u16]) -> Atom {
        let real = |model: u16| -> u16 {
            match model {
                80 => ports[0],
                443 => ports[1],
                8080 => ports[2],
                81 => ports[0].wrapping_add(1),
                x => x,
            }
        };
        match a {
            Atom::PortEq(p) => Atom::PortEq(real(*p)),
            // "< N" thresholds are kept as "is one of the smaller ports" by rewriting to equalities
            Atom::PortLt(p) => {
                let mut acc: Option<Atom> = None;
                for (i, mp) in PORTS.iter().enumerate() {
                    if mp < p {
                        let e = Atom::PortEq(ports[i]);
                        acc = Some(match acc {
                            None => e,
                            Some(x) => Atom::Or(Box::new(x), Box::new(e)),
                        });
                    }
                }
                acc.unwrap_or(Atom::False)
            }
            Atom::Not(x) => Atom::Not(Box::new(m(x, ports))),
            Atom::And(x, y) => Atom::And(Box::new(m(x, ports)), Box::new(m(y, ports))),
            Atom::Or(x, y) => Atom::Or(Box::new(m(x, ports)), Box::new(m(y, ports))),
            other => other.clone(),
        }
    }
    rules.iter().map(|r| RuleSpec { target: r.target, filter: r.filter.as_ref().map(|f| m(f, fx_ports)) }).collect()
}

async fn probe(fx: &Fx, p: &Probe) -> Result<Option<u8>, String> {
    let dur = Duration::from_secs(8);
    let host: [u8; 4] = [127, 0, 1, 1 + (p.host % 3)];
    let port = fx.origin_ports[p.port as usize % 3];
    let d = Dest { host: Host::V4(host), port };
    let (lport, socks) = if p.listener % 2 == 0 { (fx.http, false) } else { (fx.socks, true) };
    let mut s = TcpStream::connect(lo(lport)).await.map_err(|e| e.to_string())?;
    let r = if socks { socks5_connect(&mut s, &d, None, 1, &[], dur).await } else { http_connect(&mut s, &d.authority(), &[], &[], dur).await };
    match r {
        Reply::Ok { leftover } => {
            let mut buf = leftover;
            read_until(&mut s, &mut buf, |b| b.iter().position(|c| *c == b'\n').map(|i| i + 1), dur).await.map_err(|e| format!("origin banner: {}", e))?;
            let line = String::from_utf8_lossy(&buf).to_string();
            let ip = line.trim().strip_prefix("peer=").unwrap_or("").to_string();
            match ip.as_str() {
                "127.0.2.1" => Ok(Some(0)),
                "127.0.2.2" => Ok(Some(1)),
                "127.0.2.3" => Ok(Some(2)),
                other => Err(format!("origin reached from unexpected address {:?}", other)),
            }
        }
        Reply::Refused { .. } => Ok(None),
        Reply::Broken { why, .. } => Err(format!("no reply: {}", why)),
    }
}

fn rules_of_get(v: &serde_json::Value) -> Option<Vec<(String, Option<String>)>> {
    Some(
        v.as_array()?
            .iter()
            .map(|r| (r["target"].as_str().unwrap_or("?").to_string(), r.get("filter").and_then(|f| f.as_str()).map(|s| s.to_string())))
            .collect(),
    )
}

pub async fn run_case(c: &Case) -> Result<(bool, serde_json::Value), Failure> {
    let dur = Duration::from_secs(10);
    let fx = fixture(&[]).await.map_err(|e| Failure::new("infrastructure", e))?;
    let mut model: Vec<RuleSpec> = vec![];
    let mut rejected_then_probe = false;
    let mut pending_rejected: Option<Vec<RuleSpec>> = None;
    let mut trace = vec![];
    for (i, op) in c.ops.iter().enumerate() {
        match op {
            Op::Post(rules) => {
                let real = remap(rules, &fx.origin_ports);
                let body = json!(real.iter().map(rule_json).collect::<Vec<_>>());
                let (st, resp) = api_json(fx.api, "POST", "/api/rules", Some(&body), dur).await.map_err(|e| Failure::new("infrastructure", e))?;
                if st / 100 != 2 {
                    return Err(Failure::new("valid-list-rejected", format!("op #{}: a valid rule list was rejected with {}: {}", i, st, resp)));
                }
                model = real;
                pending_rejected = None;
                trace.push(format!("post({})", rules.len()));
            }
            Op::PostInvalid(rules, pos, d) => {
                let real = remap(rules, &fx.origin_ports);
                let (body, _) = invalid_body(&real, *pos, d);
                let r = api(fx.api, "POST", "/api/rules", Some(&serde_json::to_vec(&body).unwrap()), dur).await.map_err(|e| Failure::new(format!("api-no-answer:{:?}", d), e))?;
                if r.status / 100 == 2 {
                    return Err(Failure::new(format!("invalid-list-accepted:{:?}", d), format!("op #{}: a list with a {:?} defect was accepted ({})", i, d, r.status)));
                }
                if r.body.is_empty() {
                    return Err(Failure::new(format!("error-without-message:{:?}", d), format!("op #{}: status {} with an empty body", i, r.status)));
                }
                pending_rejected = Some(real);
                trace.push(format!("post-invalid({:?})", d));
            }
            Op::Get | Op::GetThenPostBack => {
                let (st, v) = api_json(fx.api, "GET", "/api/rules", None, dur).await.map_err(|e| Failure::new("infrastructure", e))?;
                let got = rules_of_get(&v).ok_or_else(|| Failure::new("get-rules-shape", format!("GET /api/rules returned {} {}", st, v)))?;
                let want: Vec<(String, Option<String>)> = model
                    .iter()
                    .map(|r| {
                        let j = rule_json(r);
                        (j["target"].as_str().unwrap().to_string(), j.get("filter").and_then(|f| f.as_str()).map(|s| s.to_string()))
                    })
                    .collect();
                if got != want {
                    return Err(Failure::new(
                        if pending_rejected.is_some() { "get-differs-after-rejected-post" } else { "get-differs" },
                        format!("op #{}: GET /api/rules shows {:?}, the list in force is {:?}", i, got, want),
                    ));
                }
                if matches!(op, Op::GetThenPostBack) {
                    let (st, resp) = api_json(fx.api, "POST", "/api/rules", Some(&v), dur).await.map_err(|e| Failure::new("infrastructure", e))?;
                    if st / 100 != 2 {
                        return Err(Failure::new("post-back-rejected", format!("op #{}: posting back what GET returned was rejected with {}: {}", i, st, resp)));
                    }
                    trace.push("get+post-back".into());
                } else {
                    trace.push("get".into());
                }
            }
            Op::Probe(p) => {
                // the model holds the rules with real port numbers
                let want = decide_real(&model, p, &fx.origin_ports);
                let got = probe(&fx, p).await.map_err(|e| Failure::new("probe-failed", format!("op #{}: {}", i, e)))?;
                if got != want {
                    let differs_from_rejected = pending_rejected.as_ref().map(|r| decide_real(r, p, &fx.origin_ports) == got).unwrap_or(false);
                    return Err(Failure::new(
                        if differs_from_rejected { "decided-by-rejected-list" } else { "decided-by-wrong-list" },
                        format!(
                            "op #{}: probe {:?} was served by {:?}, the list in force ({:?}) gives {:?} (history {:?})",
                            i,
                            p,
                            got.map(|k| format!("c{}", k)),
                            model.iter().map(rule_json).collect::<Vec<_>>(),
                            want.map(|k| format!("c{}", k)),
                            trace
                        ),
                    ));
                }
                if let Some(r) = &pending_rejected {
                    if decide_real(r, p, &fx.origin_ports) != want {
                        rejected_then_probe = true;
                    }
                }
                trace.push(format!("probe->{:?}", got));
            }
        }
    }
    let mut fx = fx;
    if !fx.proxy.alive() {
        return Err(Failure::new("proxy-died", fx.proxy.log_tail(8)));
    }
    Ok((rejected_then_probe, json!({"history": trace})))
}

/// evaluate rules whose port atoms carry real port numbers
fn decide_real(rules: &[RuleSpec], p: &Probe, ports: &[u16]) -> Option<u8> {
    fn ev(a: &Atom, p: &Probe, ports: &[u16]) -> bool {
        let real_port = ports[p.port as usize % 3];
        match a {
            Atom::True => true,
            Atom::False => false,
            Atom::PortEq(x) => real_port == *x,
            Atom::PortLt(x) => real_port < *x,
            Atom::HostEq(h) => (*h as usize % HOSTS.len()) == (p.host as usize % HOSTS.len()),
            Atom::ListenerEq(l) => (*l as usize % LISTENERS.len()) == (p.listener as usize % LISTENERS.len()),
            Atom::Not(x) => !ev(x, p, ports),
            Atom::And(x, y) => ev(x, p, ports) && ev(y, p, ports),
            Atom::Or(x, y) => ev(x, p, ports) || ev(y, p, ports),
        }
    }
    for r in rules {
        if r.filter.as_ref().map(|f| ev(f, p, ports)).unwrap_or(true) {
            return if r.target == 0 { None } else { Some((r.target - 1) % 3) };
        }
    }
    None
}

pub struct HistoryCheck;
impl SubCheck for HistoryCheck {
    fn property(&self) -> &'static str {
        "C15"
    }
    fn name(&self) -> &'static str {
        "api-history"
    }
    fn rule(&self) -> String {
        "model-based histories of 3-13 operations against one real proxy each: POST /api/rules with a valid generated list (0-4 rules over deny / three direct connectors with distinct bind addresses, filters from an atom grammar over target port / host / listener with !, &&, ||), POST with exactly one defective rule at a generated position (syntax error, non-boolean filter, operand type mismatch, unknown target, missing target, non-string filter, 40 nested parentheses) or a non-list body, GET /api/rules, GET-then-POST-back, and probes (CONNECT / SOCKS5 requests whose serving connector is identified by the address the origin sees); oracle: valid POST => 2xx and later probes follow the new list; invalid POST => error status with a message and probes + GET still follow the old list; post-back changes nothing; non-trivial = a probe after a rejected POST whose decision differs between the old and the rejected list".into()
    }
    fn run(&self, part: &mut Part) {
        let n = part.tier.pick(120, 4000) as usize;
        let cases = part.draw("histories", n, &case_strategy());
        let rt = tokio::runtime::Builder::new_multi_thread().worker_threads(8).enable_all().build().unwrap();
        let results: Vec<(Case, Result<(bool, serde_json::Value), Failure>)> = rt.block_on(async {
            let mut out = vec![];
            for chunk in cases.chunks(8) {
                let hs: Vec<_> = chunk
                    .iter()
                    .cloned()
                    .map(|c| {
                        tokio::spawn(async move {
                            let r = run_case(&c).await;
                            (c, r)
                        })
                    })
                    .collect();
                for h in hs {
                    if let Ok(x) = h.await {
                        out.push(x);
                    }
                }
            }
            out
        });
        for (c, r) in results {
            let mut info = CaseInfo::default();
            match r {
                Ok((nt, sample)) => {
                    info.nontrivial = nt;
                    if part.samples.len() < 3 {
                        info.sample = Some(sample);
                    }
                    part.account(vcore::digest_json(&c), info);
                }
                Err(f) if f.key == "infrastructure" => {
                    info.inconclusive = true;
                    part.note(format!("infrastructure: {}", f.desc));
                    part.account(vcore::digest_json(&c), info);
                }
                Err(f) => {
                    part.account(vcore::digest_json(&c), info);
                    part.record_failure(f, serde_json::to_value(&c).unwrap());
                }
            }
        }
    }
    fn replay(&self, case: &serde_json::Value) -> Result<(), Failure> {
        let c: Case = serde_json::from_value(case.clone()).map_err(|e| Failure::new("replay-decode", e.to_string()))?;
        let rt = tokio::runtime::Builder::new_multi_thread().worker_threads(4).enable_all().build().unwrap();
        rt.block_on(async { run_case(&c).await.map(|_| ()) })
    }
}

pub fn checks() -> Vec<Box<dyn SubCheck>> {
    vec![Box::new(HistoryCheck)]
}
