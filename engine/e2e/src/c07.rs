//! C07 — end-to-end enforcement of peer authentication: SOCKS credentials through the real listener,
//! TLS client certificates on every listener kind, upstream certificate verification on every connector kind.
use crate::net::*;
use crate::tlsutil::*;
use crate::world::*;
use serde::{Deserialize, Serialize};
use serde_json::json;
use std::sync::Arc;
use std::time::Duration;
use tokio::io::{AsyncRead, AsyncReadExt, AsyncWrite, AsyncWriteExt};
use tokio::net::{TcpListener, TcpStream};
use vcore::refcodec::{self as rc, Dest, Host};
use vcore::{CaseInfo, Failure, Part, SubCheck};

// =============================================================== listener side

pub const KINDS: &[&str] = &["http", "socks", "quic"];
pub const POLICIES: &[&str] = &["none", "optional", "required"];
pub const PRESENTED: &[&str] = &["no-cert", "valid", "foreign-ca", "expired"];

#[derive(Clone, Debug, Serialize, Deserialize)]
pub struct ListenerCell {
    pub kind: u8,
    pub policy: u8,
    pub presented: u8,
}

struct LFx {
    proxy: Proxy,
    /// port by (kind, policy)
    ports: Vec<Vec<u16>>,
    auth_port: u16,
    origin: Origin,
}

async fn listener_fixture() -> Result<LFx, String> {
    let origin = Origin::start("127.0.0.1:0".parse().unwrap(), echo_script()).await.map_err(|e| e.to_string())?;
    let mut ports = vec![];
    let mut listeners = String::new();
    let mut ready = vec![];
    for (k, kind) in KINDS.iter().enumerate() {
        let mut row = vec![];
        for (p, _pol) in POLICIES.iter().enumerate() {
            let port = free_port();
            row.push(port);
            if k < 2 {
                ready.push(port);
            }
            let client = match p {
                0 => String::new(),
                1 => "      client:\n        ca: /verif/pki/ca.crt\n        required: false\n".to_string(),
                _ => "      client:\n        ca: /verif/pki/ca.crt\n        required: true\n".to_string(),
            };
            listeners.push_str(&format!(
                "  - name: {kind}-{p}\n    type: {kind}\n    bind: 127.0.0.1:{port}\n    tls:\n      cert: /verif/pki/server.crt\n      key: /verif/pki/server.key\n{client}",
                kind = kind,
                p = p,
                port = port,
                client = client
            ));
        }
        ports.push(row);
    }
    let auth_port = free_port();
    ready.push(auth_port);
    listeners.push_str(&format!(
        "  - name: socksauth\n    type: socks\n    bind: 127.0.0.1:{}\n    auth:\n      required: true\n      users:\n        - username: alice\n          password: secret\n",
        auth_port
    ));
    let yaml = format!("apiVersion: v1\nkind: test\nlisteners:\n{}connectors:\n  - name: direct\nrules:\n  - target: direct\n", listeners);
    let proxy = tokio::task::spawn_blocking(move || Proxy::start("c07l", &yaml, &ready, None)).await.map_err(|e| e.to_string())??;
    Ok(LFx { proxy, ports, auth_port, origin })
}

fn client_cert(presented: u8) -> Option<&'static str> {
    match presented % 4 {
        0 => None,
        1 => Some("client"),
        2 => Some("client-foreign"),
        _ => Some("client-expired"),
    }
}

/// returns Ok(true) if the request was routed (the origin was contacted and the client saw success)
async fn listener_cell(fx: &LFx, c: &ListenerCell) -> Result<bool, String> {
    let dur = Duration::from_secs(8);
    let port = fx.ports[c.kind as usize % 3][c.policy as usize % 3];
    let before = fx.origin.count();
    let d = dest_for(fx.origin.addr);
    let cert = client_cert(c.presented);
    let established: bool = match c.kind % 3 {
        0 | 1 => {
            let cfg = client_config("ca.crt", cert, None);
            let tcp = TcpStream::connect(lo(port)).await.map_err(|e| e.to_string())?;
            let conn = tokio_rustls::TlsConnector::from(cfg);
            match tokio::time::timeout(dur, conn.connect(server_name(), tcp)).await {
                Ok(Ok(mut s)) => {
                    let r = if c.kind % 3 == 0 { http_connect(&mut s, &d.authority(), &[], &[], dur).await } else { socks5_connect(&mut s, &d, None, 1, &[], dur).await };
                    match r {
                        Reply::Ok { .. } => {
                            let _ = s.write_all(b"ping").await;
                            let mut b = [0u8; 4];
                            let ok = tokio::time::timeout(dur, s.read_exact(&mut b)).await.map(|r| r.is_ok()).unwrap_or(false);
                            ok && &b == b"ping"
                        }
                        _ => false,
                    }
                }
                _ => false,
            }
        }
        _ => {
            let ep = quic_client("ca.crt", cert);
            let connecting = ep.connect(lo(port), "localhost").map_err(|e| e.to_string())?;
            match tokio::time::timeout(dur, connecting).await {
                Ok(Ok(conn)) => match tokio::time::timeout(dur, conn.open_bi()).await {
                    Ok(Ok((mut w, mut r))) => {
                        let t = d.authority();
                        let msg = rc::encode_connect(&t, &[(b"Host".to_vec(), t.clone())]);
                        let _ = w.write_all(&msg).await;
                        let mut buf = vec![];
                        let mut tmp = [0u8; 1024];
                        let mut ok = false;
                        let deadline = tokio::time::Instant::now() + dur;
                        loop {
                            if let Some(h) = rc::parse_http_head(&buf, true) {
                                ok = h.start.1 == b"200";
                                break;
                            }
                            match tokio::time::timeout_at(deadline, r.read(&mut tmp)).await {
                                Ok(Ok(Some(n))) if n > 0 => buf.extend_from_slice(&tmp[..n]),
                                _ => break,
                            }
                        }
                        ok
                    }
                    _ => false,
                },
                _ => false,
            }
        }
    };
    tokio::time::sleep(Duration::from_millis(40)).await;
    let contacted = fx.origin.count() > before;
    if contacted != established && contacted {
        // the origin was reached although the client did not see a working tunnel: still a routed request
        return Ok(true);
    }
    Ok(established)
}

// =============================================================== connector side

pub const CERTS: &[&str] = &["server", "server-foreign", "server-othername", "server-expired"];

#[derive(Clone, Debug, Serialize, Deserialize)]
pub struct ConnectorCell {
    pub kind: u8,
    pub insecure: bool,
    pub ca_ours: bool,
    pub cert: u8,
}

struct CFx {
    proxy: Proxy,
    http: u16,
    _tasks: Vec<tokio::task::JoinHandle<()>>,
    _eps: Vec<quinn::Endpoint>,
    /// handshakes completed per (kind, cert)
    reached: Arc<std::sync::Mutex<Vec<(u8, u8)>>>,
}

impl Drop for CFx {
    fn drop(&mut self) {
        for t in &self._tasks {
            t.abort();
        }
    }
}

async fn serve_upstream<S: AsyncRead + AsyncWrite + Unpin>(mut s: S, kind: u8) {
    let dur = Duration::from_secs(8);
    let mut buf = vec![];
    if kind == 0 {
        if read_until(&mut s, &mut buf, |b| rc::parse_http_head(b, false).map(|h| h.consumed), dur).await.is_err() {
            return;
        }
        let h = rc::parse_http_head(&buf, false).unwrap();
        buf.drain(..h.consumed);
        let _ = s.write_all(b"HTTP/1.1 200 OK\r\n\r\n").await;
    } else {
        if read_until(&mut s, &mut buf, |b| if b.len() >= 2 && b.len() >= 2 + b[1] as usize { Some(2 + b[1] as usize) } else { None }, dur).await.is_err() {
            return;
        }
        let n = 2 + buf[1] as usize;
        buf.drain(..n);
        let _ = s.write_all(&[5, 0]).await;
        if read_until(&mut s, &mut buf, |b| rc::parse_socks5_msg(b).map(|m| m.consumed), dur).await.is_err() {
            return;
        }
        let m = rc::parse_socks5_msg(&buf).unwrap();
        buf.drain(..m.consumed);
        let _ = s.write_all(&rc::encode_socks5_reply(0, &Dest { host: Host::V4([127, 0, 0, 1]), port: 1 }).unwrap()).await;
    }
    if !buf.is_empty() {
        let _ = s.write_all(&buf).await;
    }
    let mut tmp = [0u8; 4096];
    loop {
        match s.read(&mut tmp).await {
            Ok(0) | Err(_) => break,
            Ok(n) => {
                if s.write_all(&tmp[..n]).await.is_err() {
                    break;
                }
            }
        }
    }
}

async fn connector_fixture() -> Result<CFx, String> {
    let reached: Arc<std::sync::Mutex<Vec<(u8, u8)>>> = Default::default();
    let mut tasks = vec![];
    let mut eps = vec![];
    // upstream ports by (kind, cert)
    let mut up = vec![vec![0u16; 4]; 3];
    for kind in 0..2u8 {
        for (ci, cert) in CERTS.iter().enumerate() {
            let l = TcpListener::bind("127.0.0.1:0").await.map_err(|e| e.to_string())?;
            up[kind as usize][ci] = l.local_addr().unwrap().port();
            let acceptor = tokio_rustls::TlsAcceptor::from(server_config(cert, None));
            let reached = reached.clone();
            tasks.push(tokio::spawn(async move {
                loop {
                    if let Ok((tcp, _)) = l.accept().await {
                        let acceptor = acceptor.clone();
                        let reached = reached.clone();
                        tokio::spawn(async move {
                            if let Ok(s) = acceptor.accept(tcp).await {
                                reached.lock().unwrap().push((kind, ci as u8));
                                serve_upstream(s, kind).await;
                            }
                        });
                    }
                }
            }));
        }
    }
    for (ci, cert) in CERTS.iter().enumerate() {
        let (ep, port) = quic_server(cert);
        up[2][ci] = port;
        let ep2 = ep.clone();
        let reached = reached.clone();
        tasks.push(tokio::spawn(async move {
            while let Some(connecting) = ep2.accept().await {
                let reached = reached.clone();
                tokio::spawn(async move {
                    if let Ok(conn) = connecting.await {
                        reached.lock().unwrap().push((2, ci as u8));
                        while let Ok((w, r)) = conn.accept_bi().await {
                            tokio::spawn(async move {
                                let s = tokio::io::join(r, w);
                                serve_upstream(s, 0).await;
                            });
                        }
                    }
                });
            }
        }));
        eps.push(ep);
    }
    let http = free_port();
    let mut connectors = String::new();
    let mut rules = String::new();
    let mut n = 0u16;
    for kind in 0..3u8 {
        for insecure in [false, true] {
            for ca_ours in [true, false] {
                for ci in 0..4usize {
                    let name = format!("u{}", n);
                    let ca = if ca_ours { "      ca: /verif/pki/ca.crt\n" } else { "" };
                    let tname = ["http", "socks", "quic"][kind as usize];
                    let extra = if kind == 2 { "    bind: \"127.0.0.1:0\"\n    inlineUdp: true\n" } else { "" };
                    connectors.push_str(&format!(
                        "  - name: {name}\n    type: {tname}\n    server: localhost\n    port: {port}\n{extra}    tls:\n      insecure: {insecure}\n{ca}",
                        name = name,
                        tname = tname,
                        port = up[kind as usize][ci],
                        extra = extra,
                        insecure = insecure,
                        ca = ca
                    ));
                    rules.push_str(&format!("  - filter: request.target.port == {}\n    target: {}\n", 40000 + n, name));
                    n += 1;
                }
            }
        }
    }
    let yaml = format!("apiVersion: v1\nkind: test\nlisteners:\n  - name: http\n    bind: 127.0.0.1:{}\nconnectors:\n{}rules:\n{}", http, connectors, rules);
    let proxy = tokio::task::spawn_blocking(move || Proxy::start("c07c", &yaml, &[http], None)).await.map_err(|e| e.to_string())??;
    Ok(CFx { proxy, http, _tasks: tasks, _eps: eps, reached })
}

fn connector_index(c: &ConnectorCell) -> u16 {
    let mut n = 0u16;
    for kind in 0..3u8 {
        for insecure in [false, true] {
            for ca_ours in [true, false] {
                for ci in 0..4u8 {
                    if kind == c.kind % 3 && insecure == c.insecure && ca_ours == c.ca_ours && ci == c.cert % 4 {
                        return n;
                    }
                    n += 1;
                }
            }
        }
    }
    0
}

async fn connector_cell(fx: &CFx, c: &ConnectorCell) -> Result<(bool, bool), String> {
    let dur = Duration::from_secs(10);
    let n = connector_index(c);
    let before = fx.reached.lock().unwrap().iter().filter(|x| **x == (c.kind % 3, c.cert % 4)).count();
    let mut s = TcpStream::connect(lo(fx.http)).await.map_err(|e| e.to_string())?;
    let d = Dest { host: Host::V4([127, 0, 1, 1]), port: 40000 + n };
    let established = match http_connect(&mut s, &d.authority(), &[], &[], dur).await {
        Reply::Ok { .. } => {
            let _ = s.write_all(b"ping").await;
            let mut b = [0u8; 4];
            tokio::time::timeout(dur, s.read_exact(&mut b)).await.map(|r| r.is_ok()).unwrap_or(false) && &b == b"ping"
        }
        _ => false,
    };
    tokio::time::sleep(Duration::from_millis(30)).await;
    let handshakes = fx.reached.lock().unwrap().iter().filter(|x| **x == (c.kind % 3, c.cert % 4)).count() > before;
    Ok((established, handshakes))
}

// =============================================================== SOCKS credentials through the real listener

#[derive(Clone, Debug, Serialize, Deserialize)]
pub struct CredCase {
    pub methods: Vec<u8>,
    pub user: u8,
    pub pass: u8,
}

const USERS: &[&[u8]] = &[b"alice", b"bob", b"", b"ALICE", b"alice ", b"alic"];
const PASSES: &[&[u8]] = &[b"secret", b"", b"SECRET", b"secret ", b"secre", b"x"];

async fn cred_case(fx: &LFx, c: &CredCase) -> Result<(bool, bool), String> {
    let dur = Duration::from_secs(8);
    let before = fx.origin.count();
    let mut s = TcpStream::connect(lo(fx.auth_port)).await.map_err(|e| e.to_string())?;
    let user = USERS[c.user as usize % USERS.len()];
    let pass = PASSES[c.pass as usize % PASSES.len()];
    let d = dest_for(fx.origin.addr);
    let _ = s.write_all(&rc::encode_socks5_greeting(&c.methods)).await;
    let mut buf = vec![];
    let mut told_ok = false;
    if read_until(&mut s, &mut buf, |b| if b.len() >= 2 { Some(2) } else { None }, dur).await.is_ok() {
        let sel = buf[1];
        buf.drain(..2);
        let mut next = vec![];
        if sel == 2 {
            next.extend_from_slice(&rc::encode_socks5_userpass(user, pass));
        }
        if sel == 0 || sel == 2 {
            next.extend_from_slice(&rc::encode_socks5_request(1, &d).unwrap());
            // payload pipelined behind the request must not reach the origin of an unauthenticated client
            next.extend_from_slice(b"SMUGGLED");
            let _ = s.write_all(&next).await;
            if sel == 2 {
                let _ = read_until(&mut s, &mut buf, |b| if b.len() >= 2 { Some(2) } else { None }, dur).await;
                if buf.len() >= 2 {
                    buf.drain(..2);
                }
            }
            if read_until(&mut s, &mut buf, |b| rc::parse_socks5_msg(b).map(|m| m.consumed), dur).await.is_ok() {
                told_ok = rc::parse_socks5_msg(&buf).map(|m| m.code == 0).unwrap_or(false);
            }
        }
    }
    tokio::time::sleep(Duration::from_millis(40)).await;
    let contacted = fx.origin.count() > before;
    let valid = user == b"alice" && pass == b"secret";
    let _ = told_ok;
    Ok((contacted || told_ok, valid && c.methods.contains(&2)))
}

// =============================================================== the checks

pub struct TlsCheck;
impl SubCheck for TlsCheck {
    fn property(&self) -> &'static str {
        "C07"
    }
    fn name(&self) -> &'static str {
        "tls-matrix"
    }
    fn rule(&self) -> String {
        "exhaustive matrices on real proxies over a test PKI (own CA, foreign CA, expired and wrong-name certificates): (1) listener kind {http, socks, quic} x client-certificate policy {none, optional, required} x presented {no certificate, valid, foreign CA, expired} = 36 cells, the client drives a real TLS / QUIC handshake and then a CONNECT / SOCKS5 request; oracle: with policy 'required' a request is routed (origin contacted or success reply) only if a certificate chaining to the configured CA was presented, and the valid certificate must get through (positive control); (2) connector kind {http, socks, quic} x insecure {false, true} x ca {ours, absent} x upstream certificate {valid for localhost, foreign CA, wrong name, expired} = 48 cells against harness TLS / QUIC upstreams; oracle: with insecure=false a tunnel is established only with ca=ours and the valid certificate, which must work (positive control); with insecure=true any certificate must work; (3) SOCKS5 user/pass through the real listener with required=true: 60 offers x credential near-misses, origin contacted or success reply => valid account via method 2; non-trivial = every cell in which the peer lacks valid credentials".into()
    }
    fn run(&self, part: &mut Part) {
        let rt = tokio::runtime::Builder::new_multi_thread().worker_threads(6).enable_all().build().unwrap();
        let seed = part.seed;
        let res: Result<Vec<(serde_json::Value, bool, Option<Failure>)>, String> = rt.block_on(async move {
            let mut out = vec![];
            let lfx = listener_fixture().await?;
            for kind in 0..3u8 {
                for policy in 0..3u8 {
                    for presented in 0..4u8 {
                        let c = ListenerCell { kind, policy, presented };
                        let routed = listener_cell(&lfx, &c).await?;
                        let desc = format!("{} listener, client certificate {}, presented {}", KINDS[kind as usize], POLICIES[policy as usize], PRESENTED[presented as usize]);
                        let mut f = None;
                        if policy == 2 && routed && presented != 1 {
                            f = Some(Failure::new(
                                format!("routed-without-client-cert:{}:{}", KINDS[kind as usize], PRESENTED[presented as usize]),
                                format!("{}: the request was routed although no certificate chaining to the configured CA was presented", desc),
                            ));
                        }
                        if presented == 1 && !routed {
                            f = Some(Failure::new(format!("valid-client-cert-refused:{}:{}", KINDS[kind as usize], POLICIES[policy as usize]), format!("{}: a valid client was not served (positive control)", desc)));
                        }
                        if policy == 0 && presented == 0 && !routed {
                            f = Some(Failure::new(format!("plain-tls-client-refused:{}", KINDS[kind as usize]), format!("{}: not served", desc)));
                        }
                        out.push((json!({"listener_cell": c, "routed": routed}), policy == 2 && presented != 1, f));
                    }
                }
            }
            // SOCKS credentials through the real listener
            let offers: Vec<Vec<u8>> = vec![vec![0], vec![2], vec![0, 2], vec![2, 0], vec![0, 0, 2], vec![1, 3], vec![], vec![2, 2], vec![0xff, 0], vec![0x80, 2]];
            let mut k = seed.wrapping_mul(0x9E3779B97F4A7C15) | 1;
            for i in 0..60 {
                k = k.wrapping_mul(6364136223846793005).wrapping_add(1442695040888963407);
                let c = CredCase { methods: offers[i % offers.len()].clone(), user: (k >> 8) as u8, pass: (k >> 16) as u8 };
                let c = if i % 6 == 0 { CredCase { user: 0, pass: 0, ..c } } else { c };
                let (routed, valid) = cred_case(&lfx, &c).await?;
                let mut f = None;
                if routed && !valid {
                    f = Some(Failure::new(
                        format!("routed-without-credentials:listener:{}", if c.methods.contains(&0) { "offers-none" } else { "no-none" }),
                        format!("methods {:02x?}, user #{} pass #{}: the request was routed without a valid account", c.methods, c.user % 6, c.pass % 6),
                    ));
                }
                if valid && !routed {
                    f = Some(Failure::new("valid-credentials-refused:listener", format!("methods {:02x?}: alice/secret was refused", c.methods)));
                }
                out.push((json!({"cred_case": c, "routed": routed}), !valid, f));
            }
            let mut lfx = lfx;
            if !lfx.proxy.alive() {
                return Err(format!("listener-side proxy died: {}", lfx.proxy.log_tail(6)));
            }
            drop(lfx);
            let cfx = connector_fixture().await?;
            for kind in 0..3u8 {
                for insecure in [false, true] {
                    for ca_ours in [true, false] {
                        for cert in 0..4u8 {
                            let c = ConnectorCell { kind, insecure, ca_ours, cert };
                            let (established, handshake) = connector_cell(&cfx, &c).await?;
                            let desc = format!("{} connector, insecure={}, ca={}, upstream presents {}", KINDS[kind as usize], insecure, if ca_ours { "ours" } else { "absent" }, CERTS[cert as usize]);
                            let must_fail = !insecure && !(ca_ours && cert == 0);
                            let mut f = None;
                            if must_fail && (established || handshake) {
                                f = Some(Failure::new(
                                    format!("untrusted-upstream-accepted:{}:{}:{}", KINDS[kind as usize], CERTS[cert as usize], if ca_ours { "ca-ours" } else { "ca-absent" }),
                                    format!("{}: the TLS handshake with the upstream completed (tunnel established: {}) although its certificate does not verify", desc, established),
                                ));
                            }
                            if !insecure && ca_ours && cert == 0 && !established {
                                f = Some(Failure::new(format!("trusted-upstream-refused:{}", KINDS[kind as usize]), format!("{}: not established (positive control)", desc)));
                            }
                            if insecure && !established {
                                f = Some(Failure::new(format!("insecure-upstream-refused:{}:{}", KINDS[kind as usize], CERTS[cert as usize]), format!("{}: not established", desc)));
                            }
                            out.push((json!({"connector_cell": c, "established": established}), must_fail, f));
                        }
                    }
                }
            }
            let mut cfx = cfx;
            if !cfx.proxy.alive() {
                return Err(format!("connector-side proxy died: {}", cfx.proxy.log_tail(6)));
            }
            Ok(out)
        });
        match res {
            Err(e) => {
                part.note(format!("infrastructure: {}", e));
                part.extra.insert("infrastructure_error".into(), json!(e));
            }
            Ok(cells) => {
                for (case, nontrivial, f) in cells {
                    let mut info = CaseInfo::default();
                    info.nontrivial = nontrivial;
                    if part.samples.len() < 4 {
                        info.sample = Some(case.clone());
                    }
                    part.account(vcore::digest_json(&case), info);
                    if let Some(f) = f {
                        part.record_failure(f, case);
                    }
                }
                part.exhaustive = true;
            }
        }
    }
    fn replay(&self, case: &serde_json::Value) -> Result<(), Failure> {
        // the matrices are enumerated in full by every run: replay = re-run the matrix and look for the same cell
        let mut part = Part::new("C07", "tls-matrix", vcore::Tier::Quick, 0, "");
        self.run(&mut part);
        for v in &part.violations {
            if &v.case == case {
                return Err(Failure::new(v.key.clone(), v.desc.clone()));
            }
        }
        Ok(())
    }
}

pub fn checks() -> Vec<Box<dyn SubCheck>> {
    vec![Box::new(TlsCheck)]
}
