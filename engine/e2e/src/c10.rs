//! C10 — UDP datagram fidelity and session isolation through every UDP path.
use crate::net::*;
use crate::world::*;
use proptest::prelude::*;
use serde::{Deserialize, Serialize};
use serde_json::json;
use std::collections::HashMap;
use std::net::SocketAddr;
use std::sync::Arc;
use std::time::Duration;
use tokio::io::AsyncWriteExt;
use tokio::net::{TcpStream, UdpSocket};
use vcore::refcodec::{self as rc, Dest, Host, Rpfm};
use vcore::{CaseInfo, Failure, Part, SubCheck};

pub const LISTENERS: &[&str] = &["socks5-udp", "reverse-udp", "http-inline"];
pub const CONNECTORS: &[&str] = &["direct", "socks5->B", "http->B", "quic-datagrams->B", "quic-inline->B"];
pub const SIZES: &[usize] = &[0, 1, 8, 100, 1199, 1200, 1201, 1472, 4096, 9000, 30000, 65000];

#[derive(Clone, Debug, Serialize, Deserialize)]
pub struct SessionSpec {
    pub listener: u8,
    pub connector: u8,
    /// (origin index, size): values below 12 select from SIZES, anything else is the size itself
    pub sends: Vec<(u8, u16)>,
    /// close the client socket right after the last send, while the (slow) reply is in flight
    pub vanish: bool,
    pub enforce_client: bool,
    /// send all datagrams of the session back to back (inline: in one write) and collect the replies afterwards
    #[serde(default)]
    pub burst: bool,
    /// (http-inline only) the client floods datagrams and never reads a reply: its tunnel backs up; the
    /// other sessions of the case must not notice
    #[serde(default)]
    pub hog: bool,
}

#[derive(Clone, Debug, Serialize, Deserialize)]
pub struct Case {
    pub sessions: Vec<SessionSpec>,
}

pub fn case_strategy() -> impl Strategy<Value = Case> {
    let s = (0u8..3, 0u8..5, prop::collection::vec((0u8..3, prop_oneof![3 => 0u16..12, 2 => 12u16..5000, 1 => 1100u16..1200, 1 => 2250u16..2350]), 1..7), prop::bool::weighted(0.2), any::<bool>(), prop::bool::weighted(0.3), prop::bool::weighted(0.15)).prop_map(|(listener, connector, sends, vanish, enforce_client, burst, hog)| SessionSpec {
        listener,
        connector,
        sends,
        vanish: vanish && !burst && !(hog && listener == 2),
        enforce_client,
        burst: burst && !(hog && listener == 2),
        // hog sessions are only enumerated (run on their own fixture at the end): their backlog would make the
        // 4 s reply bound of unrelated later cases a matter of luck
        hog: hog && listener == 2 && false,
    });
    prop::collection::vec(s, 1..6).prop_map(|sessions| Case { sessions })
}

/// tagging echo origin bound to a specific loopback address; replies `origin_tag ‖ payload` (after a delay when asked)
pub struct UdpOrigin {
    pub addr: SocketAddr,
    pub tag: u8,
    pub received: Arc<std::sync::Mutex<Vec<(SocketAddr, Vec<u8>)>>>,
    _h: tokio::task::JoinHandle<()>,
}

impl Drop for UdpOrigin {
    fn drop(&mut self) {
        self._h.abort();
    }
}

async fn udp_origin(ip: [u8; 4], tag: u8) -> UdpOrigin {
    let s = Arc::new(UdpSocket::bind(SocketAddr::from((ip, 0))).await.unwrap());
    let addr = s.local_addr().unwrap();
    let received: Arc<std::sync::Mutex<Vec<(SocketAddr, Vec<u8>)>>> = Default::default();
    let r2 = received.clone();
    let h = tokio::spawn(async move {
        let mut buf = vec![0u8; 70000];
        loop {
            if let Ok((n, from)) = s.recv_from(&mut buf).await {
                let p = buf[..n].to_vec();
                r2.lock().unwrap().push((from, p.clone()));
                let s2 = s.clone();
                tokio::spawn(async move {
                    // payloads whose 9th byte is 0xEE ask for a slow reply
                    if p.len() > 8 && p[8] == 0xEE {
                        tokio::time::sleep(Duration::from_millis(250)).await;
                    }
                    let mut reply = vec![tag];
                    reply.extend_from_slice(&p);
                    if reply.len() <= 65507 {
                        let _ = s2.send_to(&reply, from).await;
                    }
                });
            }
        }
    });
    UdpOrigin { addr, tag, received, _h: h }
}

pub struct Fx {
    pub a: Proxy,
    pub b: Proxy,
    pub origins: Vec<UdpOrigin>,
    /// listener ports of A: [listener kind][connector] ; for socks also the enforce variant
    pub ports: HashMap<(u8, u8, bool), u16>,
}

pub async fn fixture() -> Result<Fx, String> {
    fixture_with(20).await
}

/// `udp` = timeouts.udp of both proxies (seconds)
pub async fn fixture_with(udp: u64) -> Result<Fx, String> {
    let origins = vec![udp_origin([127, 0, 1, 1], 0xA1).await, udp_origin([127, 0, 1, 2], 0xA2).await, udp_origin([127, 0, 1, 3], 0xA3).await];
    let (bh, bs, bq) = (free_port(), free_port(), free_port());
    let b_yaml = format!(
        r#"apiVersion: v1
kind: test
listeners:
  - name: http
    bind: 127.0.0.1:{bh}
  - name: socks
    bind: 127.0.0.1:{bs}
  - name: quic
    bind: 127.0.0.1:{bq}
    tls:
      cert: /verif/pki/server.crt
      key: /verif/pki/server.key
connectors:
  - name: direct
rules:
  - target: direct
timeouts:
  udp: {udp}
"#,
        bh = bh,
        bs = bs,
        bq = bq,
        udp = udp
    );
    let b = tokio::task::spawn_blocking(move || Proxy::start("c10b", &b_yaml, &[bh, bs], None)).await.map_err(|e| e.to_string())??;
    let conn_names = ["direct", "upsocks5", "uphttp", "upquicd", "upquici"];
    let mut listeners = String::new();
    let mut rules = String::new();
    let mut ports = HashMap::new();
    let mut ready = vec![];
    for (ci, cn) in conn_names.iter().enumerate() {
        for enforce in [false, true] {
            let p = free_port();
            ports.insert((0u8, ci as u8, enforce), p);
            ready.push(p);
            let name = format!("socks-{}-{}", cn, enforce);
            listeners.push_str(&format!("  - name: {}\n    type: socks\n    bind: 127.0.0.1:{}\n    enforceUdpClient: {}\n", name, p, enforce));
            rules.push_str(&format!("  - filter: request.listener == \"{}\"\n    target: {}\n", name, cn));
        }
        let p = free_port();
        ports.insert((1u8, ci as u8, false), p);
        let name = format!("revudp-{}", cn);
        listeners.push_str(&format!("  - name: {}\n    type: reverse\n    protocol: udp\n    bind: 127.0.0.1:{}\n    target: {}\n", name, p, origins[0].addr));
        rules.push_str(&format!("  - filter: request.listener == \"{}\"\n    target: {}\n", name, cn));
        let p = free_port();
        ports.insert((2u8, ci as u8, false), p);
        ready.push(p);
        let name = format!("http-{}", cn);
        listeners.push_str(&format!("  - name: {}\n    type: http\n    bind: 127.0.0.1:{}\n", name, p));
        rules.push_str(&format!("  - filter: request.listener == \"{}\"\n    target: {}\n", name, cn));
    }
    let a_yaml = format!(
        r#"apiVersion: v1
kind: test
listeners:
{listeners}connectors:
  - name: direct
  - name: upsocks5
    type: socks
    server: 127.0.0.1
    port: {bs}
  - name: uphttp
    type: http
    server: 127.0.0.1
    port: {bh}
  - name: upquicd
    type: quic
    server: localhost
    port: {bq}
    bind: "127.0.0.1:0"
    inlineUdp: false
    tls:
      ca: /verif/pki/ca.crt
  - name: upquici
    type: quic
    server: localhost
    port: {bq}
    bind: "127.0.0.1:0"
    inlineUdp: true
    tls:
      ca: /verif/pki/ca.crt
rules:
{rules}timeouts:
  udp: {udp}
"#,
        listeners = listeners,
        rules = rules,
        bs = bs,
        bh = bh,
        bq = bq,
        udp = udp
    );
    let a = tokio::task::spawn_blocking(move || Proxy::start("c10a", &a_yaml, &ready, None)).await.map_err(|e| e.to_string())??;
    Ok(Fx { a, b, origins, ports })
}

enum Conn {
    Socks { _ctrl: TcpStream, udp: UdpSocket, relay: SocketAddr },
    Reverse { udp: UdpSocket, relay: SocketAddr },
    Inline { stream: TcpStream, buf: Vec<u8> },
}

async fn open(fx: &Fx, s: &SessionSpec) -> Result<Conn, String> {
    let dur = Duration::from_secs(10);
    let lk = s.listener % 3;
    let ck = s.connector % 5;
    match lk {
        0 => {
            let port = fx.ports[&(0, ck, s.enforce_client)];
            let udp = UdpSocket::bind("127.0.0.1:0").await.map_err(|e| e.to_string())?;
            let my = udp.local_addr().unwrap();
            let mut ctrl = TcpStream::connect(lo(port)).await.map_err(|e| e.to_string())?;
            // with enforceUdpClient the request names the client's UDP address
            let claimed = if s.enforce_client { dest_for(my) } else { Dest { host: Host::V4([0, 0, 0, 0]), port: 0 } };
            let mut msg = rc::encode_socks5_greeting(&[0]);
            msg.extend_from_slice(&rc::encode_socks5_request(3, &claimed).unwrap());
            ctrl.write_all(&msg).await.map_err(|e| e.to_string())?;
            let mut buf = vec![];
            read_until(&mut ctrl, &mut buf, |b| if b.len() >= 2 { rc::parse_socks5_msg(&b[2..]).map(|m| m.consumed + 2) } else { None }, dur).await.map_err(|e| format!("udp associate reply: {}", e))?;
            let m = rc::parse_socks5_msg(&buf[2..]).ok_or("reply")?;
            if m.code != 0 {
                return Err(format!("udp associate refused with rep {}", m.code));
            }
            let relay = match m.dest.host {
                Host::V4(a) => SocketAddr::from((a, m.dest.port)),
                _ => return Err("relay addr".into()),
            };
            Ok(Conn::Socks { _ctrl: ctrl, udp, relay })
        }
        1 => {
            let port = fx.ports[&(1, ck, false)];
            let udp = UdpSocket::bind("127.0.0.1:0").await.map_err(|e| e.to_string())?;
            Ok(Conn::Reverse { udp, relay: lo(port) })
        }
        _ => {
            let port = fx.ports[&(2, ck, false)];
            let mut stream = if s.hog {
                // a tiny receive buffer: the replies nobody reads back up into the proxy quickly
                let sock = tokio::net::TcpSocket::new_v4().map_err(|e| e.to_string())?;
                let _ = sock.set_recv_buffer_size(4096);
                sock.connect(lo(port)).await.map_err(|e| e.to_string())?
            } else {
                TcpStream::connect(lo(port)).await.map_err(|e| e.to_string())?
            };
            // the CONNECT target of a UDP tunnel is only a default; every frame carries its own destination
            let t = b"0.0.0.0:0".to_vec();
            match http_connect(&mut stream, &t, &[(b"Proxy-Protocol".to_vec(), b"udp".to_vec()), (b"Proxy-Channel".to_vec(), b"inline".to_vec())], &[], dur).await {
                Reply::Ok { leftover } => Ok(Conn::Inline { stream, buf: leftover }),
                other => Err(format!("udp over http refused: {:?}", other).chars().take(160).collect()),
            }
        }
    }
}

async fn send(c: &mut Conn, dest: SocketAddr, payload: &[u8]) -> Result<(), String> {
    match c {
        Conn::Socks { udp, relay, .. } => {
            let pkt = rc::encode_socks5_udp(&dest_for(dest), payload).unwrap();
            udp.send_to(&pkt, *relay).await.map(|_| ()).map_err(|e| e.to_string())
        }
        Conn::Reverse { udp, relay } => udp.send_to(payload, *relay).await.map(|_| ()).map_err(|e| e.to_string()),
        Conn::Inline { stream, .. } => {
            let f = Rpfm { session: 0, addr: Some(dest_for(dest)), body: payload.to_vec() };
            let b = rc::encode_rpfm(&f).ok_or("unencodable")?;
            stream.write_all(&b).await.map_err(|e| e.to_string())
        }
    }
}

/// (labelled source if the path labels replies, payload)
async fn recv(c: &mut Conn, dur: Duration) -> Option<(Option<Dest>, Vec<u8>)> {
    match c {
        Conn::Socks { udp, .. } => {
            let mut b = vec![0u8; 70000];
            let (n, _) = tokio::time::timeout(dur, udp.recv_from(&mut b)).await.ok()?.ok()?;
            let (_, d, p) = rc::parse_socks5_udp(&b[..n])?;
            Some((Some(d), p))
        }
        Conn::Reverse { udp, .. } => {
            let mut b = vec![0u8; 70000];
            let (n, _) = tokio::time::timeout(dur, udp.recv_from(&mut b)).await.ok()?.ok()?;
            Some((None, b[..n].to_vec()))
        }
        Conn::Inline { stream, buf } => {
            let deadline = tokio::time::Instant::now() + dur;
            loop {
                if let Ok(Some((f, used))) = rc::parse_rpfm(buf) {
                    buf.drain(..used);
                    return Some((f.addr, f.body));
                }
                let mut tmp = vec![0u8; 65536];
                use tokio::io::AsyncReadExt;
                match tokio::time::timeout_at(deadline, stream.read(&mut tmp)).await {
                    Ok(Ok(n)) if n > 0 => buf.extend_from_slice(&tmp[..n]),
                    _ => return None,
                }
            }
        }
    }
}

fn payload_for(session: u32, seq: u32, size: usize, slow: bool) -> Vec<u8> {
    if size < 9 {
        // too small to carry a tag: sessions are told apart by the byte value only
        return vec![(session as u8) ^ 0x40; size];
    }
    let mut p = vec![];
    p.extend_from_slice(&session.to_be_bytes());
    p.extend_from_slice(&seq.to_be_bytes());
    p.push(if slow { 0xEE } else { 0x11 });
    p.extend_from_slice(&vcore::payload(((session as u64) << 32) | seq as u64, size - 9));
    p
}

pub async fn run_case(fx: &Fx, c: &Case, base_tag: u32) -> Result<(bool, serde_json::Value), Failure> {
    // per-path maximum payload: the SOCKS5 / RPFM headers must fit into one UDP datagram / one frame
    for o in &fx.origins {
        o.received.lock().unwrap().clear();
    }
    let mut conns: Vec<Option<Conn>> = vec![];
    let mut path_names = vec![];
    for s in &c.sessions {
        let path = format!("{}+{}", LISTENERS[(s.listener % 3) as usize], CONNECTORS[(s.connector % 5) as usize]);
        path_names.push(path.clone());
        match open(fx, s).await {
            Ok(cn) => conns.push(Some(cn)),
            Err(e) => return Err(Failure::new(format!("session-not-opened:{}", path), format!("{}: {}", path, e))),
        }
    }
    // interleaved sends, a window of one datagram per session (send, then wait for its reply)
    let max_sends = c.sessions.iter().map(|s| s.sends.len()).max().unwrap_or(0);
    let mut sent: Vec<Vec<(usize, Vec<u8>)>> = vec![vec![]; c.sessions.len()]; // (origin idx, payload)
    let mut vanished = vec![false; c.sessions.len()];
    let mut hog_bytes = 0usize;
    // ---- hog sessions: flood without ever reading a reply until the tunnel backs up
    for (si, s) in c.sessions.iter().enumerate() {
        if !s.hog {
            continue;
        }
        if let Some(Conn::Inline { stream, .. }) = conns[si].as_mut() {
            let mut body = vec![0xFFu8; 1400];
            body[4] = 0x48; // 'H': not a tag any other session uses
            let frame = rc::encode_rpfm(&Rpfm { session: 0, addr: Some(dest_for(fx.origins[0].addr)), body }).unwrap();
            // paced, so that most of the flood (and its replies) really travels instead of being shed by a full
            // datagram queue
            let chunk: Vec<u8> = std::iter::repeat(frame.iter().cloned()).take(20).flatten().collect();
            let mut total = 0usize;
            loop {
                match tokio::time::timeout(Duration::from_millis(500), stream.write_all(&chunk)).await {
                    Ok(Ok(())) => total += chunk.len(),
                    _ => break,
                }
                tokio::time::sleep(Duration::from_millis(8)).await;
                if total > (16 << 20) {
                    break;
                }
            }
            hog_bytes += total;
        }
    }
    if hog_bytes > 0 {
        // let the backlog of the flood drain (or back up for good): the other sessions are judged against a
        // quiescent system, not against the throughput they would have to share with the flood
        let mut last = usize::MAX;
        let mut stable = 0;
        for _ in 0..240 {
            tokio::time::sleep(Duration::from_millis(500)).await;
            let now: usize = fx.origins.iter().map(|o| o.received.lock().unwrap().len()).sum();
            if now == last {
                stable += 1;
                if stable >= 3 {
                    break;
                }
            } else {
                stable = 0;
            }
            last = now;
        }
    }
    // ---- burst sessions: everything at once, replies judged as a multiset
    for (si, s) in c.sessions.iter().enumerate() {
        if !s.burst || s.hog {
            continue;
        }
        let lk = s.listener % 3;
        let path = path_names[si].clone();
        let mut wire = vec![];
        let mut want: HashMap<Vec<u8>, usize> = HashMap::new();
        for (round, (oi, sz)) in s.sends.iter().enumerate() {
            let oi = if lk == 1 { 0 } else { (*oi % 3) as usize };
            // small datagrams only: a burst of large ones may legitimately overflow a socket buffer
            let size = if *sz < 12 { [9usize, 100, 1199, 1200, 1201, 1472][(*sz as usize) % 6] } else { (*sz as usize).min(1472) };
            let p = payload_for(base_tag + si as u32, round as u32, size, false);
            sent[si].push((oi, p.clone()));
            let mut reply = vec![fx.origins[oi].tag];
            reply.extend_from_slice(&p);
            *want.entry(reply).or_insert(0) += 1;
            wire.push((fx.origins[oi].addr, p));
        }
        let conn = conns[si].as_mut().unwrap();
        if let Conn::Inline { stream, .. } = conn {
            let mut all = vec![];
            for (d, p) in &wire {
                all.extend(rc::encode_rpfm(&Rpfm { session: 0, addr: Some(dest_for(*d)), body: p.clone() }).unwrap());
            }
            stream.write_all(&all).await.map_err(|e| Failure::new(format!("send-failed:{}", path), e.to_string()))?;
        } else {
            for (d, p) in &wire {
                send(conn, *d, p).await.map_err(|e| Failure::new(format!("send-failed:{}", path), e))?;
            }
        }
        let mut got = 0usize;
        while got < wire.len() {
            match recv(conn, Duration::from_secs(4)).await {
                None => {
                    return Err(Failure::new(
                        format!("datagram-lost:{}:burst", path),
                        format!("{}: {} datagrams were sent back to back, only {} replies came back within 4 s (origins received {:?})", path, wire.len(), got, fx.origins.iter().map(|o| o.received.lock().unwrap().len()).collect::<Vec<_>>()),
                    ))
                }
                Some((_, body)) => match want.get_mut(&body) {
                    Some(n) if *n > 0 => {
                        *n -= 1;
                        got += 1;
                    }
                    _ => return Err(Failure::new(format!("reply-payload-differs:{}:burst", path), format!("{}: a reply of {} bytes (first {:02x?}) answers none of the outstanding datagrams of the burst", path, body.len(), &body[..body.len().min(12)]))),
                },
            }
        }
    }
    for round in 0..max_sends {
        for (si, s) in c.sessions.iter().enumerate() {
            if round >= s.sends.len() || vanished[si] || s.burst || s.hog {
                continue;
            }
            let (oi, sz) = s.sends[round];
            let lk = s.listener % 3;
            let oi = if lk == 1 { 0 } else { (oi % 3) as usize };
            let mut size = if sz < 12 { SIZES[sz as usize] } else { sz as usize };
            if lk == 0 {
                size = size.min(65507 - 10 - 1);
            }
            if lk == 1 {
                size = size.min(65507 - 1);
            }
            let last = round + 1 == s.sends.len();
            let slow = s.vanish && last && size >= 9;
            let p = payload_for(base_tag + si as u32, round as u32, size, slow);
            let path = &path_names[si];
            let conn = conns[si].as_mut().unwrap();
            if let Err(e) = send(conn, fx.origins[oi].addr, &p).await {
                return Err(Failure::new(format!("send-failed:{}", path), format!("{}: {}", path, e)));
            }
            sent[si].push((oi, p.clone()));
            if slow {
                // vanish while the (slow) reply is in flight - but only once the origin has the datagram: a client
                // that disappears before its datagram was relayed cannot expect it to be delivered
                let mut arrived = false;
                for _ in 0..200 {
                    if fx.origins[oi].received.lock().unwrap().iter().any(|(_, q)| *q == p) {
                        arrived = true;
                        break;
                    }
                    tokio::time::sleep(Duration::from_millis(20)).await;
                }
                if !arrived {
                    return Err(Failure::new(
                        format!("datagram-lost:{}:{}", path, if round == 0 { "first-of-session" } else if p.len() > 1200 { "large" } else { "later" }),
                        format!("{}: datagram #{} of the session ({} bytes to origin {}) did not reach the origin within 4 s (the client was still there)", path, round, p.len(), oi),
                    ));
                }
                conns[si] = None;
                vanished[si] = true;
                continue;
            }
            // the reply: origin tag ‖ payload, labelled with the origin's address where the path labels replies
            let want_len = p.len() + 1;
            let reply_fits = want_len + if lk == 0 { 10 } else { 0 } <= 65507;
            if !reply_fits {
                continue;
            }
            match recv(conn, Duration::from_secs(4)).await {
                None => {
                    let first = round == 0;
                    return Err(Failure::new(
                        format!("datagram-lost:{}:{}", path, if first { "first-of-session" } else if p.len() > 1200 { "large" } else { "later" }),
                        format!("{}: datagram #{} of the session ({} bytes to origin {}) was sent but no reply came back within 4 s; the origin received {} datagrams so far", path, round, p.len(), oi, fx.origins[oi].received.lock().unwrap().len()),
                    ));
                }
                Some((label, body)) => {
                    if body.len() != want_len || body[0] != fx.origins[oi].tag || body[1..] != p[..] {
                        let foreign = body.len() >= 5 && p.len() >= 9 && body[1..5] != p[..4];
                        return Err(Failure::new(
                            format!("{}:{}", if foreign { "reply-of-another-session" } else { "reply-payload-differs" }, path),
                            format!("{}: reply to datagram #{} has {} bytes (first {:02x?}), expected {} bytes from origin tag {:02x}", path, round, body.len(), &body[..body.len().min(12)], want_len, fx.origins[oi].tag),
                        ));
                    }
                    if let Some(l) = label {
                        if l.canon() != dest_for(fx.origins[oi].addr) {
                            return Err(Failure::new(format!("reply-label-wrong:{}", path), format!("{}: reply labelled as coming from {} but origin {} answered", path, l.render(), fx.origins[oi].addr)));
                        }
                    } else if lk != 1 {
                        return Err(Failure::new(format!("reply-label-missing:{}", path), format!("{}: reply carries no source address", path)));
                    }
                }
            }
        }
    }
    // let slow replies and their consequences settle
    if vanished.iter().any(|v| *v) {
        tokio::time::sleep(Duration::from_millis(700)).await;
    } else {
        tokio::time::sleep(Duration::from_millis(60)).await;
    }
    drop(conns);
    tokio::time::sleep(Duration::from_millis(100)).await;
    // ---- what the origins saw: exactly the multiset that was sent
    let mut expected: Vec<HashMap<Vec<u8>, usize>> = vec![HashMap::new(); fx.origins.len()];
    for s in &sent {
        for (oi, p) in s {
            *expected[*oi].entry(p.clone()).or_insert(0) += 1;
        }
    }
    for (oi, o) in fx.origins.iter().enumerate() {
        let got = o.received.lock().unwrap().clone();
        let mut seen: HashMap<Vec<u8>, usize> = HashMap::new();
        for (_, p) in &got {
            if p.len() == 1400 && p[..4] == [0xFF; 4] && p[4] == 0x48 {
                continue; // the flood of a hog session is not judged
            }
            *seen.entry(p.clone()).or_insert(0) += 1;
        }
        for (p, n) in &seen {
            let want = expected[oi].get(p).cloned().unwrap_or(0);
            if *n > want {
                let kind = if p.is_empty() { "phantom-empty-datagram" } else if want == 0 { "phantom-datagram" } else { "duplicated-datagram" };
                return Err(Failure::new(
                    format!("{}{}", kind, if vanished.iter().any(|v| *v) { ":after-client-vanished" } else { "" }),
                    format!("origin {} received a {}-byte datagram {} times, it was sent {} times (paths {:?})", oi, p.len(), n, want, path_names),
                ));
            }
        }
        for (p, n) in &expected[oi] {
            let have = seen.get(p).cloned().unwrap_or(0);
            if have < *n {
                return Err(Failure::new(
                    format!("datagram-never-reached-origin:{}", if p.len() > 1200 { "large" } else { "small" }),
                    format!("a {}-byte datagram sent {} times reached origin {} only {} times (paths {:?})", p.len(), n, oi, have, path_names),
                ));
            }
        }
    }
    let _ = hog_bytes;
    let nontrivial = c.sessions.len() >= 2 || c.sessions.iter().any(|s| s.vanish || s.burst && s.sends.len() >= 2) || sent.iter().flatten().any(|(_, p)| p.len() > 1200);
    Ok((nontrivial, json!({"paths": path_names, "datagrams": sent.iter().map(|s| s.iter().map(|(o, p)| (*o, p.len())).collect::<Vec<_>>()).collect::<Vec<_>>(), "vanished": vanished})))
}

pub struct UdpCheck;
impl SubCheck for UdpCheck {
    fn property(&self) -> &'static str {
        "C10"
    }
    fn name(&self) -> &'static str {
        "paths"
    }
    fn rule(&self) -> String {
        "two real proxies (A in front of B, B with socks / http / quic listeners): every UDP listener {SOCKS5 UDP ASSOCIATE with enforceUdpClient off/on, reverse-UDP, HTTP CONNECT with Proxy-Protocol: udp (RPFM frames inline)} x upstream {direct, socks5->B, http->B inline, QUIC datagrams->B, QUIC inline->B} once paced and once as a burst of six (enumerated), then generated cases of 1-5 concurrent sessions with 1-6 interleaved datagrams each to three tagging echo origins on 127.0.1.1-3, payload sizes from {0, 1, 8, 100, 1199, 1200, 1201, 1472, 4096, 9000, 30000, 65000} or arbitrary in 12..5000 (biased to 1100-1200 and 2250-2350), plus per pairing one paced session sweeping every size in 1120..1164, 2285..2304 and 1465..1474 (fragment boundaries), sessions that vanish while a slow reply is in flight, and burst sessions whose 1-6 datagrams (<= 1472 bytes) are sent back to back (inline: in one write) with the replies judged as a multiset, and hog sessions (HTTP-inline clients that send up to 16 MiB of paced datagrams with a 4 KiB receive buffer and never read a reply, so that their tunnel backs up) next to which the other sessions of the case must work as usual (enumerated once per shared upstream {http->B, quic-datagrams->B, quic-inline->B}, each on a fresh pair of proxies and judged after the flood's backlog has stopped moving); 600 concurrent sessions with one datagram each through the direct connector (upstream sockets on ephemeral ports must not cross their replies), 105 short sessions one after the other through each shared QUIC upstream with timeouts.udp = 300 s (more than its 100 concurrent streams: ended sessions must not hold a stream until they time out); oracle: every datagram (incl. the first of a session and multi-fragment ones) reaches the addressed origin exactly once with identical payload, every reply returns to the owning client labelled with the replying origin's address, no origin ever receives a datagram nobody sent (no phantom after a receive error); non-trivial = >= 2 interleaved sessions, a vanishing client, a burst of >= 2, or a payload above 1200 bytes".into()
    }
    fn run(&self, part: &mut Part) {
        let n = part.tier.pick(30, 700) as usize;
        let mut cases: Vec<Case> = vec![];
        for l in 0..3u8 {
            for cn in 0..5u8 {
                for enforce in [false, true] {
                    if enforce && l != 0 {
                        continue;
                    }
                    cases.push(Case { sessions: vec![SessionSpec { listener: l, connector: cn, sends: vec![(0, 3), (1, 5), (2, 8), (0, 9)], vanish: false, enforce_client: enforce, burst: false, hog: false }] });
                    cases.push(Case { sessions: vec![SessionSpec { listener: l, connector: cn, sends: vec![(0, 1), (1, 2), (2, 3), (0, 4), (1, 5), (2, 0)], vanish: false, enforce_client: enforce, burst: true, hog: false }] });
                    // every size around the first two fragment boundaries of a QUIC datagram (and of an Ethernet frame)
                    cases.push(Case { sessions: vec![SessionSpec { listener: l, connector: cn, sends: (1120u16..1165).chain(2285..2305).chain(1465..1475).map(|z| (0u8, z)).collect(), vanish: false, enforce_client: enforce, burst: false, hog: false }] });
                }
            }
        }
        // a client that floods and never reads next to an ordinary session on the same upstream
        let mut hog_cases: Vec<Case> = vec![];
        for cn in [2u8, 3, 4] {
            hog_cases.push(Case {
                sessions: vec![
                    SessionSpec { listener: 2, connector: cn, sends: vec![], vanish: false, enforce_client: false, burst: false, hog: true },
                    SessionSpec { listener: 0, connector: cn, sends: vec![(0, 3), (1, 4), (2, 1200), (0, 3)], vanish: false, enforce_client: false, burst: false, hog: false },
                ],
            });
        }
        cases.extend(part.draw("cases", n, &case_strategy()));
        if let Ok(k) = std::env::var("VERIF_C10_REPEAT_CONNECTOR") {
            // diagnosis aid: many sequential single-session cases through one connector on one fixture
            let cn: u8 = k.parse().unwrap_or(4);
            cases = (0..260).map(|i| Case { sessions: vec![SessionSpec { listener: (i % 3) as u8, connector: cn, sends: vec![(0, 3), (1, 4)], vanish: false, enforce_client: false, burst: false, hog: false }] }).collect();
            hog_cases.clear();
        }
        let rt = tokio::runtime::Builder::new_multi_thread().worker_threads(4).enable_all().build().unwrap();
        let results: Result<Vec<(Case, Result<(bool, serde_json::Value), Failure>)>, String> = rt.block_on(async {
            let fx = fixture().await?;
            let mut out = vec![];
            let mut tag = 1000u32;
            let slow_diag = std::env::var("VERIF_C10_REPEAT_GAP_MS").ok().and_then(|s| s.parse::<u64>().ok());
            for (ci, c) in cases.into_iter().enumerate() {
                let r = run_case(&fx, &c, tag).await;
                if let Some(ms) = slow_diag {
                    eprintln!("diag case {} -> {}", ci, if r.is_ok() { "ok".to_string() } else { r.as_ref().err().map(|f| f.key.clone()).unwrap_or_default() });
                    tokio::time::sleep(Duration::from_millis(ms)).await;
                }
                tag += 16;
                out.push((c, r));
            }
            let mut fx = fx;
            if !fx.a.alive() || !fx.b.alive() {
                return Err(format!("a proxy died: A: {} | B: {}", fx.a.log_tail(5), fx.b.log_tail(5)));
            }
            drop(fx);
            // many short sessions one after the other through a shared QUIC connection (more than its limit of
            // concurrent streams): every one must open and work - sessions that ended must not hold anything
            if std::env::var("VERIF_C10_REPEAT_CONNECTOR").is_err() {
                for cn in [3u8, 4] {
                    // a long udp idle timeout: a session that is not torn down when its client leaves stays for the whole scenario
                    let fx = fixture_with(300).await?;
                    for i in 0..105u32 {
                        let c = Case { sessions: vec![SessionSpec { listener: if i % 2 == 0 { 0 } else { 2 }, connector: cn, sends: vec![(0, 3)], vanish: false, enforce_client: false, burst: false, hog: false }] };
                        let r = run_case(&fx, &c, tag).await;
                        tag += 16;
                        let failed = r.is_err();
                        let r = r.map_err(|mut f| {
                            f.key = format!("after-{}-sequential-sessions:{}", if i >= 100 { "100+" } else if i >= 50 { "50+" } else { "few" }, f.key);
                            f.desc = format!("session #{} of 105 sequential short sessions through {}: {}", i, CONNECTORS[cn as usize], f.desc);
                            f
                        });
                        out.push((c, r));
                        if failed {
                            break;
                        }
                    }
                }
            }
            // very many concurrent sessions whose upstream sockets have ephemeral ports: each reply must come back
            // to its own session (two upstream sockets that share a port would cross their replies)
            if std::env::var("VERIF_C10_REPEAT_CONNECTOR").is_err() {
                let fx = fixture().await?;
                let c = Case { sessions: (0..600).map(|i| SessionSpec { listener: if i % 3 == 2 { 2 } else { 0 }, connector: 0, sends: vec![((i % 3) as u8, 3)], vanish: false, enforce_client: false, burst: false, hog: false }).collect() };
                let r = run_case(&fx, &c, tag).await.map_err(|mut f| {
                    f.key = format!("600-concurrent-sessions:{}", f.key);
                    f.desc = format!("600 concurrent sessions through the direct connector, one datagram each: {}", f.desc);
                    f
                });
                tag += 1024;
                out.push((c, r));
            }
            // the flooding clients: each on a fresh pair of proxies
            for c in hog_cases {
                let fx = fixture().await?;
                let r = run_case(&fx, &c, tag).await;
                tag += 16;
                out.push((c, r));
            }
            Ok(out)
        });
        let results = match results {
            Ok(r) => r,
            Err(e) => {
                part.note(format!("infrastructure: {}", e));
                part.extra.insert("infrastructure_error".into(), json!(e));
                return;
            }
        };
        for (c, r) in results {
            let mut info = CaseInfo::default();
            for s in &c.sessions {
                info.class(format!("{}+{}", LISTENERS[(s.listener % 3) as usize], CONNECTORS[(s.connector % 5) as usize]));
            }
            match r {
                Ok((nt, sample)) => {
                    info.nontrivial = nt;
                    if part.samples.len() < 3 {
                        info.sample = Some(sample);
                    }
                    part.account(vcore::digest_json(&c), info);
                }
                Err(f) => {
                    part.account(vcore::digest_json(&c), info);
                    part.record_failure(f, serde_json::to_value(&c).unwrap());
                }
            }
        }
    }
    fn replay(&self, case: &serde_json::Value) -> Result<(), Failure> {
        let c: Case = serde_json::from_value(case.clone()).map_err(|e| Failure::new("replay-decode", e.to_string()))?;
        let rt = tokio::runtime::Builder::new_multi_thread().worker_threads(4).enable_all().build().unwrap();
        rt.block_on(async {
            let fx = fixture().await.map_err(|e| Failure::new("fixture", e))?;
            run_case(&fx, &c, 5000).await.map(|_| ())
        })
    }
}

pub fn checks() -> Vec<Box<dyn SubCheck>> {
    vec![Box::new(UdpCheck)]
}
