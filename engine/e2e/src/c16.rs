//! C16(a) — every accepted connection is accounted for exactly once with a truthful record
//! (access log across rotations, bounded newest-first history, live table).
use crate::net::*;
use crate::tunnel::*;
use crate::world::*;
use proptest::prelude::*;
use serde::{Deserialize, Serialize};
use serde_json::json;
use std::collections::{HashMap, HashSet};
use std::net::SocketAddr;
use std::sync::Arc;
use std::time::{Duration, Instant};
use tokio::io::{AsyncReadExt, AsyncWriteExt};
use tokio::net::TcpStream;
use vcore::refcodec::{self as rc, Dest, Host};
use vcore::{CaseInfo, Failure, Part, SubCheck};

#[derive(Clone, Copy, Debug, PartialEq, Eq, Hash, Serialize, Deserialize)]
pub enum Kind {
    Tunnel,
    TunnelEarlyData,
    Denied,
    NoRule,
    UpstreamRefused,
    ClientAbort,
    OriginAbort,
    Garbage,
    DisconnectMidHandshake,
    UdpAssociate,
    /// bytes that are not a TLS ClientHello (or a stalled / truncated one) to a TLS listener: 0 or 1 record
    TlsHandshakeFails,
    /// a complete tunnel through a TLS listener (https or socks over TLS)
    TlsTunnel,
    /// a complete tunnel over a QUIC stream (quic listener)
    QuicTunnel,
    /// a QUIC stream that carries garbage / a truncated request and is finished
    QuicStreamGarbage,
    /// a reverse-UDP session: datagrams echoed, then ended by the 1 s udp idle timeout
    ReverseUdpSession,
}

#[derive(Clone, Debug, Serialize, Deserialize)]
pub struct Conn {
    pub kind: Kind,
    /// 0 http, 1 socks5, 2 socks4
    pub proto: u8,
    pub tag: u32,
    pub c2s: u32,
    pub s2c: u32,
    /// keep the tunnel open this long before closing (ms)
    pub hold_ms: u16,
}

#[derive(Clone, Debug, Serialize, Deserialize)]
pub struct Case {
    pub history_size: u8,
    pub splice: bool,
    pub conns: Vec<Conn>,
    /// rotate the log (rename + POST /logrotate) before these connection indexes
    pub rotations: Vec<u8>,
    pub concurrency: u8,
}

pub fn case_strategy() -> impl Strategy<Value = Case> {
    let kind = prop_oneof![
        4 => Just(Kind::Tunnel),
        3 => Just(Kind::TunnelEarlyData),
        2 => Just(Kind::Denied),
        1 => Just(Kind::NoRule),
        2 => Just(Kind::UpstreamRefused),
        2 => Just(Kind::ClientAbort),
        2 => Just(Kind::OriginAbort),
        2 => Just(Kind::Garbage),
        2 => Just(Kind::DisconnectMidHandshake),
        1 => Just(Kind::UdpAssociate),
        2 => Just(Kind::TlsHandshakeFails),
        2 => Just(Kind::TlsTunnel),
        2 => Just(Kind::QuicTunnel),
        1 => Just(Kind::QuicStreamGarbage),
        2 => Just(Kind::ReverseUdpSession),
    ];
    let conn = (kind, 0u8..3, any::<u32>(), prop_oneof![Just(0u32), 1u32..5000, 60_000u32..300_000], prop_oneof![Just(0u32), 1u32..5000, 60_000u32..300_000], prop_oneof![Just(0u16), 0u16..400]).prop_map(
        |(kind, proto, tag, c2s, s2c, hold_ms)| Conn { kind, proto, tag, c2s, s2c, hold_ms },
    );
    (prop_oneof![Just(0u8), Just(1), Just(3), Just(50)], any::<bool>(), prop::collection::vec(conn, 1..40), prop::collection::vec(any::<u8>(), 0..3), 1u8..16).prop_map(|(history_size, splice, conns, rotations, concurrency)| Case {
        history_size,
        splice,
        conns,
        rotations,
        concurrency,
    })
}

struct Fx {
    proxy: Proxy,
    http: u16,
    socks: u16,
    https: u16,
    sockstls: u16,
    quic: u16,
    revudp: u16,
    _udp_echo: tokio::task::JoinHandle<()>,
    api: u16,
    refused: u16,
}

async fn fixture(history: u8, splice: bool) -> Result<Fx, String> {
    let (http, socks, api, refused, https, sockstls) = (free_port(), free_port(), free_port(), free_port(), free_port(), free_port());
    let (quic, revudp) = (free_port(), free_port());
    let uecho = tokio::net::UdpSocket::bind("127.0.1.1:0").await.map_err(|e| e.to_string())?;
    let uecho_addr = uecho.local_addr().unwrap();
    let udp_echo = tokio::spawn(async move {
        let mut b = vec![0u8; 65536];
        while let Ok((n, from)) = uecho.recv_from(&mut b).await {
            let _ = uecho.send_to(&b[..n], from).await;
        }
    });
    let yaml = format!(
        r#"apiVersion: v1
kind: test
listeners:
  - name: http
    bind: 127.0.0.1:{http}
  - name: socks
    bind: 127.0.0.1:{socks}
  - name: https
    type: http
    bind: 127.0.0.1:{https}
    tls:
      cert: /verif/pki/server.crt
      key: /verif/pki/server.key
  - name: sockstls
    type: socks
    bind: 127.0.0.1:{sockstls}
    tls:
      cert: /verif/pki/server.crt
      key: /verif/pki/server.key
  - name: quic
    bind: 127.0.0.1:{quic}
    tls:
      cert: /verif/pki/server.crt
      key: /verif/pki/server.key
  - name: revudp
    type: reverse
    protocol: udp
    bind: 127.0.0.1:{revudp}
    target: {uecho}
connectors:
  - name: direct
rules:
  - filter: request.target.host == "127.0.1.3"
    target: deny
  - filter: request.target.host == "127.0.1.1" || request.target.host == "127.0.1.2" || request.feature == "UdpForward"
    target: direct
metrics:
  bind: 127.0.0.1:{api}
  historySize: {history}
accessLog:
  path: access.log
  format: json
timeouts:
  idle: 600
  udp: 1
ioParams:
  bufferSize: 4096
  useSplice: {splice}
"#,
        http = http,
        socks = socks,
        https = https,
        sockstls = sockstls,
        quic = quic,
        revudp = revudp,
        uecho = uecho_addr,
        api = api,
        history = history,
        splice = splice
    );
    let proxy = tokio::task::spawn_blocking(move || Proxy::start("c16", &yaml, &[http, socks, api], Some(api))).await.map_err(|e| e.to_string())??;
    Ok(Fx { proxy, http, socks, https, sockstls, quic, revudp, _udp_echo: udp_echo, api, refused })
}

async fn handshake(proto: u8, s: &mut TcpStream, d: Dest, early: Vec<u8>, dur: Duration) -> Reply {
    match proto {
        0 => http_connect(s, &d.authority(), &[], &early, dur).await,
        1 => socks5_connect(s, &d, None, 1, &early, dur).await,
        _ => socks4_connect(s, &d, b"u", 1, &early, dur).await,
    }
}

#[derive(Clone, Debug)]
struct Expect {
    source: SocketAddr,
    listener: &'static str,
    kind: Kind,
    /// expected target string, if the request got that far
    target: Option<String>,
    connector: Option<&'static str>,
    /// Some((c2s, s2c)) for cleanly finished tunnels
    bytes: Option<(u64, u64)>,
    terminal: &'static str,
    accepted: bool,
    ended_at: Instant,
    seen_live: Option<bool>,
}

async fn one_conn(fx: &Fx, c: &Conn, idx: usize) -> Result<Expect, String> {
    let dur = Duration::from_secs(10);
    let via_http = c.proto % 3 == 0 && c.kind != Kind::UdpAssociate;
    let tls_kind = matches!(c.kind, Kind::TlsHandshakeFails | Kind::TlsTunnel);
    let listener = match (tls_kind, via_http) {
        (true, true) => "https",
        (true, false) => "sockstls",
        (false, true) => "http",
        (false, false) => "socks",
    };
    let port = match listener {
        "https" => fx.https,
        "sockstls" => fx.sockstls,
        "http" => fx.http,
        _ => fx.socks,
    };
    if matches!(c.kind, Kind::QuicTunnel | Kind::QuicStreamGarbage | Kind::ReverseUdpSession) {
        return one_datagram_based(fx, c, idx).await;
    }
    let src = SocketAddr::from(([127, 0, 0, 1], free_port()));
    let mut s = connect_from(Some(src), lo(port)).await.map_err(|e| format!("connect #{}: {}", idx, e))?;
    let mut e = Expect {
        source: src,
        listener,
        kind: c.kind,
        target: None,
        connector: None,
        bytes: None,
        terminal: "ErrorOccured",
        accepted: true,
        ended_at: Instant::now(),
        seen_live: None,
    };
    let proto = c.proto % 3;
    match c.kind {
        Kind::Tunnel | Kind::TunnelEarlyData | Kind::ClientAbort | Kind::OriginAbort => {
            // own origin per connection
            let l = tokio::net::TcpListener::bind("0.0.0.0:0").await.map_err(|e| e.to_string())?;
            let oport = l.local_addr().unwrap().port();
            let d = Dest { host: Host::V4([127, 0, 1, 1]), port: oport };
            e.target = Some(d.render());
            e.connector = Some("direct");
            let c2s = vcore::payload(c.tag as u64, c.c2s as usize);
            let s2c = vcore::payload(c.tag as u64 ^ 77, c.s2c as usize);
            let s2c_o = s2c.clone();
            let c2s_len = c2s.len();
            let kind = c.kind;
            // the aborting origin waits until the harness has looked at /api/live (otherwise the tunnel may
            // legitimately be gone before the query is answered)
            let (go_tx, go_rx) = tokio::sync::oneshot::channel::<()>();
            let mut go_tx = Some(go_tx);
            let origin = tokio::spawn(async move {
                let (mut os, _) = match tokio::time::timeout(Duration::from_secs(10), l.accept()).await {
                    Ok(Ok(x)) => x,
                    _ => return 0usize,
                };
                if kind == Kind::OriginAbort {
                    let _ = os.write_all(&s2c_o[..s2c_o.len() / 2]).await;
                    let _ = tokio::time::timeout(Duration::from_secs(8), go_rx).await;
                    tokio::time::sleep(Duration::from_millis(30)).await;
                    let _ = socket2::SockRef::from(&os).set_linger(Some(Duration::from_secs(0)));
                    return 0;
                }
                let (mut r, mut w) = os.split();
                let wr = async {
                    let _ = w.write_all(&s2c_o).await;
                    let _ = w.shutdown().await;
                };
                let rd = async {
                    let mut got = 0usize;
                    let mut b = vec![0u8; 65536];
                    loop {
                        match r.read(&mut b).await {
                            Ok(0) | Err(_) => break,
                            Ok(n) => got += n,
                        }
                    }
                    got
                };
                let (_, got) = tokio::join!(wr, rd);
                got
            });
            let early = if c.kind == Kind::TunnelEarlyData { c2s[..c2s.len().min(700)].to_vec() } else { vec![] };
            let n_early = early.len();
            match handshake(proto, &mut s, d, early, dur).await {
                Reply::Ok { leftover } => {
                    // live while open?
                    if let Ok((_, v)) = api_json(fx.api, "GET", "/api/live", None, dur).await {
                        e.seen_live = Some(v.as_array().map(|a| a.iter().any(|x| x["source"].as_str() == Some(&src.to_string()))).unwrap_or(false));
                    }
                    if let Some(tx) = go_tx.take() {
                        let _ = tx.send(());
                    }
                    match c.kind {
                        Kind::ClientAbort => {
                            let _ = s.write_all(&c2s[n_early..c2s.len() / 2 + n_early.min(c2s.len() / 2)]).await;
                            tokio::time::sleep(Duration::from_millis(c.hold_ms as u64)).await;
                            let _ = socket2::SockRef::from(&s).set_linger(Some(Duration::from_secs(0)));
                            drop(s);
                            let _ = origin.await;
                            // either side of an abort may be recorded as an error or as a plain end
                            e.terminal = "any";
                        }
                        Kind::OriginAbort => {
                            let mut sink = vec![0u8; 65536];
                            loop {
                                match tokio::time::timeout(Duration::from_secs(5), s.read(&mut sink)).await {
                                    Ok(Ok(n)) if n > 0 => continue,
                                    _ => break,
                                }
                            }
                            drop(s);
                            let _ = origin.await;
                            e.terminal = "any";
                        }
                        _ => {
                            let (mut r, mut w) = s.split();
                            let wr = async {
                                let _ = w.write_all(&c2s[n_early..]).await;
                                tokio::time::sleep(Duration::from_millis(c.hold_ms as u64)).await;
                                let _ = w.shutdown().await;
                            };
                            let rd = async {
                                let mut got = leftover.len();
                                let mut b = vec![0u8; 65536];
                                loop {
                                    match tokio::time::timeout(Duration::from_secs(15), r.read(&mut b)).await {
                                        Ok(Ok(n)) if n > 0 => got += n,
                                        _ => break,
                                    }
                                }
                                got
                            };
                            let (_, cgot) = tokio::join!(wr, rd);
                            let ogot = origin.await.unwrap_or(0);
                            if ogot != c2s_len || cgot != s2c.len() {
                                return Err(format!("tunnel #{} relayed {}/{} and {}/{} bytes (C01's business, cannot judge the counters)", idx, ogot, c2s_len, cgot, s2c.len()));
                            }
                            e.bytes = Some((c2s_len as u64, s2c.len() as u64));
                            e.terminal = "Terminated";
                        }
                    }
                }
                other => return Err(format!("tunnel #{} not established: {:?}", idx, other)),
            }
        }
        Kind::TlsHandshakeFails => {
            // what a confused or hostile peer sends instead of a handshake; the proxy may or may not log it
            let junk: Vec<u8> = match c.tag % 4 {
                0 => b"CONNECT 127.0.1.1:80 HTTP/1.1\r\n\r\n".to_vec(),
                1 => vec![0x16, 0x03, 0x01, 0x02, 0x00, 0x01, 0x00, 0x01, 0xfc, 0x03, 0x03, 1, 2, 3],
                2 => vec![5, 1, 0, 5, 1, 0, 1, 127, 0, 1, 1, 0, 80],
                _ => vec![],
            };
            let _ = s.write_all(&junk).await;
            if c.tag % 2 == 0 {
                let _ = read_to_end_within(&mut s, Duration::from_millis(500 + c.hold_ms as u64)).await;
            } else {
                tokio::time::sleep(Duration::from_millis(c.hold_ms as u64)).await;
            }
            drop(s);
            e.terminal = "ErrorOccured";
            e.ended_at = Instant::now();
            return Ok(e);
        }
        Kind::TlsTunnel => {
            let l = tokio::net::TcpListener::bind("0.0.0.0:0").await.map_err(|e| e.to_string())?;
            let oport = l.local_addr().unwrap().port();
            let d = Dest { host: Host::V4([127, 0, 1, 1]), port: oport };
            e.target = Some(d.render());
            e.connector = Some("direct");
            let c2s = vcore::payload(c.tag as u64, c.c2s as usize);
            let s2c = vcore::payload(c.tag as u64 ^ 77, c.s2c as usize);
            let s2c_o = s2c.clone();
            let origin = tokio::spawn(async move {
                let (mut os, _) = match tokio::time::timeout(Duration::from_secs(10), l.accept()).await {
                    Ok(Ok(x)) => x,
                    _ => return 0usize,
                };
                let mut got = 0usize;
                let mut b = vec![0u8; 65536];
                loop {
                    match os.read(&mut b).await {
                        Ok(0) | Err(_) => break,
                        Ok(n) => got += n,
                    }
                }
                let _ = os.write_all(&s2c_o).await;
                let _ = os.shutdown().await;
                got
            });
            let cx = tokio_rustls::TlsConnector::from(crate::tlsutil::client_config("ca.crt", None, None));
            let mut t = cx.connect(crate::tlsutil::server_name(), s).await.map_err(|e| format!("tls #{}: {}", idx, e))?;
            let r = if via_http { http_connect(&mut t, &d.authority(), &[], &[], dur).await } else { socks5_connect(&mut t, &d, None, 1, &[], dur).await };
            let leftover = match r {
                Reply::Ok { leftover } => leftover,
                other => return Err(format!("tls tunnel #{} not established: {:?}", idx, other)),
            };
            t.write_all(&c2s).await.map_err(|e| e.to_string())?;
            t.shutdown().await.map_err(|e| e.to_string())?;
            let mut got = leftover.len();
            let mut b = vec![0u8; 65536];
            loop {
                match tokio::time::timeout(Duration::from_secs(15), t.read(&mut b)).await {
                    Ok(Ok(n)) if n > 0 => got += n,
                    _ => break,
                }
            }
            let ogot = origin.await.unwrap_or(0);
            if ogot != c2s.len() || got != s2c.len() {
                return Err(format!("tls tunnel #{} relayed {}/{} and {}/{} bytes (C01's business, cannot judge the counters)", idx, ogot, c2s.len(), got, s2c.len()));
            }
            e.bytes = Some((c2s.len() as u64, s2c.len() as u64));
            e.terminal = "Terminated";
            e.ended_at = Instant::now();
            return Ok(e);
        }
        Kind::QuicTunnel | Kind::QuicStreamGarbage | Kind::ReverseUdpSession => unreachable!("handled by one_datagram_based"),
        Kind::Denied | Kind::NoRule | Kind::UpstreamRefused => {
            let (ip, port) = match c.kind {
                Kind::Denied => ([127, 0, 1, 3], 80),
                Kind::NoRule => ([127, 0, 1, 9], 80),
                _ => ([127, 0, 1, 2], fx.refused),
            };
            let d = Dest { host: Host::V4(ip), port };
            e.target = Some(d.render());
            e.connector = if c.kind == Kind::UpstreamRefused { Some("direct") } else { None };
            let _ = handshake(proto, &mut s, d, vec![], dur).await;
            let _ = read_to_end_within(&mut s, Duration::from_secs(3)).await;
        }
        Kind::Garbage => {
            let junk: Vec<u8> = if c.proto % 3 == 0 { b"\x16\x03\x01 this is not http\r\n\r\n".to_vec() } else { vec![9, 9, 9, 9, 9, 9, 9, 9, 9, 9] };
            let _ = s.write_all(&junk).await;
            let _ = read_to_end_within(&mut s, Duration::from_secs(3)).await;
        }
        Kind::DisconnectMidHandshake => {
            let d = Dest { host: Host::V4([127, 0, 1, 1]), port: 80 };
            let msg = match c.proto % 3 {
                0 => rc::encode_connect(&d.authority(), &[]),
                1 => [rc::encode_socks5_greeting(&[0]), rc::encode_socks5_request(1, &d).unwrap()].concat(),
                _ => rc::encode_socks4(1, &d, b"someone").unwrap(),
            };
            let k = 1 + (c.tag as usize % (msg.len() - 1));
            let _ = s.write_all(&msg[..k]).await;
            tokio::time::sleep(Duration::from_millis(20)).await;
            drop(s);
        }
        Kind::UdpAssociate => {
            // always through the socks listener (selected above)
            let any = Dest { host: Host::V4([0, 0, 0, 0]), port: 0 };
            let mut msg = rc::encode_socks5_greeting(&[0]);
            msg.extend_from_slice(&rc::encode_socks5_request(3, &any).unwrap());
            let _ = s.write_all(&msg).await;
            let mut buf = vec![];
            let _ = read_until(&mut s, &mut buf, |b| if b.len() >= 2 { rc::parse_socks5_msg(&b[2..]).map(|m| m.consumed + 2) } else { None }, dur).await;
            e.connector = Some("direct");
            e.target = Some("0.0.0.0:0".into());
            // hold the control connection past the 1 s udp idle timeout
            let _ = read_to_end_within(&mut s, Duration::from_secs(4)).await;
            e.terminal = "ErrorOccured";
        }
    }
    e.ended_at = Instant::now();
    Ok(e)
}

/// connections whose client leg is not a TCP socket: QUIC streams and reverse-UDP sessions
async fn one_datagram_based(fx: &Fx, c: &Conn, idx: usize) -> Result<Expect, String> {
    let dur = Duration::from_secs(10);
    let mut e = Expect {
        source: "127.0.0.1:0".parse().unwrap(),
        listener: if c.kind == Kind::ReverseUdpSession { "revudp" } else { "quic" },
        kind: c.kind,
        target: None,
        connector: None,
        bytes: None,
        terminal: "ErrorOccured",
        accepted: true,
        ended_at: Instant::now(),
        seen_live: None,
    };
    if c.kind == Kind::ReverseUdpSession {
        let u = tokio::net::UdpSocket::bind("127.0.0.1:0").await.map_err(|e| e.to_string())?;
        e.source = u.local_addr().unwrap();
        e.connector = Some("direct");
        let n = 1 + (c.tag % 4) as usize;
        let mut b = vec![0u8; 2048];
        let mut sent = 0u64;
        for i in 0..n {
            let p = vcore::payload(c.tag as u64 + i as u64, 1 + (c.c2s as usize % 1200));
            u.send_to(&p, lo(fx.revudp)).await.map_err(|e| e.to_string())?;
            sent += p.len() as u64;
            match tokio::time::timeout(Duration::from_secs(3), u.recv_from(&mut b)).await {
                Ok(Ok((m, _))) if m == p.len() => {}
                other => return Err(format!("reverse-udp #{}: datagram {} not echoed ({:?}) - C10's business", idx, i, other.map(|r| r.map(|x| x.0)))),
            }
        }
        // the session ends by its 1 s idle timeout: an idle timeout is recorded as an error
        let last_io = Instant::now();
        tokio::time::sleep(Duration::from_millis(2500)).await;
        e.bytes = Some((sent, sent));
        e.terminal = "any";
        // a lower bound of the real end (the history check reasons with "ended after ..."): not before the timeout
        e.ended_at = last_io + Duration::from_secs(1);
        return Ok(e);
    }
    let ep = crate::tlsutil::quic_client("ca.crt", None);
    e.source = ep.local_addr().map_err(|e| e.to_string())?;
    let conn = tokio::time::timeout(dur, ep.connect(lo(fx.quic), "localhost").map_err(|e| e.to_string())?).await.map_err(|_| format!("quic #{}: handshake timeout", idx))?.map_err(|e| e.to_string())?;
    let (mut w, mut r) = conn.open_bi().await.map_err(|e| e.to_string())?;
    if c.kind == Kind::QuicStreamGarbage {
        let junk: Vec<u8> = match c.tag % 3 {
            0 => b"GET / HTTP/1.1\r\n\r\n".to_vec(),
            1 => b"CONNECT 127.0.1.1:80 HTT".to_vec(),
            _ => vec![0xff; 64],
        };
        let _ = w.write_all(&junk).await;
        let _ = w.finish().await;
        let mut b = [0u8; 512];
        let _ = tokio::time::timeout(Duration::from_secs(2), r.read(&mut b)).await;
        conn.close(0u32.into(), b"");
        e.terminal = "ErrorOccured";
        e.ended_at = Instant::now();
        return Ok(e);
    }
    // QuicTunnel
    let l = tokio::net::TcpListener::bind("0.0.0.0:0").await.map_err(|e| e.to_string())?;
    let oport = l.local_addr().unwrap().port();
    let d = Dest { host: Host::V4([127, 0, 1, 1]), port: oport };
    e.target = Some(d.render());
    e.connector = Some("direct");
    let c2s = vcore::payload(c.tag as u64, c.c2s as usize);
    let s2c = vcore::payload(c.tag as u64 ^ 77, c.s2c as usize);
    let s2c_o = s2c.clone();
    let origin = tokio::spawn(async move {
        let (mut os, _) = match tokio::time::timeout(Duration::from_secs(10), l.accept()).await {
            Ok(Ok(x)) => x,
            _ => return 0usize,
        };
        let mut got = 0usize;
        let mut b = vec![0u8; 65536];
        loop {
            match os.read(&mut b).await {
                Ok(0) | Err(_) => break,
                Ok(n) => got += n,
            }
        }
        let _ = os.write_all(&s2c_o).await;
        let _ = os.shutdown().await;
        got
    });
    let t = d.authority();
    w.write_all(&rc::encode_connect(&t, &[(b"Host".to_vec(), t.clone())])).await.map_err(|e| e.to_string())?;
    let mut buf = vec![];
    let mut tmp = [0u8; 4096];
    let consumed = loop {
        if let Some(h) = rc::parse_http_head(&buf, true) {
            if h.start.1 != b"200" {
                return Err(format!("quic tunnel #{} refused", idx));
            }
            break h.consumed;
        }
        match tokio::time::timeout(dur, r.read(&mut tmp)).await {
            Ok(Ok(Some(n))) if n > 0 => buf.extend_from_slice(&tmp[..n]),
            _ => return Err(format!("quic tunnel #{}: no reply", idx)),
        }
    };
    w.write_all(&c2s).await.map_err(|e| e.to_string())?;
    w.finish().await.map_err(|e| e.to_string())?;
    let mut got = buf.len() - consumed;
    loop {
        match tokio::time::timeout(Duration::from_secs(15), r.read(&mut tmp)).await {
            Ok(Ok(Some(n))) if n > 0 => got += n,
            _ => break,
        }
    }
    let ogot = origin.await.unwrap_or(0);
    conn.close(0u32.into(), b"");
    if ogot != c2s.len() || got != s2c.len() {
        return Err(format!("quic tunnel #{} relayed {}/{} and {}/{} bytes (C01's business, cannot judge the counters)", idx, ogot, c2s.len(), got, s2c.len()));
    }
    e.bytes = Some((c2s.len() as u64, s2c.len() as u64));
    e.terminal = "Terminated";
    e.ended_at = Instant::now();
    Ok(e)
}

fn states_of(rec: &serde_json::Value) -> Vec<String> {
    rec["state"].as_array().map(|a| a.iter().map(|s| s["state"].as_str().unwrap_or("?").to_string()).collect()).unwrap_or_default()
}

fn lifecycle_ok(st: &[String]) -> bool {
    // ClientConnected (ClientRequested (ServerConnecting (Connected (ClientShutdown|ServerShutdown){0,2})?)?)? (Terminated|ErrorOccured)
    let order = ["ClientConnected", "ClientRequested", "ServerConnecting", "Connected"];
    if st.is_empty() {
        return false;
    }
    let last = st.last().unwrap();
    if last != "Terminated" && last != "ErrorOccured" {
        return false;
    }
    let body = &st[..st.len() - 1];
    let mut i = 0;
    while i < body.len() && i < 4 && body[i] == order[i] {
        i += 1;
    }
    if i == 0 {
        return false;
    }
    let rest = &body[i..];
    if rest.is_empty() {
        return true;
    }
    if i < 4 {
        return false;
    }
    rest.len() <= 2 && rest.iter().all(|s| s == "ClientShutdown" || s == "ServerShutdown") && (rest.len() < 2 || rest[0] != rest[1])
}

pub async fn run_case(c: &Case) -> Result<(bool, serde_json::Value), Failure> {
    let dur = Duration::from_secs(10);
    let fx = Arc::new(fixture(c.history_size, c.splice).await.map_err(|e| Failure::new("infrastructure", e))?);
    let sem = Arc::new(tokio::sync::Semaphore::new(c.concurrency.max(1) as usize));
    let rot_at: HashSet<usize> = c.rotations.iter().map(|r| *r as usize % c.conns.len().max(1)).collect();
    let mut log_files = vec![fx.proxy.path("access.log")];
    let mut handles = vec![];
    let mut rotated = 0;
    for (i, conn) in c.conns.iter().cloned().enumerate() {
        if rot_at.contains(&i) {
            rotated += 1;
            let to = fx.proxy.path(&format!("access.log.{}", rotated));
            let _ = std::fs::rename(fx.proxy.path("access.log"), &to);
            log_files.push(to);
            let _ = api(fx.api, "POST", "/api/logrotate", Some(b""), dur).await;
        }
        let fx = fx.clone();
        let sem = sem.clone();
        handles.push(tokio::spawn(async move {
            let _p = sem.acquire_owned().await;
            one_conn(&fx, &conn, i).await
        }));
    }
    let mut expects = vec![];
    for h in handles {
        match h.await {
            Ok(Ok(e)) => expects.push(e),
            Ok(Err(e)) => return Err(Failure::new("infrastructure", e)),
            Err(e) => return Err(Failure::new("infrastructure", e.to_string())),
        }
    }
    // the collector runs once per second: wait for more than two periods, then flush the writer by rotating
    tokio::time::sleep(Duration::from_millis(2600)).await;
    let (_, live) = api_json(fx.api, "GET", "/api/live", None, dur).await.map_err(|e| Failure::new("infrastructure", e))?;
    let (_, history) = api_json(fx.api, "GET", "/api/history", None, dur).await.map_err(|e| Failure::new("infrastructure", e))?;
    let fin = fx.proxy.path("access.log.final");
    let _ = std::fs::rename(fx.proxy.path("access.log"), &fin);
    log_files.push(fin);
    let _ = api(fx.api, "POST", "/api/logrotate", Some(b""), dur).await;
    tokio::time::sleep(Duration::from_millis(300)).await;
    log_files.push(fx.proxy.path("access.log"));
    let mut records: Vec<serde_json::Value> = vec![];
    for f in &log_files {
        if let Ok(s) = std::fs::read_to_string(f) {
            for line in s.lines() {
                let line = line.trim();
                if line.is_empty() {
                    continue;
                }
                match serde_json::from_str::<serde_json::Value>(line) {
                    Ok(v) => records.push(v),
                    Err(_) => return Err(Failure::new("log-line-not-json", format!("access log line is not JSON: {:?}", &line[..line.len().min(120)]))),
                }
            }
        }
    }
    let mut by_source: HashMap<String, Vec<&serde_json::Value>> = HashMap::new();
    for r in &records {
        by_source.entry(r["source"].as_str().unwrap_or("?").to_string()).or_default().push(r);
    }
    let mut ids = HashSet::new();
    for r in &records {
        if !ids.insert(r["id"].as_u64().unwrap_or(u64::MAX)) {
            return Err(Failure::new("duplicate-id-in-log", format!("id {} appears more than once in the access log ({} rotations)", r["id"], rotated)));
        }
    }
    let kinds: HashSet<Kind> = expects.iter().map(|e| e.kind).collect();
    for e in &expects {
        let recs = by_source.get(&e.source.to_string()).cloned().unwrap_or_default();
        let k = format!("{:?}", e.kind);
        if e.kind == Kind::TlsHandshakeFails && recs.is_empty() {
            // a connection that never got through the TLS handshake need not be recorded; if it is, the record
            // must be a complete one (checked below)
            continue;
        }
        if recs.len() != 1 {
            return Err(Failure::new(
                format!("{}:{}", if recs.is_empty() { "missing-from-log" } else { "logged-more-than-once" }, k),
                format!("connection from {} ({:?} via {}) has {} access log records (history size {}, {} rotations during traffic)", e.source, e.kind, e.listener, recs.len(), c.history_size, rotated),
            ));
        }
        let r = recs[0];
        if r["listener"].as_str() != Some(e.listener) {
            return Err(Failure::new(format!("wrong-listener:{}", k), format!("record of {} says listener {:?}, it came through {}", e.source, r["listener"], e.listener)));
        }
        if let Some(t) = &e.target {
            if matches!(e.kind, Kind::Tunnel | Kind::TunnelEarlyData | Kind::Denied | Kind::NoRule | Kind::UpstreamRefused | Kind::ClientAbort | Kind::OriginAbort) && r["target"].as_str() != Some(t) {
                return Err(Failure::new(format!("wrong-target:{}", k), format!("record of {} says target {:?}, the client asked for {}", e.source, r["target"], t)));
            }
        }
        if matches!(e.kind, Kind::Tunnel | Kind::TunnelEarlyData | Kind::UpstreamRefused | Kind::Denied | Kind::NoRule) {
            let got = r["connector"].as_str();
            if got != e.connector {
                return Err(Failure::new(format!("wrong-connector:{}", k), format!("record of {} says connector {:?}, expected {:?}", e.source, got, e.connector)));
            }
        }
        let st = states_of(r);
        if !lifecycle_ok(&st) {
            let terminals = st.iter().filter(|s| *s == "Terminated" || *s == "ErrorOccured").count();
            return Err(Failure::new(
                format!("{}:{}", if terminals == 0 { "no-terminal-state" } else { "state-log" }, k),
                format!("record of {} ({:?} via {}): state log {:?} does not follow the lifecycle / end in exactly one terminal state", e.source, e.kind, e.listener, st),
            ));
        }
        let last = st.last().unwrap().as_str();
        if e.terminal != "any" && last != e.terminal {
            return Err(Failure::new(format!("wrong-terminal-state:{}", k), format!("record of {} ({:?}) ends in {}, expected {}; error = {:?}", e.source, e.kind, last, e.terminal, r["error"])));
        }
        let has_err = r["error"].as_str().map(|s| !s.is_empty()).unwrap_or(false);
        if (last == "ErrorOccured") != has_err {
            return Err(Failure::new(format!("error-text:{}", k), format!("record of {} ends in {} but error = {:?}", e.source, last, r["error"])));
        }
        if let Some((c2s, s2c)) = e.bytes {
            let cb = r["client_stat"]["read_bytes"].as_u64();
            let sb = r["server_stat"]["read_bytes"].as_u64();
            if cb != Some(c2s) || sb != Some(s2c) {
                return Err(Failure::new(
                    format!("counters:{}:{}", k, if c.splice { "splice" } else { "buffered" }),
                    format!("record of {}: client_stat.read_bytes={:?} server_stat.read_bytes={:?}, relayed {} / {} bytes", e.source, cb, sb, c2s, s2c),
                ));
            }
        }
        if e.seen_live == Some(false) {
            return Err(Failure::new(format!("not-live-while-open:{}", k), format!("the open tunnel from {} was not listed in /api/live", e.source)));
        }
    }
    // nothing is live any more
    let still: Vec<String> = live.as_array().map(|a| a.iter().filter_map(|x| x["source"].as_str().map(|s| s.to_string())).filter(|s| expects.iter().any(|e| &e.source.to_string() == s)).collect()).unwrap_or_default();
    if !still.is_empty() {
        return Err(Failure::new("live-after-end", format!("connections that ended more than 2.5 s ago are still listed in /api/live: {:?}", still)));
    }
    // history: bounded, only ended connections of this run, newest first (where ends are far enough apart)
    let hist = history.as_array().cloned().unwrap_or_default();
    if hist.len() > c.history_size as usize {
        return Err(Failure::new("history-too-long", format!("historySize {} but /api/history has {} entries", c.history_size, hist.len())));
    }
    let want_len = (c.history_size as usize).min(records.len());
    if hist.len() < want_len {
        return Err(Failure::new("history-too-short", format!("{} connections ended, historySize {}, but /api/history has only {} entries", records.len(), c.history_size, hist.len())));
    }
    let end_of: HashMap<String, Instant> = expects.iter().map(|e| (e.source.to_string(), e.ended_at)).collect();
    let mut seen = HashSet::new();
    for h in &hist {
        if !seen.insert(h["id"].as_u64()) {
            return Err(Failure::new("history-duplicate", format!("id {:?} twice in /api/history", h["id"])));
        }
    }
    for w in hist.windows(2) {
        if let (Some(a), Some(b)) = (w[0]["source"].as_str().and_then(|s| end_of.get(s)), w[1]["source"].as_str().and_then(|s| end_of.get(s))) {
            // w[0] must be newer; tolerate the collector's 1 s batching
            if *b > *a + Duration::from_millis(1500) {
                return Err(Failure::new("history-order", "an older entry precedes a newer one in /api/history (ends more than 1.5 s apart)".to_string()));
            }
        }
    }
    // the entries are the most recently ended ones: everything that ended more than 1.5 s after the oldest entry must be present
    if !hist.is_empty() && hist.len() == c.history_size as usize {
        let in_hist: HashSet<String> = hist.iter().filter_map(|h| h["source"].as_str().map(|s| s.to_string())).collect();
        let oldest = hist.iter().filter_map(|h| h["source"].as_str().and_then(|s| end_of.get(s))).min();
        if let Some(oldest) = oldest {
            for e in &expects {
                // (a peer that never completed the TLS handshake need not have a record at all)
                if e.kind != Kind::TlsHandshakeFails && e.ended_at > *oldest + Duration::from_millis(1500) && !in_hist.contains(&e.source.to_string()) {
                    return Err(Failure::new("history-not-most-recent", format!("{} ended well after the oldest history entry but is not in /api/history", e.source)));
                }
            }
        }
    }
    let mut fx2 = Arc::try_unwrap(fx).ok();
    if let Some(f) = fx2.as_mut() {
        if !f.proxy.alive() {
            return Err(Failure::new("proxy-died", f.proxy.log_tail(8)));
        }
    }
    let nontrivial = kinds.len() >= 3 || rotated > 0 || (c.history_size as usize) < expects.len();
    Ok((nontrivial, json!({"connections": expects.len(), "kinds": kinds.iter().map(|k| format!("{:?}", k)).collect::<Vec<_>>(), "rotations": rotated, "history_size": c.history_size, "splice": c.splice, "log_records": records.len()})))
}

pub struct HistoriesCheck;
impl SubCheck for HistoriesCheck {
    fn property(&self) -> &'static str {
        "C16"
    }
    fn name(&self) -> &'static str {
        "histories"
    }
    fn rule(&self) -> String {
        "generated mixes of 1-39 connections (concurrency 1-15) on a fresh real proxy each: tunnels with payloads up to 300 kB per direction (with and without early data), denied, no rule, upstream refused, client RST mid-transfer, origin RST, handshake garbage, disconnect inside the handshake, SOCKS5 UDP association ended by its 1 s idle timeout, complete tunnels through the TLS listeners (https, SOCKS5 over TLS), peers that send no / a truncated / a wrong-protocol TLS ClientHello to those listeners (0 or 1 record allowed, a record must be complete); complete tunnels and garbage on QUIC streams (quic listener), reverse-UDP sessions ended by the 1 s idle timeout; through HTTP CONNECT, SOCKS5 and SOCKS4; historySize in {0,1,3,50}; splice on/off; the access log renamed + POST /logrotate at generated points; every client binds its own source port; oracle: exactly one JSON log record per accepted connection across all log files, distinct ids, right listener / target / connector, lifecycle-conformant state log with exactly one terminal state and error text iff ErrorOccured, byte counters == relayed payload for clean tunnels, listed in /api/live while open and not 2.6 s after the end, /api/history bounded, duplicate-free, newest first and holding the most recent ends; non-trivial = >= 3 outcome kinds, a rotation during traffic, or historySize smaller than the burst".into()
    }
    fn run(&self, part: &mut Part) {
        let n = part.tier.pick(16, 400) as usize;
        let cases = part.draw("mixes", n, &case_strategy());
        let rt = tokio::runtime::Builder::new_multi_thread().worker_threads(8).enable_all().build().unwrap();
        let results: Vec<(Case, Result<(bool, serde_json::Value), Failure>)> = rt.block_on(async {
            let mut out = vec![];
            for chunk in cases.chunks(8) {
                let hs: Vec<_> = chunk
                    .iter()
                    .cloned()
                    .map(|c| {
                        tokio::spawn(async move {
                            let r = run_case(&c).await;
                            (c, r)
                        })
                    })
                    .collect();
                for h in hs {
                    if let Ok(x) = h.await {
                        out.push(x);
                    }
                }
            }
            out
        });
        for (c, r) in results {
            let mut info = CaseInfo::default();
            for conn in &c.conns {
                info.class(format!("{:?}", conn.kind));
            }
            match r {
                Ok((nt, sample)) => {
                    info.nontrivial = nt;
                    if part.samples.len() < 3 {
                        info.sample = Some(sample);
                    }
                    part.account(vcore::digest_json(&c), info);
                }
                Err(f) if f.key == "infrastructure" => {
                    info.inconclusive = true;
                    part.note(format!("infrastructure: {}", f.desc));
                    part.account(vcore::digest_json(&c), info);
                }
                Err(f) => {
                    part.account(vcore::digest_json(&c), info);
                    part.record_failure(f, serde_json::to_value(&c).unwrap());
                }
            }
        }
    }
    fn replay(&self, case: &serde_json::Value) -> Result<(), Failure> {
        let c: Case = serde_json::from_value(case.clone()).map_err(|e| Failure::new("replay-decode", e.to_string()))?;
        let rt = tokio::runtime::Builder::new_multi_thread().worker_threads(4).enable_all().build().unwrap();
        rt.block_on(async { run_case(&c).await.map(|_| ()) })
    }
}

pub fn checks() -> Vec<Box<dyn SubCheck>> {
    let _ = (Lk::Http,);
    vec![Box::new(HistoriesCheck)]
}
