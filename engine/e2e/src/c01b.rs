//! C01(b) / C04(b) — real sockets, every listener x connector pairing, splice on and off.
use crate::tunnel::*;
use crate::world::*;
use proptest::prelude::*;
use serde::Serialize;
use serde_json::json;
use std::sync::Arc;
use std::time::Duration;
use vcore::{CaseInfo, Failure, Part, SubCheck, Tier};

pub struct Pair {
    pub a_splice: Proxy,
    pub a_buffered: Proxy,
    pub b: Proxy,
    pub ports_splice: Ports,
    pub ports_buffered: Ports,
    pub hub_splice: Hub,
    pub hub_buffered: Hub,
}

pub const ROUTES: &[&str] = &["", "direct", "http->B", "socks5->B", "socks4->B", "loadbalance[direct,http->B]", "https->B", "quic->B"];
const NROUTES: u8 = 8;

fn a_yaml(http: u16, socks: u16, reverse: u16, hub: u16, b_http: u16, b_socks: u16, b_https: u16, b_quic: u16, splice: bool, buffer: usize) -> String {
    format!(
        r#"apiVersion: v1
kind: test
listeners:
  - name: http
    bind: 127.0.0.1:{http}
  - name: socks
    bind: 127.0.0.1:{socks}
  - name: reverse
    bind: 127.0.0.1:{reverse}
    target: 127.0.0.1:{hub}
connectors:
  - name: direct
  - name: uphttp
    type: http
    server: 127.0.0.1
    port: {b_http}
  - name: upsocks5
    type: socks
    server: 127.0.0.1
    port: {b_socks}
  - name: upsocks4
    type: socks
    version: 4
    server: 127.0.0.1
    port: {b_socks}
  - name: lb
    type: loadbalance
    connectors: [direct, uphttp]
  - name: uphttps
    type: http
    server: localhost
    port: {b_https}
    tls:
      ca: /verif/pki/ca.crt
  - name: upquic
    type: quic
    server: localhost
    port: {b_quic}
    bind: "127.0.0.1:0"
    tls:
      ca: /verif/pki/ca.crt
rules:
  - filter: request.listener == "reverse" || request.target.host == "127.0.1.1"
    target: direct
  - filter: request.target.host == "127.0.1.2"
    target: uphttp
  - filter: request.target.host == "127.0.1.3"
    target: upsocks5
  - filter: request.target.host == "127.0.1.4"
    target: upsocks4
  - filter: request.target.host == "127.0.1.5"
    target: lb
  - filter: request.target.host == "127.0.1.6"
    target: uphttps
  - filter: request.target.host == "127.0.1.7"
    target: upquic
ioParams:
  bufferSize: {buffer}
  useSplice: {splice}
"#,
        http = http,
        socks = socks,
        reverse = reverse,
        hub = hub,
        b_http = b_http,
        b_socks = b_socks,
        b_https = b_https,
        b_quic = b_quic,
        splice = splice,
        buffer = buffer
    )
}

pub async fn start_pair(buffer: usize) -> Result<Pair, String> {
    let (bh, bs, bt, bq) = (free_port(), free_port(), free_port(), free_port());
    let b_yaml = format!(
        "apiVersion: v1\nkind: test\nlisteners:\n  - name: http\n    bind: 127.0.0.1:{}\n  - name: socks\n    bind: 127.0.0.1:{}\n  - name: https\n    type: http\n    bind: 127.0.0.1:{}\n    tls:\n      cert: /verif/pki/server.crt\n      key: /verif/pki/server.key\n  - name: quic\n    bind: 127.0.0.1:{}\n    tls:\n      cert: /verif/pki/server.crt\n      key: /verif/pki/server.key\nconnectors:\n  - name: direct\nrules:\n  - target: direct\nioParams:\n  bufferSize: 65536\n  useSplice: true\n",
        bh, bs, bt, bq
    );
    let b = tokio::task::spawn_blocking(move || Proxy::start("b", &b_yaml, &[bh, bs, bt], None)).await.map_err(|e| e.to_string())??;
    let hub_splice = Hub::start().await;
    let hub_buffered = Hub::start().await;
    let mk = |splice: bool, hub: u16| {
        let (h, s, r) = (free_port(), free_port(), free_port());
        (a_yaml(h, s, r, hub, bh, bs, bt, bq, splice, buffer), Ports { http: h, socks: s, reverse: r })
    };
    let (y1, ports_splice) = mk(true, hub_splice.port);
    let (y2, ports_buffered) = mk(false, hub_buffered.port);
    let rp1 = [ports_splice.http, ports_splice.socks, ports_splice.reverse];
    let rp2 = [ports_buffered.http, ports_buffered.socks, ports_buffered.reverse];
    let a_splice = tokio::task::spawn_blocking(move || Proxy::start("a-splice", &y1, &rp1, None)).await.map_err(|e| e.to_string())??;
    let a_buffered = tokio::task::spawn_blocking(move || Proxy::start("a-buffered", &y2, &rp2, None)).await.map_err(|e| e.to_string())??;
    Ok(Pair { a_splice, a_buffered, b, ports_splice, ports_buffered, hub_splice, hub_buffered })
}

fn reader_strategy() -> impl Strategy<Value = Reader> {
    prop_oneof![3 => Just(Reader::Continuous), 2 => (5u16..60).prop_map(Reader::Bursty), 2 => (50u16..1000).prop_map(Reader::InitialStall)]
}

fn len_strategy(max: u32) -> impl Strategy<Value = u32> {
    prop_oneof![
        1 => Just(0u32),
        1 => Just(1u32),
        2 => prop_oneof![Just(4095u32), Just(4096), Just(4097), Just(65535), Just(65536), Just(65537)],
        3 => 1u32..200_000,
        2 => (1u32 << 20)..max,
    ]
}

pub fn spec_strategy(max_len: u32, clean_only: bool) -> impl Strategy<Value = TunnelSpec> {
    let end = move || {
        if clean_only {
            prop_oneof![Just(End::HalfClose), Just(End::AfterPeerEof)].boxed()
        } else {
            prop_oneof![3 => Just(End::HalfClose), 2 => Just(End::AfterPeerEof), 2 => (0u32..200_000).prop_map(End::Reset)].boxed()
        }
    };
    (
        (prop_oneof![Just(Lk::Http), Just(Lk::Socks5), Just(Lk::Socks4), Just(Lk::Reverse)], 1u8..NROUTES, any::<u64>()),
        (len_strategy(max_len), len_strategy(max_len), prop_oneof![Just(0u32), 1u32..2000]),
        (prop_oneof![Just(0u32), 1u32..100, 1000u32..100_000], prop_oneof![Just(0u32), 1u32..100, 1000u32..100_000]),
        (reader_strategy(), reader_strategy(), any::<bool>()),
        (end(), end()),
    )
        .prop_map(|((listener, route, tag), (c2s_len, s2c_len, early), (client_chunk, origin_chunk), (client_reader, origin_reader, small_rcvbuf), (client_end, origin_end))| {
            let route = if listener == Lk::Reverse { 1 } else { route };
            // two peers that both wait for the other's EOF never finish by construction
            let origin_end = if client_end == End::AfterPeerEof && origin_end == End::AfterPeerEof { End::HalfClose } else { origin_end };
            // tiny write chunks over multi-megabyte payloads only burn time
            let fix = |chunk: u32, len: u32| if chunk != 0 && len / chunk.max(1) > 20_000 { len / 20_000 + 1 } else { chunk };
            TunnelSpec {
                listener,
                route,
                tag,
                c2s_len,
                s2c_len,
                early,
                client_chunk: fix(client_chunk, c2s_len),
                origin_chunk: fix(origin_chunk, s2c_len),
                client_reader,
                origin_reader,
                small_rcvbuf,
                client_end,
                origin_end,
            }
        })
}

fn pairing(spec: &TunnelSpec) -> String {
    format!("{:?}->{}", spec.listener, ROUTES[spec.route as usize % ROUTES.len()])
}

#[derive(Serialize)]
struct Summary<'a> {
    origin_len: usize,
    client_len: usize,
    origin_end: &'a str,
    client_end: &'a str,
}

/// C01 verdict for a clean (non-reset) tunnel
pub fn judge_fidelity(spec: &TunnelSpec, r: &TunnelResult, mode: &str) -> Result<(), Failure> {
    let p = pairing(spec);
    if !r.established {
        return Err(Failure::new(format!("not-established:{}:{}", mode, p), format!("{}: the tunnel was not established: {:?}", p, r.refusal)));
    }
    if !r.origin_accepted {
        return Err(Failure::new(format!("origin-never-reached:{}:{}", mode, p), format!("{}: 'established' but the origin accepted nothing", p)));
    }
    let clean = !matches!(spec.client_end, End::Reset(_)) && !matches!(spec.origin_end, End::Reset(_));
    if let Some(d) = r.origin_first_diff {
        return Err(Failure::new(
            format!("c2s-corrupted:{}:{}", mode, p),
            format!("{} ({}): origin bytes differ from what the client sent at offset {} (early data {} bytes)", p, mode, d, spec.early.min(spec.c2s_len)),
        ));
    }
    if let Some(d) = r.client_first_diff {
        return Err(Failure::new(format!("s2c-corrupted:{}:{}", mode, p), format!("{} ({}): client bytes differ from what the origin sent at offset {}", p, mode, d)));
    }
    if clean {
        if r.origin_len != spec.c2s_len as usize {
            return Err(Failure::new(
                format!("c2s-truncated:{}:{}", mode, p),
                format!(
                    "{} ({}): the origin received {} of {} bytes (then {}); readers {:?}/{:?}, small rcvbuf {}, ends {:?}/{:?}",
                    p, mode, r.origin_len, spec.c2s_len, r.origin_end, spec.client_reader, spec.origin_reader, spec.small_rcvbuf, spec.client_end, spec.origin_end
                ),
            ));
        }
        if r.client_len != spec.s2c_len as usize {
            return Err(Failure::new(
                format!("s2c-truncated:{}:{}", mode, p),
                format!(
                    "{} ({}): the client received {} of {} bytes (then {}); readers {:?}/{:?}, small rcvbuf {}, ends {:?}/{:?}",
                    p, mode, r.client_len, spec.s2c_len, r.client_end, spec.client_reader, spec.origin_reader, spec.small_rcvbuf, spec.client_end, spec.origin_end
                ),
            ));
        }
    }
    Ok(())
}

/// C04 verdict
pub fn judge_close(spec: &TunnelSpec, r: &TunnelResult, mode: &str) -> Result<(), Failure> {
    let p = pairing(spec);
    if !r.established || !r.origin_accepted {
        return Ok(()); // C01's business
    }
    let clean = !matches!(spec.client_end, End::Reset(_)) && !matches!(spec.origin_end, End::Reset(_));
    let ends = format!("{:?}/{:?}", spec.client_end, spec.origin_end).replace(|c: char| c.is_ascii_digit(), "").replace("()", "");
    if r.origin_end == "timeout" || r.client_end == "timeout" {
        return Err(Failure::new(
            format!("end-not-relayed:{}:{}:{}", mode, ends, p),
            format!(
                "{} ({}): after both senders were done ({}), origin saw '{}' after {} bytes and client saw '{}' after {} bytes: the end of a direction was not relayed / the sockets were not closed",
                p, mode, ends, r.origin_end, r.origin_len, r.client_end, r.client_len
            ),
        ));
    }
    if clean {
        if r.origin_end != "eof" || r.client_end != "eof" {
            return Err(Failure::new(
                format!("clean-close-became-{}:{}:{}", if r.origin_end == "reset" || r.client_end == "reset" { "reset" } else { "other" }, mode, p),
                format!("{} ({}): both sides closed cleanly ({}) but origin saw '{}' and client saw '{}'", p, mode, ends, r.origin_end, r.client_end),
            ));
        }
        if r.origin_len != spec.c2s_len as usize || r.client_len != spec.s2c_len as usize {
            return Err(Failure::new(
                format!("eof-before-all-bytes:{}:{}", mode, p),
                format!("{} ({}): EOF arrived after {}/{} c2s and {}/{} s2c bytes", p, mode, r.origin_len, spec.c2s_len, r.client_len, spec.s2c_len),
            ));
        }
    }
    // a receiver that reads in bursts or after a stall needs its own time to reach the end of the data
    let prompt_readers = spec.client_reader == Reader::Continuous && spec.origin_reader == Reader::Continuous;
    if prompt_readers && r.end_lag_ms > 8000 {
        return Err(Failure::new(format!("close-not-prompt:{}:{}", mode, p), format!("{} ({}): the slower receiver saw the end {} ms after both senders were done", p, mode, r.end_lag_ms)));
    }
    Ok(())
}

async fn run_both(pair: &Pair, spec: &TunnelSpec, budget: Duration) -> (TunnelResult, TunnelResult) {
    let a = run_tunnel(&pair.ports_splice, Some(&pair.hub_splice), spec, budget);
    let b = run_tunnel(&pair.ports_buffered, Some(&pair.hub_buffered), spec, budget);
    tokio::join!(a, b)
}

fn grid(seed: u64) -> Vec<TunnelSpec> {
    let mut v = vec![];
    let mut k = seed.wrapping_mul(0x9E3779B97F4A7C15) | 1;
    for l in [Lk::Http, Lk::Socks5, Lk::Socks4, Lk::Reverse] {
        for route in 1u8..NROUTES {
            if l == Lk::Reverse && route != 1 {
                continue;
            }
            k = k.wrapping_mul(6364136223846793005).wrapping_add(1442695040888963407);
            v.push(TunnelSpec {
                listener: l,
                route,
                tag: k,
                c2s_len: 65536 + (k % 400_000) as u32,
                s2c_len: 65537 + ((k >> 20) % 400_000) as u32,
                early: (k % 1500) as u32,
                client_chunk: 0,
                origin_chunk: 0,
                client_reader: Reader::Continuous,
                origin_reader: Reader::Continuous,
                small_rcvbuf: false,
                client_end: if k % 2 == 0 { End::HalfClose } else { End::AfterPeerEof },
                origin_end: End::HalfClose,
            });
        }
    }
    v
}

/// directed back-pressure cases: many megabytes towards a consumer with a tiny receive buffer
fn backpressure(seed: u64, n: usize, mb: u32) -> Vec<TunnelSpec> {
    let mut v = vec![];
    let mut k = seed.wrapping_mul(0xD1B54A32D192ED03) | 1;
    for i in 0..n {
        k = k.wrapping_mul(6364136223846793005).wrapping_add(1442695040888963407);
        let c2s_big = i % 2 == 0;
        v.push(TunnelSpec {
            listener: [Lk::Http, Lk::Socks5, Lk::Reverse, Lk::Socks4][i % 4],
            route: if i % 4 == 2 { 1 } else { 1 + (i % (NROUTES as usize - 1)) as u8 },
            tag: k,
            c2s_len: if c2s_big { mb << 20 } else { 1000 },
            s2c_len: if c2s_big { 1000 } else { mb << 20 },
            early: (k % 500) as u32,
            client_chunk: 0,
            origin_chunk: 0,
            client_reader: if c2s_big { Reader::Continuous } else { [Reader::Continuous, Reader::Bursty(20), Reader::InitialStall(700)][i % 3] },
            origin_reader: if c2s_big { [Reader::Continuous, Reader::Bursty(20), Reader::InitialStall(700)][(i / 2) % 3] } else { Reader::Continuous },
            small_rcvbuf: true,
            client_end: [End::AfterPeerEof, End::HalfClose][(i / 4) % 2],
            origin_end: End::HalfClose,
        });
    }
    v
}

pub struct SocketsCheck {
    pub property: &'static str,
}

impl SubCheck for SocketsCheck {
    fn property(&self) -> &'static str {
        self.property
    }
    fn name(&self) -> &'static str {
        "sockets"
    }
    fn rule(&self) -> String {
        let common = "two real proxies A (useSplice true / false, bufferSize 4096) in front of a second real proxy B; every listener {http CONNECT, socks5, socks4, reverse} x upstream path {direct, http->B, socks5->B, socks4->B, loadbalance[direct, http->B], https->B (TLS hop), quic->B (QUIC stream hop)} pairing once per I/O mode (enumerated), directed back-pressure cases (8-16 MiB towards a consumer with a fixed 256 KiB receive buffer that reads continuously / in bursts / only after a 0.7 s stall) and generated schedules (payload 0..4 MiB per direction, early data glued to the handshake, write chunking, reader stall patterns, half-close / close-after-peer-EOF / RST at a generated offset), each run against both I/O modes at the same time";
        if self.property == "C01" {
            format!("{}; oracle: bytes at the origin == bytes the client sent and vice versa (a prefix when a side aborts); non-trivial = >= 64 KiB in some direction and (early data or a stalled/small-buffer consumer or an upstream proxy hop)", common)
        } else {
            format!("{}; oracle: a receiver sees EOF only after all bytes of that direction, the other direction still completes, both harness sockets see the end within 8 s of both senders being done (a hang shows as 'timeout' at the 25-60 s budget), a clean close never becomes a reset, and the observable summary (bytes per direction, end kinds) is identical with splice on and off; non-trivial = one side ends while the other still has >= 1 byte to send, or an abort", common)
        }
    }
    fn run(&self, part: &mut Part) {
        let quick = part.tier == Tier::Quick;
        let seed = part.seed;
        let mut specs: Vec<(TunnelSpec, &'static str)> = grid(seed).into_iter().map(|s| (s, "grid")).collect();
        specs.extend(backpressure(seed, if quick { 8 } else { 40 }, if quick { 8 } else { 16 }).into_iter().map(|s| (s, "backpressure")));
        let nrand = if quick { 40 } else { 1200 };
        let clean_only = self.property == "C01";
        for s in part.draw("schedules", nrand, &spec_strategy(if quick { 2 << 20 } else { 4 << 20 }, clean_only && false)) {
            specs.push((s, "generated"));
        }
        let rt = tokio::runtime::Builder::new_multi_thread().worker_threads(8).enable_all().build().unwrap();
        let prop = self.property;
        let out: Result<Vec<(TunnelSpec, &'static str, TunnelResult, TunnelResult)>, String> = rt.block_on(async {
            let pair = Arc::new(start_pair(4096).await?);
            let mut out = vec![];
            for chunk in specs.chunks(8) {
                let hs: Vec<_> = chunk
                    .iter()
                    .cloned()
                    .map(|(s, kind)| {
                        let pair = pair.clone();
                        tokio::spawn(async move {
                            let big = s.c2s_len.max(s.s2c_len) > (4 << 20);
                            let (a, b) = run_both(&pair, &s, Duration::from_secs(if big { 60 } else { 25 })).await;
                            (s, kind, a, b)
                        })
                    })
                    .collect();
                for h in hs {
                    if let Ok(x) = h.await {
                        out.push(x);
                    }
                }
            }
            Ok(out)
        });
        let out = match out {
            Ok(o) => o,
            Err(e) => {
                part.note(format!("infrastructure: {}", e));
                part.extra.insert("infrastructure_error".into(), json!(e));
                return;
            }
        };
        for (spec, kind, rs, rb) in out {
            let mut info = CaseInfo::default();
            let big = spec.c2s_len.max(spec.s2c_len) >= 65536;
            let stalled = spec.small_rcvbuf || spec.client_reader != Reader::Continuous || spec.origin_reader != Reader::Continuous;
            let abort = matches!(spec.client_end, End::Reset(_)) || matches!(spec.origin_end, End::Reset(_));
            info.nontrivial = if prop == "C01" { big && (spec.early > 0 || stalled || spec.route > 1) } else { abort || spec.c2s_len != spec.s2c_len };
            info.class(kind);
            info.class(pairing(&spec));
            if part.samples.len() < 4 {
                info.sample = Some(json!({"spec": spec, "splice": rs, "buffered": rb}));
            }
            let mut verdicts = vec![];
            for (mode, r) in [("splice", &rs), ("buffered", &rb)] {
                verdicts.push(if prop == "C01" { judge_fidelity(&spec, r, mode) } else { judge_close(&spec, r, mode) });
            }
            if prop == "C04" && verdicts.iter().all(|v| v.is_ok()) && !abort {
                let sa = Summary { origin_len: rs.origin_len, client_len: rs.client_len, origin_end: &rs.origin_end, client_end: &rs.client_end };
                let sb = Summary { origin_len: rb.origin_len, client_len: rb.client_len, origin_end: &rb.origin_end, client_end: &rb.client_end };
                if serde_json::to_string(&sa).unwrap() != serde_json::to_string(&sb).unwrap() {
                    verdicts.push(Err(Failure::new(
                        format!("io-modes-differ:{}", pairing(&spec)),
                        format!("splice on: {} / splice off: {}", serde_json::to_string(&sa).unwrap(), serde_json::to_string(&sb).unwrap()),
                    )));
                }
            }
            part.account(vcore::digest_json(&spec), info);
            for v in verdicts {
                if let Err(f) = v {
                    part.record_failure(f, serde_json::to_value(&spec).unwrap());
                }
            }
        }
        part.extra.insert("pairings_enumerated".into(), json!(32));
    }
    fn replay(&self, case: &serde_json::Value) -> Result<(), Failure> {
        let spec: TunnelSpec = serde_json::from_value(case.clone()).map_err(|e| Failure::new("replay-decode", e.to_string()))?;
        let prop = self.property;
        let rt = tokio::runtime::Builder::new_multi_thread().worker_threads(4).enable_all().build().unwrap();
        rt.block_on(async {
            let pair = start_pair(4096).await.map_err(|e| Failure::new("fixture", e))?;
            let (a, b) = run_both(&pair, &spec, Duration::from_secs(60)).await;
            for (mode, r) in [("splice", &a), ("buffered", &b)] {
                if prop == "C01" {
                    judge_fidelity(&spec, r, mode)?;
                } else {
                    judge_close(&spec, r, mode)?;
                }
            }
            Ok(())
        })
    }
}

pub fn checks() -> Vec<Box<dyn SubCheck>> {
    vec![Box::new(SocketsCheck { property: "C01" }), Box::new(SocketsCheck { property: "C04" })]
}
