//! C14 — the management API never blocks the data plane; a stalled client hurts only itself.
use crate::net::*;
use crate::world::*;
use proptest::prelude::*;
use serde::{Deserialize, Serialize};
use serde_json::json;
use std::time::{Duration, Instant};
use tokio::io::{AsyncReadExt, AsyncWriteExt};
use tokio::net::TcpStream;
use vcore::refcodec::{self as rc, Dest, Host};
use vcore::{CaseInfo, Failure, Part, SubCheck};

#[derive(Clone, Debug, Serialize, Deserialize)]
pub struct Stall {
    /// 0 http, 1 socks5, 2 socks4, 3 socks5 with userpass on the auth listener (a client that goes silent inside the handshake);
    /// 4 http, 5 socks5, 6 socks4, 7 quic: a request routed to a connector whose upstream goes silent inside *its* handshake;
    /// 8: a chatty reverse-UDP client whose session is routed to such a silent upstream (300 datagrams);
    /// 9: a QUIC client that goes silent after its first handshake packet;
    /// 10: a TLS client of the https listener that goes silent inside its ClientHello
    pub kind: u8,
    /// selector for the number of handshake bytes sent before going silent
    pub at: u16,
}

#[derive(Clone, Debug, Serialize, Deserialize)]
pub struct Case {
    pub stalls: Vec<Stall>,
    /// established tunnels whose origin-side consumer never reads (back-pressure through the relay)
    pub blocked_tunnels: u8,
    /// order / selection of API calls issued concurrently
    pub api_calls: Vec<u8>,
    pub fresh_rounds: u8,
}

pub fn case_strategy() -> impl Strategy<Value = Case> {
    (
        prop::collection::vec((prop_oneof![6 => 0u8..4, 4 => 4u8..8, 1 => Just(8u8), 1 => Just(9u8), 1 => Just(10u8)], any::<u16>()).prop_map(|(kind, at)| Stall { kind, at }), 0..10),
        0u8..3,
        prop::collection::vec(0u8..7, 1..8),
        1u8..3,
    )
        .prop_map(|(stalls, blocked_tunnels, api_calls, fresh_rounds)| Case {
            stalls,
            blocked_tunnels,
            api_calls,
            fresh_rounds,
        })
}

struct Fx {
    proxy: Proxy,
    http: u16,
    socks: u16,
    socks_auth: u16,
    reverse: u16,
    api: u16,
    origin: Origin,
    sink: std::net::SocketAddr,
    _sink_task: tokio::task::JoinHandle<()>,
    /// how many bytes of its reply the next silent upstream connection sends before it goes quiet
    up_at: std::sync::Arc<std::sync::atomic::AtomicU32>,
    revudp: u16,
    quic: u16,
    https: u16,
    /// the one UDP client whose reverse-UDP session is routed to the silent upstream
    flooder: std::sync::Arc<tokio::net::UdpSocket>,
    rules: serde_json::Value,
    _up_tasks: Vec<tokio::task::JoinHandle<()>>,
    _qep: quinn::Endpoint,
}

const UP_REPLIES: [&[u8]; 3] = [b"HTTP/1.1 200 OK\r\nSession-Id: 1\r\n\r\n", &[5, 0, 5, 0, 0, 1, 0, 0, 0, 0, 0, 0], &[0, 90, 0, 0, 0, 0, 0, 0]];

async fn fixture() -> Result<Fx, String> {
    let (http, socks, socks_auth, reverse, api) = (free_port(), free_port(), free_port(), free_port(), free_port());
    let origin = Origin::start("127.0.0.1:0".parse().unwrap(), echo_script()).await.map_err(|e| e.to_string())?;
    // a sink origin that accepts and never reads
    let sl = tokio::net::TcpListener::bind("127.0.0.1:0").await.map_err(|e| e.to_string())?;
    let sink = sl.local_addr().unwrap();
    let sink_task = tokio::spawn(async move {
        let mut held = vec![];
        loop {
            if let Ok((s, _)) = sl.accept().await {
                let _ = socket2::SockRef::from(&s).set_recv_buffer_size(4096);
                held.push(s);
            }
        }
    });
    // upstreams that accept, read, send a prefix of a valid reply and then stay silent
    let up_at = std::sync::Arc::new(std::sync::atomic::AtomicU32::new(0));
    let mut up_tasks = vec![];
    let mut up_ports = vec![];
    for k in 0..3usize {
        let l = tokio::net::TcpListener::bind("127.0.0.1:0").await.map_err(|e| e.to_string())?;
        up_ports.push(l.local_addr().unwrap().port());
        let at = up_at.clone();
        up_tasks.push(tokio::spawn(async move {
            let mut held = vec![];
            loop {
                if let Ok((mut s, _)) = l.accept().await {
                    let n = at.load(std::sync::atomic::Ordering::SeqCst) as usize;
                    let mut b = [0u8; 512];
                    let _ = tokio::time::timeout(Duration::from_millis(50), s.read(&mut b)).await;
                    let reply = UP_REPLIES[k];
                    let cut = (n * (reply.len())) >> 16; // never the complete reply
                    let _ = s.write_all(&reply[..cut]).await;
                    held.push(s);
                }
            }
        }));
    }
    let (revudp, quic, https) = (free_port(), free_port(), free_port());
    let flooder = std::sync::Arc::new(tokio::net::UdpSocket::bind("127.0.0.1:0").await.map_err(|e| e.to_string())?);
    let flood_port = flooder.local_addr().unwrap().port();
    let uecho = tokio::net::UdpSocket::bind("127.0.0.1:0").await.map_err(|e| e.to_string())?;
    let uecho_addr = uecho.local_addr().unwrap();
    up_tasks.push(tokio::spawn(async move {
        let mut b = vec![0u8; 65536];
        while let Ok((n, from)) = uecho.recv_from(&mut b).await {
            let _ = uecho.send_to(&b[..n], from).await;
        }
    }));
    let (qep, qport) = crate::tlsutil::quic_server("server");
    let qep2 = qep.clone();
    up_tasks.push(tokio::spawn(async move {
        let mut held = vec![];
        while let Some(c) = qep2.accept().await {
            if let Ok(conn) = c.await {
                let c2 = conn.clone();
                held.push(tokio::spawn(async move {
                    let mut streams = vec![];
                    while let Ok(x) = c2.accept_bi().await {
                        streams.push(x); // accepted, never answered
                    }
                }));
            }
        }
    }));
    let yaml = format!(
        r#"apiVersion: v1
kind: test
listeners:
  - name: http
    bind: 127.0.0.1:{http}
  - name: socks
    bind: 127.0.0.1:{socks}
  - name: socksauth
    type: socks
    bind: 127.0.0.1:{socks_auth}
    auth:
      required: true
      users:
        - username: alice
          password: secret
  - name: reverse
    bind: 127.0.0.1:{reverse}
    target: {origin}
  - name: revudp
    type: reverse
    protocol: udp
    bind: 127.0.0.1:{revudp}
    target: {uecho}
  - name: quic
    bind: 127.0.0.1:{quic}
    tls:
      cert: /verif/pki/server.crt
      key: /verif/pki/server.key
  - name: https
    type: http
    bind: 127.0.0.1:{https}
    tls:
      cert: /verif/pki/server.crt
      key: /verif/pki/server.key
connectors:
  - name: direct
  - name: uphttp
    type: http
    server: 127.0.0.1
    port: {up0}
  - name: upsocks5
    type: socks
    server: 127.0.0.1
    port: {up1}
  - name: upsocks4
    type: socks
    version: 4
    server: 127.0.0.1
    port: {up2}
  - name: upquic
    type: quic
    server: localhost
    port: {qport}
    bind: "127.0.0.1:0"
    tls:
      ca: /verif/pki/ca.crt
rules:
  - filter: request.listener == "revudp" && request.source.port == {flood_port}
    target: uphttp
  - filter: request.target.port == 1
    target: uphttp
  - filter: request.target.port == 2
    target: upsocks5
  - filter: request.target.port == 3
    target: upsocks4
  - filter: request.target.port == 4
    target: upquic
  - target: direct
metrics:
  bind: 127.0.0.1:{api}
  historySize: 20
accessLog:
  path: access.log
  format: json
ioParams:
  bufferSize: 4096
  useSplice: false
"#,
        http = http,
        socks = socks,
        socks_auth = socks_auth,
        reverse = reverse,
        origin = origin.addr,
        api = api,
        up0 = up_ports[0],
        up1 = up_ports[1],
        up2 = up_ports[2],
        qport = qport,
        revudp = revudp,
        quic = quic,
        https = https,
        uecho = uecho_addr,
        flood_port = flood_port
    );
    let rules = json!([
        {"filter": format!("request.listener == \"revudp\" && request.source.port == {}", flood_port), "target": "uphttp"},
        {"filter": "request.target.port == 1", "target": "uphttp"},
        {"filter": "request.target.port == 2", "target": "upsocks5"},
        {"filter": "request.target.port == 3", "target": "upsocks4"},
        {"filter": "request.target.port == 4", "target": "upquic"},
        {"target": "direct"}
    ]);
    let proxy = tokio::task::spawn_blocking(move || Proxy::start("c14", &yaml, &[http, socks, socks_auth, reverse, api], Some(api))).await.map_err(|e| e.to_string())??;
    Ok(Fx {
        proxy,
        http,
        socks,
        socks_auth,
        reverse,
        api,
        origin,
        sink,
        _sink_task: sink_task,
        up_at,
        revudp,
        quic,
        https,
        flooder,
        rules,
        _up_tasks: up_tasks,
        _qep: qep,
    })
}

fn handshake_bytes(kind: u8, target: std::net::SocketAddr) -> Vec<u8> {
    let d = dest_for(target);
    match kind % 4 {
        0 => {
            let t = d.authority();
            rc::encode_connect(&t, &[(b"Host".to_vec(), t.clone()), (b"User-Agent".to_vec(), b"stall/1.0".to_vec())])
        }
        1 => [rc::encode_socks5_greeting(&[0]), rc::encode_socks5_request(1, &d).unwrap()].concat(),
        2 => rc::encode_socks4(1, &d, b"someone").unwrap(),
        _ => [rc::encode_socks5_greeting(&[2]), rc::encode_socks5_userpass(b"alice", b"secret"), rc::encode_socks5_request(1, &d).unwrap()].concat(),
    }
}

const API_NAMES: &[&str] = &["GET /api/status", "GET /api/live", "GET /api/history", "GET /api/rules", "GET /api/metrics", "POST /api/rules", "POST /api/logrotate"];

async fn api_call(port: u16, which: u8, dur: Duration, rules: &serde_json::Value) -> Result<(), String> {
    match which % 7 {
        0 => api(port, "GET", "/api/status", None, dur).await.map(|_| ()),
        1 => api(port, "GET", "/api/live", None, dur).await.map(|_| ()),
        2 => api(port, "GET", "/api/history", None, dur).await.map(|_| ()),
        3 => api(port, "GET", "/api/rules", None, dur).await.map(|_| ()),
        4 => api(port, "GET", "/api/metrics", None, dur).await.map(|_| ()),
        5 => {
// the same list the configuration installs (the stalled-upstream routes must survive the POST)
            let body = serde_json::to_vec(rules).unwrap();
            let r = api(port, "POST", "/api/rules", Some(&body), dur).await?;
            if r.status / 100 == 2 {
                Ok(())
            } else {
                Err(format!("status {}", r.status))
            }
        }
        _ => api(port, "POST", "/api/logrotate", Some(b""), dur).await.map(|_| ()),
    }
}

/// one small echo tunnel through the given listener
async fn fresh_tunnel(fx: &Fx, listener: u8, dur: Duration) -> Result<(), String> {
    if listener % 7 == 6 {
        // a fresh TLS client of the https listener
        let fut = async {
            let tcp = TcpStream::connect(lo(fx.https)).await.map_err(|e| e.to_string())?;
            let cx = tokio_rustls::TlsConnector::from(crate::tlsutil::client_config("ca.crt", None, None));
            let mut s = cx.connect(crate::tlsutil::server_name(), tcp).await.map_err(|e| format!("tls handshake: {}", e))?;
            let d = dest_for(fx.origin.addr);
            if !matches!(http_connect(&mut s, &d.authority(), &[], &[], dur).await, Reply::Ok { .. }) {
                return Err("CONNECT over TLS failed".to_string());
            }
            s.write_all(b"tls-hello").await.map_err(|e| e.to_string())?;
            let mut got = [0u8; 9];
            s.read_exact(&mut got).await.map_err(|e| format!("echo: {}", e))?;
            Ok(())
        };
        return match tokio::time::timeout(dur, fut).await {
            Ok(r) => r,
            Err(_) => Err("timeout".into()),
        };
    }
    if listener % 7 == 4 {
        // a fresh reverse-UDP client: one datagram, one echo
        let fut = async {
            let u = tokio::net::UdpSocket::bind("127.0.0.1:0").await.map_err(|e| e.to_string())?;
            let mut b = [0u8; 64];
            // UDP may lose a datagram: three attempts inside the bound
            for _ in 0..3 {
                u.send_to(b"fresh-udp-client", lo(fx.revudp)).await.map_err(|e| e.to_string())?;
                if let Ok(Ok((n, _))) = tokio::time::timeout(dur / 3, u.recv_from(&mut b)).await {
                    if &b[..n] == b"fresh-udp-client" {
                        return Ok(());
                    }
                }
            }
            Err("no echo".to_string())
        };
        return match tokio::time::timeout(dur + Duration::from_millis(200), fut).await {
            Ok(r) => r,
            Err(_) => Err("timeout".into()),
        };
    }
    if listener % 7 == 5 {
        // a fresh QUIC client: handshake, CONNECT on a stream, echo
        let fut = async {
            let ep = crate::tlsutil::quic_client("ca.crt", None);
            let conn = ep.connect(lo(fx.quic), "localhost").map_err(|e| e.to_string())?.await.map_err(|e| format!("quic handshake: {}", e))?;
            let (mut w, mut r) = conn.open_bi().await.map_err(|e| e.to_string())?;
            let t = dest_for(fx.origin.addr).authority();
            w.write_all(&rc::encode_connect(&t, &[(b"Host".to_vec(), t.clone())])).await.map_err(|e| e.to_string())?;
            let mut buf = vec![];
            let mut b = [0u8; 512];
            while rc::parse_http_head(&buf, true).is_none() {
                match r.read(&mut b).await {
                    Ok(Some(n)) if n > 0 => buf.extend_from_slice(&b[..n]),
                    other => return Err(format!("no reply on the stream: {:?}", other)),
                }
            }
            conn.close(0u32.into(), b"");
            Ok(())
        };
        return match tokio::time::timeout(dur, fut).await {
            Ok(r) => r,
            Err(_) => Err("timeout".into()),
        };
    }
    let fut = async {
        let (port, kind) = match listener % 7 {
            0 => (fx.http, 0),
            1 => (fx.socks, 1),
            2 => (fx.socks, 2),
            _ => (fx.reverse, 9),
        };
        let mut s = TcpStream::connect(lo(port)).await.map_err(|e| format!("connect: {}", e))?;
        let d = dest_for(fx.origin.addr);
        let r = match kind {
            0 => http_connect(&mut s, &d.authority(), &[], &[], dur).await,
            1 => socks5_connect(&mut s, &d, None, 1, &[], dur).await,
            2 => socks4_connect(&mut s, &d, b"", 1, &[], dur).await,
            _ => Reply::Ok { leftover: vec![] },
        };
        if !matches!(r, Reply::Ok { .. }) {
            return Err(format!("handshake: {:?}", r));
        }
        s.write_all(b"hello-through-the-proxy").await.map_err(|e| e.to_string())?;
        let mut got = vec![0u8; 23];
        s.read_exact(&mut got).await.map_err(|e| format!("echo: {}", e))?;
        if &got != b"hello-through-the-proxy" {
            return Err("echo mismatch".into());
        }
        Ok(())
    };
    match tokio::time::timeout(dur, fut).await {
        Ok(r) => r,
        Err(_) => Err("timeout".into()),
    }
}

const LISTENER_NAMES: &[&str] = &["http", "socks5", "socks4", "reverse", "reverse-udp", "quic", "https"];
const NL: u8 = 7;

pub async fn run_case(c: &Case) -> Result<(bool, serde_json::Value), Failure> {
    let bound = Duration::from_secs(6);
    let fx = fixture().await.map_err(|e| Failure::new("infrastructure", e))?;
    // ---- control: everything works and is fast before the stall set exists
    let t0 = Instant::now();
    for l in 0..NL {
        fresh_tunnel(&fx, l, bound).await.map_err(|e| Failure::new("infrastructure", format!("control tunnel via {} failed: {}", LISTENER_NAMES[l as usize], e)))?;
    }
    for a in 0..7u8 {
        api_call(fx.api, a, bound, &fx.rules).await.map_err(|e| Failure::new("infrastructure", format!("control {} failed: {}", API_NAMES[a as usize], e)))?;
    }
    let control = t0.elapsed();
    if control > Duration::from_millis(1500) {
        return Ok((false, json!({"inconclusive": "control too slow", "control_ms": control.as_millis() as u64})));
    }
    // ---- install the stall set
    let mut held: Vec<TcpStream> = vec![];
    let mut inside = false;
    let mut stall_desc = vec![];
    let mut relays: Vec<tokio::task::JoinHandle<()>> = vec![];
    for st in &c.stalls {
        if st.kind == 8 {
            // the session of this client is routed to an upstream that never completes its handshake;
            // the client keeps sending
            fx.up_at.store(st.at as u32, std::sync::atomic::Ordering::SeqCst);
            for i in 0..300u32 {
                let _ = fx.flooder.send_to(&vec![(i & 0xff) as u8; 200], lo(fx.revudp)).await;
                if i % 20 == 19 {
                    tokio::time::sleep(Duration::from_millis(2)).await;
                }
            }
            inside = true;
            stall_desc.push("reverse-udp-client-300-datagrams-to-silent-upstream".to_string());
            continue;
        }
        if st.kind == 10 {
            // a TLS client that sends a strict prefix of a ClientHello record and then nothing
            let hello: Vec<u8> = [&[0x16u8, 0x03, 0x01, 0x02, 0x00, 0x01, 0x00, 0x01, 0xfc, 0x03, 0x03][..], &vcore::payload(7, 501)[..]].concat();
            let k = ((st.at as usize) * hello.len()) >> 16;
            if let Ok(mut s) = TcpStream::connect(lo(fx.https)).await {
                let _ = s.write_all(&hello[..k]).await;
                inside = true;
                stall_desc.push(format!("tls-client-hello@{}/{}", k, hello.len()));
                held.push(s);
            }
            continue;
        }
        if st.kind == 9 {
            // a QUIC client whose first packet arrives and nothing after it (a relay drops the rest)
            let relay = tokio::net::UdpSocket::bind("127.0.0.1:0").await.map_err(|e| Failure::new("infrastructure", e.to_string()))?;
            let raddr = relay.local_addr().unwrap();
            let qport = fx.quic;
            let let_through = 1 + (st.at % 2) as usize;
            relays.push(tokio::spawn(async move {
                let out = tokio::net::UdpSocket::bind("127.0.0.1:0").await.unwrap();
                let mut b = vec![0u8; 65536];
                let mut n_fwd = 0usize;
                loop {
                    if let Ok((n, _)) = relay.recv_from(&mut b).await {
                        if n_fwd < let_through {
                            let _ = out.send_to(&b[..n], lo(qport)).await;
                            n_fwd += 1;
                        }
                    }
                }
            }));
            relays.push(tokio::spawn(async move {
                let ep = crate::tlsutil::quic_client("ca.crt", None);
                if let Ok(c) = ep.connect(raddr, "localhost") {
                    let _ = tokio::time::timeout(Duration::from_secs(20), c).await;
                }
            }));
            tokio::time::sleep(Duration::from_millis(100)).await;
            inside = true;
            stall_desc.push(format!("quic-client-silent-after-{}-packets", let_through));
            continue;
        }
        if st.kind % 8 >= 4 {
            // a request whose upstream goes silent inside the connector's handshake
            let via = (st.kind % 8 - 4) as usize;
            fx.up_at.store(st.at as u32, std::sync::atomic::Ordering::SeqCst);
            if let Ok(mut s) = TcpStream::connect(lo(fx.http)).await {
                let t = format!("127.0.0.1:{}", via + 1).into_bytes();
                let _ = s.write_all(&rc::encode_connect(&t, &[(b"Host".to_vec(), t.clone())])).await;
                // let the proxy reach the upstream before the next stall changes the cut
                tokio::time::sleep(Duration::from_millis(120)).await;
                inside = true;
                let cut = if via < 3 { (st.at as usize * UP_REPLIES[via].len()) >> 16 } else { 0 };
                stall_desc.push(format!("upstream-{}-silent-after-{}B", ["http", "socks5", "socks4", "quic"][via], cut));
                held.push(s);
            }
            continue;
        }
        let bytes = handshake_bytes(st.kind, fx.origin.addr);
        let k = ((st.at as usize) * (bytes.len() + 1)) >> 16;
        let port = match st.kind % 4 {
            0 => fx.http,
            3 => fx.socks_auth,
            _ => fx.socks,
        };
        if let Ok(mut s) = TcpStream::connect(lo(port)).await {
            let _ = s.write_all(&bytes[..k]).await;
            if k > 0 && k < bytes.len() {
                inside = true;
            }
            stall_desc.push(format!("{}@{}/{}", ["http", "socks5", "socks4", "socks5-auth"][(st.kind % 4) as usize], k, bytes.len()));
            held.push(s);
        }
    }
    for _ in 0..c.blocked_tunnels {
        // a tunnel to the sink, filled until the writer blocks
        if let Ok(mut s) = TcpStream::connect(lo(fx.http)).await {
            let d = dest_for(fx.sink);
            if let Reply::Ok { .. } = http_connect(&mut s, &d.authority(), &[], &[], bound).await {
                let chunk = vec![0x55u8; 1 << 16];
                let mut total = 0usize;
                loop {
                    match tokio::time::timeout(Duration::from_millis(150), s.write_all(&chunk)).await {
                        Ok(Ok(())) => total += chunk.len(),
                        _ => break,
                    }
                    if total > (64 << 20) {
                        break;
                    }
                }
                stall_desc.push(format!("blocked-tunnel@{}KiB", total >> 10));
                held.push(s);
            }
        }
    }
    tokio::time::sleep(Duration::from_millis(150)).await;
    // ---- API calls and fresh tunnels, concurrently
    let mut api_handles = vec![];
    for a in &c.api_calls {
        let port = fx.api;
        let a = *a;
        let rules = fx.rules.clone();
        api_handles.push(tokio::spawn(async move {
            let t = Instant::now();
            let r = api_call(port, a, bound, &rules).await;
            (a, r, t.elapsed())
        }));
    }
    let mut fresh_results = vec![];
    // one blocked listener is a verdict: no need to wait out the bound for every further probe
    let mut blocked = false;
    'rounds: for round in 0..c.fresh_rounds {
        for l in 0..NL {
            let t = Instant::now();
            let r = fresh_tunnel(&fx, l, bound).await;
            blocked |= r.is_err();
            fresh_results.push((l, round, r, t.elapsed()));
            if blocked {
                break 'rounds;
            }
        }
    }
    let mut api_results = vec![];
    for h in api_handles {
        api_results.push(h.await.map_err(|e| Failure::new("infrastructure", e.to_string()))?);
    }
    // once more, after the concurrent API calls were issued
    for l in 0..NL {
        if blocked {
            break;
        }
        let t = Instant::now();
        let r = fresh_tunnel(&fx, l, bound).await;
        blocked |= r.is_err();
        fresh_results.push((l, 99, r, t.elapsed()));
    }
    let shape = if c.stalls.is_empty() && c.blocked_tunnels == 0 {
        "no-stall".to_string()
    } else {
        let mut kinds: Vec<&str> = c.stalls.iter().map(|s| ["http", "socks5", "socks4", "socks5-auth", "upstream-http", "upstream-socks5", "upstream-socks4", "upstream-quic", "reverse-udp-chatty", "quic-handshake", "tls-handshake"][(s.kind % 11) as usize]).collect();
        if c.blocked_tunnels > 0 {
            kinds.push("blocked-tunnel");
        }
        kinds.sort();
        kinds.dedup();
        kinds.join("+")
    };
    for (a, r, dt) in &api_results {
        if let Err(e) = r {
            return Err(Failure::new(
                format!("api-blocked:{}:stalled={}", API_NAMES[(*a % 7) as usize].replace(' ', ""), shape),
                format!("{} did not complete in {:?} ({}) while these clients were stalled: {:?}", API_NAMES[(*a % 7) as usize], dt, e, stall_desc),
            ));
        }
    }
    for (l, round, r, dt) in &fresh_results {
        if let Err(e) = r {
            return Err(Failure::new(
                format!("dataplane-blocked:{}:stalled={}", LISTENER_NAMES[*l as usize], shape),
                format!(
                    "a fresh tunnel through the {} listener (round {}) failed after {:?} ({}) while these clients were stalled: {:?}; concurrent API calls: {:?}",
                    LISTENER_NAMES[*l as usize],
                    round,
                    dt,
                    e,
                    stall_desc,
                    c.api_calls.iter().map(|a| API_NAMES[(*a % 7) as usize]).collect::<Vec<_>>()
                ),
            ));
        }
    }
    let mut fx = fx;
    if !fx.proxy.alive() {
        return Err(Failure::new("proxy-died", format!("the proxy exited: {}", fx.proxy.log_tail(8))));
    }
    drop(held);
    for r in relays {
        r.abort();
    }
    Ok((
        inside && !c.api_calls.is_empty(),
        json!({"stalls": stall_desc, "api_calls": c.api_calls.iter().map(|a| API_NAMES[(*a % 7) as usize]).collect::<Vec<_>>(), "fresh_tunnels": fresh_results.len(),
               "max_api_ms": api_results.iter().map(|x| x.2.as_millis() as u64).max(), "max_tunnel_ms": fresh_results.iter().map(|x| x.3.as_millis() as u64).max()}),
    ))
}

pub struct StallCheck;
impl SubCheck for StallCheck {
    fn property(&self) -> &'static str {
        "C14"
    }
    fn name(&self) -> &'static str {
        "stalls"
    }
    fn rule(&self) -> String {
        "generated schedules, each on a fresh real proxy: 0-9 clients stalled after k bytes of a valid handshake (HTTP CONNECT head, SOCKS5 greeting+request, SOCKS4 request, SOCKS5 with userpass; k drawn over every offset 0..len) or requests routed to an http / socks5 / socks4 / quic connector whose upstream accepts, sends a generated strict prefix of a valid reply (0..len-1 bytes) and goes silent, a reverse-UDP client that keeps sending 300 datagrams into a session hanging on such an upstream, a QUIC client of which only the first one or two handshake packets arrive, a TLS client stalled inside its ClientHello, 0-2 established tunnels whose far consumer never reads (filled until the writer blocks), then 1-7 API calls (status, live, history, rules GET, metrics, rules POST, logrotate) issued concurrently with fresh echo tunnels through the http, socks5, socks4, reverse, reverse-UDP, QUIC and https listeners; oracle: every API call and every fresh tunnel completes within 6 s (the same calls take < 1.5 s in total in the control phase before the stall set; a slower control makes the case inconclusive); non-trivial = some stall strictly inside a handshake message and at least one concurrent API call".into()
    }
    fn run(&self, part: &mut Part) {
        let n = part.tier.pick(40, 600) as usize;
        let cases = part.draw("schedules", n, &case_strategy());
        let rt = tokio::runtime::Builder::new_multi_thread().worker_threads(8).enable_all().build().unwrap();
        let results: Vec<(Case, Result<(bool, serde_json::Value), Failure>)> = rt.block_on(async {
            let mut out = vec![];
            // 6 schedules at a time
            for chunk in cases.chunks(6) {
                let hs: Vec<_> = chunk
                    .iter()
                    .cloned()
                    .map(|c| {
                        tokio::spawn(async move {
                            let r = run_case(&c).await;
                            (c, r)
                        })
                    })
                    .collect();
                for h in hs {
                    if let Ok(x) = h.await {
                        out.push(x);
                    }
                }
            }
            out
        });
        for (c, r) in results {
            let mut info = CaseInfo::default();
            match r {
                Ok((nontrivial, sample)) => {
                    info.nontrivial = nontrivial;
                    if sample.get("inconclusive").is_some() {
                        info.inconclusive = true;
                    }
                    if part.samples.len() < 4 {
                        info.sample = Some(sample);
                    }
                    part.account(vcore::digest_json(&c), info);
                }
                Err(f) if f.key == "infrastructure" => {
                    info.inconclusive = true;
                    part.note(format!("infrastructure: {}", f.desc));
                    part.account(vcore::digest_json(&c), info);
                }
                Err(f) => {
                    part.account(vcore::digest_json(&c), info);
                    part.record_failure(f, serde_json::to_value(&c).unwrap());
                }
            }
        }
    }
    fn replay(&self, case: &serde_json::Value) -> Result<(), Failure> {
        let c: Case = serde_json::from_value(case.clone()).map_err(|e| Failure::new("replay-decode", e.to_string()))?;
        let rt = tokio::runtime::Builder::new_multi_thread().worker_threads(4).enable_all().build().unwrap();
        rt.block_on(async { run_case(&c).await.map(|_| ()) })
    }
}

pub fn checks() -> Vec<Box<dyn SubCheck>> {
    let _ = (Dest::name("x", 1), Host::V4([0; 4]));
    vec![Box::new(StallCheck)]
}
