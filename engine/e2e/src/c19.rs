//! C19 — service resumes after an upstream outage without restarting the proxy.
use crate::net::*;
use crate::world::*;
use serde::{Deserialize, Serialize};
use serde_json::json;
use std::sync::Arc;
use std::time::{Duration, Instant};
use tokio::io::{AsyncReadExt, AsyncWriteExt};
use tokio::net::TcpStream;
use vcore::refcodec::{Dest, Host};
use vcore::{CaseInfo, Failure, Part, SubCheck, Tier};

pub const KINDS: &[&str] = &["http", "socks5", "socks4", "quic", "loadbalance", "direct", "http-fake-upstream", "socks5-fake-upstream"];
const NK: usize = 8;

/// An upstream the harness implements itself, so that it can stall inside the upstream handshake
/// and die with RST: a minimal HTTP CONNECT proxy, a minimal SOCKS5 proxy, or (for the direct
/// connector) the origin itself.
#[derive(Clone, Copy, PartialEq, Eq, Debug)]
enum Proto {
    Http,
    Socks5,
    Echo,
}

struct FakeUp {
    proto: Proto,
    port: u16,
    /// 0 = healthy, 1 = accept and read but never answer (connections made now die when the mode ends)
    mode: Arc<std::sync::atomic::AtomicU8>,
    task: Option<tokio::task::JoinHandle<()>>,
    kill: Arc<tokio::sync::Notify>,
}

async fn fake_conn(proto: Proto, mut s: TcpStream, mode: Arc<std::sync::atomic::AtomicU8>) -> Option<()> {
    let _ = s.set_linger(Some(Duration::ZERO)); // dropped = RST
    let stalled = mode.load(std::sync::atomic::Ordering::SeqCst) == 1;
    let mut up = match proto {
        Proto::Echo => None,
        Proto::Http => {
            let mut buf = vec![];
            read_until(&mut s, &mut buf, |b| b.windows(4).position(|w| w == b"\r\n\r\n").map(|p| p + 4), Duration::from_secs(10)).await.ok()?;
            let line = String::from_utf8_lossy(&buf).to_string();
            let target = line.split_whitespace().nth(1)?.to_string();
            if stalled {
                None
            } else {
                let o = TcpStream::connect(&target).await.ok()?;
                s.write_all(b"HTTP/1.1 200 OK\r\n\r\n").await.ok()?;
                Some(o)
            }
        }
        Proto::Socks5 => {
            let mut h = [0u8; 2];
            s.read_exact(&mut h).await.ok()?;
            let mut m = vec![0u8; h[1] as usize];
            s.read_exact(&mut m).await.ok()?;
            if stalled {
                None
            } else {
                s.write_all(&[5, 0]).await.ok()?;
                let mut r = [0u8; 4];
                s.read_exact(&mut r).await.ok()?;
                let target = match r[3] {
                    1 => {
                        let mut a = [0u8; 6];
                        s.read_exact(&mut a).await.ok()?;
                        format!("{}.{}.{}.{}:{}", a[0], a[1], a[2], a[3], u16::from_be_bytes([a[4], a[5]]))
                    }
                    3 => {
                        let mut l = [0u8; 1];
                        s.read_exact(&mut l).await.ok()?;
                        let mut a = vec![0u8; l[0] as usize + 2];
                        s.read_exact(&mut a).await.ok()?;
                        let n = a.len();
                        format!("{}:{}", String::from_utf8_lossy(&a[..n - 2]), u16::from_be_bytes([a[n - 2], a[n - 1]]))
                    }
                    _ => return None,
                };
                let o = TcpStream::connect(&target).await.ok()?;
                s.write_all(&[5, 0, 0, 1, 0, 0, 0, 0, 0, 0]).await.ok()?;
                Some(o)
            }
        }
    };
    if stalled {
        // never answer; die (RST) when the stall ends
        while mode.load(std::sync::atomic::Ordering::SeqCst) == 1 {
            tokio::time::sleep(Duration::from_millis(20)).await;
        }
        return None;
    }
    match up.as_mut() {
        Some(o) => {
            let _ = tokio::io::copy_bidirectional(&mut s, o).await;
        }
        None => {
            let mut b = vec![0u8; 16384];
            loop {
                match s.read(&mut b).await {
                    Ok(0) | Err(_) => break,
                    Ok(n) => {
                        if s.write_all(&b[..n]).await.is_err() {
                            break;
                        }
                    }
                }
            }
        }
    }
    Some(())
}

impl FakeUp {
    async fn start(proto: Proto, port: u16) -> Result<FakeUp, String> {
        let mut f = FakeUp { proto, port, mode: Default::default(), task: None, kill: Arc::new(tokio::sync::Notify::new()) };
        f.up().await?;
        Ok(f)
    }
    async fn up(&mut self) -> Result<(), String> {
        let sock = tokio::net::TcpSocket::new_v4().map_err(|e| e.to_string())?;
        sock.set_reuseaddr(true).map_err(|e| e.to_string())?;
        sock.bind(lo(self.port)).map_err(|e| format!("fake upstream bind {}: {}", self.port, e))?;
        let l = sock.listen(128).map_err(|e| e.to_string())?;
        let (proto, mode, kill) = (self.proto, self.mode.clone(), self.kill.clone());
        self.task = Some(tokio::spawn(async move {
            let mut conns = tokio::task::JoinSet::new();
            loop {
                tokio::select! {
                    r = l.accept() => {
                        if let Ok((s, _)) = r {
                            conns.spawn(fake_conn(proto, s, mode.clone()));
                        }
                    }
                    _ = kill.notified() => {
                        // the listener and every connection die now (RST: linger 0)
                        conns.abort_all();
                        while conns.join_next().await.is_some() {}
                        return;
                    }
                }
            }
        }));
        Ok(())
    }
    async fn down(&mut self) {
        self.kill.notify_one();
        if let Some(t) = self.task.take() {
            let _ = t.await;
        }
    }
}

enum Up {
    Proc(Option<Proxy>),
    Fake(FakeUp),
}

#[derive(Clone, Copy, Debug, PartialEq, Eq, Serialize, Deserialize)]
pub enum Fault {
    /// SIGKILL, restart on the same ports after ms
    KillRestart(u16),
    /// SIGSTOP for ms, then SIGCONT (silent drop)
    Freeze(u16),
    /// SIGKILL, then n requests one after the other while it is down (each may take until a dead cached
    /// connection has timed out, so a later one makes the connector try to reconnect in vain), then restart
    LongOutage(u8),
}

#[derive(Clone, Copy, Debug, PartialEq, Eq, Serialize, Deserialize)]
pub enum Phase {
    /// no request was ever routed to the upstream before the fault
    IdleNoTraffic,
    /// a request was served before (the QUIC connector has a cached connection)
    IdleAfterTraffic,
    /// a tunnel is open and carrying a trickle when the fault hits
    MidTransfer,
    /// a request is started while the upstream is frozen / down
    DuringConnect,
}

#[derive(Clone, Debug, Serialize, Deserialize)]
pub struct Case {
    pub kind: u8,
    pub steps: Vec<(Phase, Fault)>,
}

struct Fx {
    a: Proxy,
    b: Up,
    b_yaml: String,
    b_ready: Vec<u16>,
    http: u16,
    api: u16,
    origin: Option<Origin>,
    origin_addr: std::net::SocketAddr,
    ref_origin: Origin,
}

async fn fixture(kind: u8) -> Result<Fx, String> {
    let origin = Origin::start("127.0.0.1:0".parse().unwrap(), echo_script()).await.map_err(|e| e.to_string())?;
    let ref_origin = Origin::start("127.0.0.1:0".parse().unwrap(), echo_script()).await.map_err(|e| e.to_string())?;
    let (bh, bs, bq) = (free_port(), free_port(), free_port());
    let b_yaml = format!(
        "apiVersion: v1\nkind: test\nlisteners:\n  - name: http\n    bind: 127.0.0.1:{}\n  - name: socks\n    bind: 127.0.0.1:{}\n  - name: quic\n    bind: 127.0.0.1:{}\n    tls:\n      cert: /verif/pki/server.crt\n      key: /verif/pki/server.key\nconnectors:\n  - name: direct\nrules:\n  - target: direct\n",
        bh, bs, bq
    );
    let by = b_yaml.clone();
    let k = kind as usize % NK;
    let mut origin = Some(origin);
    let mut origin_addr = origin.as_ref().unwrap().addr;
    let b = match k {
        5 => {
            // direct: the "upstream" is the origin itself, restartable on a fixed port
            origin = None;
            origin_addr = lo(bh);
            Up::Fake(FakeUp::start(Proto::Echo, bh).await?)
        }
        6 => Up::Fake(FakeUp::start(Proto::Http, bh).await?),
        7 => Up::Fake(FakeUp::start(Proto::Socks5, bs).await?),
        _ => Up::Proc(Some(tokio::task::spawn_blocking(move || Proxy::start("c19b", &by, &[bh, bs], None)).await.map_err(|e| e.to_string())??)),
    };
    let (http, api) = (free_port(), free_port());
    let up = match k {
        5 => "  - name: up\n    type: direct\n".to_string(),
        6 => format!("  - name: up\n    type: http\n    server: 127.0.0.1\n    port: {}\n", bh),
        7 => format!("  - name: up\n    type: socks\n    server: 127.0.0.1\n    port: {}\n", bs),
        0 => format!("  - name: up\n    type: http\n    server: 127.0.0.1\n    port: {}\n", bh),
        1 => format!("  - name: up\n    type: socks\n    server: 127.0.0.1\n    port: {}\n", bs),
        2 => format!("  - name: up\n    type: socks\n    version: 4\n    server: 127.0.0.1\n    port: {}\n", bs),
        3 => format!("  - name: up\n    type: quic\n    server: localhost\n    port: {}\n    bind: \"127.0.0.1:0\"\n    tls:\n      ca: /verif/pki/ca.crt\n", bq),
        _ => format!(
            "  - name: m1\n    type: http\n    server: 127.0.0.1\n    port: {}\n  - name: m2\n    type: socks\n    server: 127.0.0.1\n    port: {}\n  - name: up\n    type: loadbalance\n    connectors: [m1, m2]\n",
            bh, bs
        ),
    };
    let a_yaml = format!(
        "apiVersion: v1\nkind: test\nlisteners:\n  - name: http\n    bind: 127.0.0.1:{}\nconnectors:\n  - name: direct\n{}rules:\n  - filter: request.target.port == {}\n    target: direct\n  - target: up\nmetrics:\n  bind: 127.0.0.1:{}\n  historySize: 100\ntimeouts:\n  idle: 3\n",
        http,
        up,
        ref_origin.addr.port(),
        api
    );
    let a = tokio::task::spawn_blocking(move || Proxy::start("c19a", &a_yaml, &[http, api], Some(api))).await.map_err(|e| e.to_string())??;
    Ok(Fx { a, b, b_yaml, b_ready: vec![bh, bs], http, api, origin, origin_addr, ref_origin })
}

/// one echo request through A to the origin behind the upstream: Ok(latency) or Err(reason)
async fn probe(http: u16, origin: std::net::SocketAddr, budget: Duration) -> Result<Duration, String> {
    let t0 = Instant::now();
    let fut = async {
        let mut s = TcpStream::connect(lo(http)).await.map_err(|e| format!("connect: {}", e))?;
        let d = dest_for(origin);
        match http_connect(&mut s, &d.authority(), &[], &[], budget).await {
            Reply::Ok { .. } => {}
            Reply::Refused { code, .. } => return Err(format!("refused {}", code)),
            Reply::Broken { why, .. } => return Err(format!("no reply: {}", why)),
        }
        s.write_all(b"probe-payload").await.map_err(|e| e.to_string())?;
        let mut b = [0u8; 13];
        s.read_exact(&mut b).await.map_err(|e| format!("echo: {}", e))?;
        if &b != b"probe-payload" {
            return Err("echo mismatch".into());
        }
        Ok(())
    };
    match tokio::time::timeout(budget, fut).await {
        Ok(Ok(())) => Ok(t0.elapsed()),
        Ok(Err(e)) => Err(e),
        Err(_) => Err("timeout".into()),
    }
}

async fn restart_b(fx: &mut Fx) -> Result<(), String> {
    if let Up::Fake(f) = &mut fx.b {
        return f.up().await;
    }
    let y = fx.b_yaml.clone();
    let ready = fx.b_ready.clone();
    let b = tokio::task::spawn_blocking(move || Proxy::start("c19b", &y, &ready, None)).await.map_err(|e| e.to_string())??;
    fx.b = Up::Proc(Some(b));
    Ok(())
}

pub async fn run_case(c: &Case, recovery_probes: u32) -> Result<(bool, serde_json::Value), Failure> {
    let kind = KINDS[c.kind as usize % NK];
    let mut fx = fixture(c.kind).await.map_err(|e| Failure::new("infrastructure", e))?;
    let origin = fx.origin_addr;
    // ---- the healthy reference tunnel: a round trip every 150 ms for the whole case
    let ref_addr = fx.ref_origin.addr;
    let http = fx.http;
    let stop = Arc::new(std::sync::atomic::AtomicBool::new(false));
    let stop2 = stop.clone();
    let reference = tokio::spawn(async move {
        let mut s = TcpStream::connect(lo(http)).await.map_err(|e| e.to_string())?;
        let d = dest_for(ref_addr);
        match http_connect(&mut s, &d.authority(), &[], &[], Duration::from_secs(5)).await {
            Reply::Ok { .. } => {}
            other => return Err(format!("reference tunnel: {:?}", other)),
        }
        let mut worst = Duration::ZERO;
        let mut n = 0u32;
        while !stop2.load(std::sync::atomic::Ordering::Relaxed) {
            let t = Instant::now();
            let msg = n.to_be_bytes();
            s.write_all(&msg).await.map_err(|e| format!("reference write: {}", e))?;
            let mut b = [0u8; 4];
            match tokio::time::timeout(Duration::from_secs(5), s.read_exact(&mut b)).await {
                Ok(Ok(_)) if b == msg => {}
                other => return Err(format!("reference tunnel lost or delayed byte #{}: {:?}", n, other.map(|r| r.map(|_| ()))), ),
            }
            worst = worst.max(t.elapsed());
            n += 1;
            tokio::time::sleep(Duration::from_millis(150)).await;
        }
        Ok((worst, n))
    });
    let mut log = vec![];
    let mut attempts_to_recover = vec![];
    for (si, (phase, fault)) in c.steps.iter().enumerate() {
        // ---- phase preparation
        let mut open_tunnel: Option<TcpStream> = None;
        match phase {
            Phase::IdleNoTraffic => {}
            Phase::IdleAfterTraffic | Phase::DuringConnect => {
                if let Err(e) = probe(fx.http, origin, Duration::from_secs(8)).await {
                    return Err(Failure::new(format!("not-working-before-fault:{}", kind), format!("step {}: probe through the {} connector failed before any fault: {}", si, kind, e)));
                }
            }
            Phase::MidTransfer => {
                let mut s = TcpStream::connect(lo(fx.http)).await.map_err(|e| Failure::new("infrastructure", e.to_string()))?;
                match http_connect(&mut s, &dest_for(origin).authority(), &[], &[], Duration::from_secs(8)).await {
                    Reply::Ok { .. } => {}
                    other => return Err(Failure::new(format!("not-working-before-fault:{}", kind), format!("step {}: {:?}", si, other))),
                }
                let _ = s.write_all(b"x").await;
                let mut b = [0u8; 1];
                let _ = tokio::time::timeout(Duration::from_secs(3), s.read_exact(&mut b)).await;
                open_tunnel = Some(s);
            }
        }
        // ---- the fault
        let t_fault = Instant::now();
        let mut during: Option<tokio::task::JoinHandle<Result<Duration, String>>> = None;
        match fault {
            Fault::KillRestart(ms) => {
                match &mut fx.b {
                    Up::Proc(b) => {
                        if let Some(mut b) = b.take() {
                            b.kill();
                        }
                    }
                    Up::Fake(f) => f.down().await,
                }
                if *phase == Phase::DuringConnect {
                    let (h, o) = (fx.http, origin);
                    during = Some(tokio::spawn(async move { probe(h, o, Duration::from_secs(45)).await }));
                }
                tokio::time::sleep(Duration::from_millis(*ms as u64)).await;
                // while it is down a request must fail cleanly, not hang for ever
                if *ms >= 500 {
                    let r = probe(fx.http, origin, Duration::from_secs(45)).await;
                    if let Err(e) = &r {
                        if e == "timeout" {
                            return Err(Failure::new(
                                format!("hangs-while-upstream-down:{}", kind),
                                format!("step {}: with the upstream killed a request through the {} connector got neither a tunnel nor a failure reply within 45 s", si, kind),
                            ));
                        }
                    }
                    log.push(format!("while-down: {:?}", r.map(|d| d.as_millis())));
                }
                restart_b(&mut fx).await.map_err(|e| Failure::new("infrastructure", e))?;
            }
            Fault::LongOutage(n) => {
                match &mut fx.b {
                    Up::Proc(b) => {
                        if let Some(mut b) = b.take() {
                            b.kill();
                        }
                    }
                    Up::Fake(f) => f.down().await,
                }
                for j in 0..*n {
                    let r = probe(fx.http, origin, Duration::from_secs(45)).await;
                    if let Err(e) = &r {
                        if e == "timeout" {
                            return Err(Failure::new(
                                format!("hangs-while-upstream-down:{}", kind),
                                format!("step {}: with the upstream killed, request #{} through the {} connector got neither a tunnel nor a failure reply within 45 s", si, j, kind),
                            ));
                        }
                    }
                    log.push(format!("while-down #{}: {:?}", j, r.map(|d| d.as_millis())));
                    tokio::time::sleep(Duration::from_millis(500)).await;
                }
                restart_b(&mut fx).await.map_err(|e| Failure::new("infrastructure", e))?;
            }
            Fault::Freeze(ms) => {
                match &fx.b {
                    Up::Proc(Some(b)) => b.signal(libc::SIGSTOP),
                    Up::Fake(f) => f.mode.store(1, std::sync::atomic::Ordering::SeqCst),
                    _ => {}
                }
                if *phase == Phase::DuringConnect {
                    let (h, o) = (fx.http, origin);
                    during = Some(tokio::spawn(async move { probe(h, o, Duration::from_secs(45)).await }));
                }
                tokio::time::sleep(Duration::from_millis(*ms as u64)).await;
                match &fx.b {
                    Up::Proc(Some(b)) => b.signal(libc::SIGCONT),
                    Up::Fake(f) => f.mode.store(0, std::sync::atomic::Ordering::SeqCst),
                    _ => {}
                }
            }
        }
        // ---- tunnels that were open across a kill must end cleanly
        if let Some(mut s) = open_tunnel.take() {
            if matches!(fault, Fault::KillRestart(_)) {
                let (_, end) = read_to_end_within(&mut s, Duration::from_secs(10)).await;
                if end == "timeout" {
                    return Err(Failure::new(
                        format!("open-tunnel-not-closed:{}", kind),
                        format!("step {}: a tunnel through the {} connector was open when the upstream was killed; 10 s later (idle timeout 3 s) the client side is still open", si, kind),
                    ));
                }
            }
        }
        if let Some(d) = during {
            let r = d.await.map_err(|e| Failure::new("infrastructure", e.to_string()))?;
            log.push(format!("during-fault probe: {:?}", r.as_ref().map(|d| d.as_millis())));
            if let Err(e) = &r {
                if e == "timeout" && matches!(fault, Fault::KillRestart(_)) {
                    return Err(Failure::new(format!("request-during-outage-hangs:{}", kind), format!("step {}: a request started while the upstream was down never completed (45 s)", si)));
                }
            }
        }
        // ---- recovery: the upstream accepts again; some probe among the next R succeeds, and then all do
        let mut recovered_at = None;
        for k in 0..recovery_probes {
            match probe(fx.http, origin, Duration::from_secs(8)).await {
                Ok(_) => {
                    recovered_at = Some(k);
                    break;
                }
                Err(e) => {
                    log.push(format!("recovery probe {}: {}", k, e));
                    tokio::time::sleep(Duration::from_millis(1500)).await;
                }
            }
        }
        let k = match recovered_at {
            Some(k) => k,
            None => {
                return Err(Failure::new(
                    format!("no-recovery:{}:{:?}:{}", kind, phase, match fault { Fault::Freeze(_) => "freeze", Fault::LongOutage(_) => "long-outage", _ => "kill-restart" }),
                    format!(
                        "step {}: {:.0} s after the upstream came back ({:?} in phase {:?}), {} consecutive requests through the {} connector still failed: {:?}",
                        si,
                        t_fault.elapsed().as_secs_f64(),
                        fault,
                        phase,
                        recovery_probes,
                        kind,
                        &log[log.len().saturating_sub(4)..]
                    ),
                ))
            }
        };
        attempts_to_recover.push((k, t_fault.elapsed().as_secs_f64()));
        for j in 0..3 {
            if let Err(e) = probe(fx.http, origin, Duration::from_secs(8)).await {
                return Err(Failure::new(format!("relapse-after-recovery:{}", kind), format!("step {}: request #{} after the recovery failed again: {}", si, j, e)));
            }
        }
    }
    stop.store(true, std::sync::atomic::Ordering::Relaxed);
    match reference.await {
        Ok(Ok((worst, n))) => {
            if worst > Duration::from_millis(2500) {
                return Err(Failure::new(
                    format!("healthy-tunnel-delayed:{}", kind),
                    format!("the reference tunnel (direct connector) saw a round trip of {:?} while the {} upstream had its outages ({} round trips)", worst, kind, n),
                ));
            }
            log.push(format!("reference: {} round trips, worst {:?}", n, worst));
        }
        Ok(Err(e)) => return Err(Failure::new(format!("healthy-tunnel-broken:{}", kind), e)),
        Err(e) => return Err(Failure::new("infrastructure", e.to_string())),
    }
    if !fx.a.alive() {
        return Err(Failure::new("proxy-died", fx.a.log_tail(8)));
    }
    let _ = (fx.api, &fx.origin);
    let nontrivial = c.steps.len() >= 2 || c.steps.iter().any(|(p, _)| *p != Phase::IdleNoTraffic);
    Ok((nontrivial, json!({"kind": kind, "steps": c.steps, "probes_and_seconds_to_recover": attempts_to_recover, "log": log})))
}

pub fn cases(tier: Tier, seed: u64) -> Vec<Case> {
    let mut v = vec![];
    let phases = [Phase::IdleAfterTraffic, Phase::MidTransfer, Phase::DuringConnect, Phase::IdleNoTraffic];
    for kind in 0..NK as u8 {
        // one sequence per kind with two outages; more in the thorough tier
        v.push(Case { kind, steps: vec![(Phase::IdleAfterTraffic, Fault::KillRestart(700)), (Phase::MidTransfer, Fault::KillRestart(100))] });
        v.push(Case { kind, steps: vec![(Phase::DuringConnect, Fault::Freeze(1500)), (Phase::IdleNoTraffic, Fault::KillRestart(0))] });
        // an outage long enough for a second request to find the cached connection closed and the upstream still down
        if tier == Tier::Thorough || kind == 0 || kind == 3 {
            v.push(Case { kind, steps: vec![(Phase::IdleAfterTraffic, Fault::LongOutage(2))] });
        }
        if tier == Tier::Thorough {
            let mut k = seed.wrapping_add(kind as u64).wrapping_mul(0x9E3779B97F4A7C15) | 1;
            for _ in 0..6 {
                let mut steps = vec![];
                for _ in 0..(1 + k % 4) {
                    k = k.wrapping_mul(6364136223846793005).wrapping_add(1442695040888963407);
                    let ph = phases[(k >> 33) as usize % 4];
                    let f = if (k >> 40) % 3 == 0 { Fault::Freeze(500 + ((k >> 20) % 3000) as u16) } else { Fault::KillRestart([0u16, 100, 1000, 5000][(k >> 12) as usize % 4]) };
                    steps.push((ph, f));
                }
                v.push(Case { kind, steps });
            }
        }
    }
    v
}

pub struct OutageCheck;
impl SubCheck for OutageCheck {
    fn property(&self) -> &'static str {
        "C19"
    }
    fn name(&self) -> &'static str {
        "outage"
    }
    fn rule(&self) -> String {
        "fault sequences against real processes: proxy A (idle timeout 3 s) routes through an upstream: a second real redproxy B for connector kinds {http, socks5, socks4, quic with its shared cached connection, loadbalance[http, socks5]}, the origin itself for the direct connector, and harness-implemented HTTP-CONNECT / SOCKS5 proxies that can stall inside the upstream handshake and die with RST; faults {SIGKILL (fake: listener and all connections dropped with RST) + restart on the same ports after 0 / 0.1 / 0.7 / 1 / 5 s, SIGSTOP for 0.5-3.5 s then SIGCONT (fake: accept, read the request, never answer, then RST), a long outage during which two requests are made one after the other (the second finds a closed cached connection and an upstream that is still down) before the restart} in phases {idle without prior traffic, idle after traffic, a tunnel open mid-transfer, a request started during the outage}, 2 outages per sequence (quick: 2 sequences per kind; thorough: +6 generated sequences of 1-4 outages per kind), while a reference echo tunnel through the direct connector runs a round trip every 150 ms; oracle: a request while the upstream is down fails in bounded time (45 s), a tunnel open across a kill is closed within 10 s, after the upstream is back some request among the next 30 (1.5 s apart) succeeds and the following three as well, the reference tunnel never loses a byte or waits more than 2.5 s; non-trivial = a fault outside the idle-no-traffic phase or >= 2 outages".into()
    }
    fn run(&self, part: &mut Part) {
        let all = cases(part.tier, part.seed);
        let rt = tokio::runtime::Builder::new_multi_thread().worker_threads(8).enable_all().build().unwrap();
        let results: Vec<(Case, Result<(bool, serde_json::Value), Failure>)> = rt.block_on(async {
            let mut out = vec![];
            for chunk in all.chunks(10) {
                let hs: Vec<_> = chunk
                    .iter()
                    .cloned()
                    .map(|c| {
                        tokio::spawn(async move {
                            let r = run_case(&c, 30).await;
                            (c, r)
                        })
                    })
                    .collect();
                for h in hs {
                    if let Ok(x) = h.await {
                        out.push(x);
                    }
                }
            }
            out
        });
        // evidence samples: the interesting kinds first (the shared QUIC connection, then the balancer)
        let mut results = results;
        results.sort_by_key(|(c, _)| match c.kind as usize % NK { 3 => 0, 4 => 1, _ => 2 });
        part.max_samples = 6;
        for (c, r) in results {
            let mut info = CaseInfo::default();
            info.class(KINDS[c.kind as usize % NK]);
            for (p, f) in &c.steps {
                info.class(format!("phase:{:?}", p));
                info.class(if matches!(f, Fault::Freeze(_)) { "fault:freeze-or-stall" } else { "fault:kill-restart" });
            }
            match r {
                Ok((nt, sample)) => {
                    info.nontrivial = nt;
                    if part.samples.len() < 6 {
                        info.sample = Some(sample);
                    }
                    part.account(vcore::digest_json(&c), info);
                }
                Err(f) if f.key == "infrastructure" => {
                    info.inconclusive = true;
                    part.note(format!("infrastructure: {}", f.desc));
                    part.account(vcore::digest_json(&c), info);
                }
                Err(f) => {
                    part.account(vcore::digest_json(&c), info);
                    part.record_failure(f, serde_json::to_value(&c).unwrap());
                }
            }
        }
    }
    fn replay(&self, case: &serde_json::Value) -> Result<(), Failure> {
        let c: Case = serde_json::from_value(case.clone()).map_err(|e| Failure::new("replay-decode", e.to_string()))?;
        let rt = tokio::runtime::Builder::new_multi_thread().worker_threads(4).enable_all().build().unwrap();
        rt.block_on(async { run_case(&c, 30).await.map(|_| ()) })
    }
}

pub fn checks() -> Vec<Box<dyn SubCheck>> {
    let _ = (Dest::name("x", 1), Host::V4([0; 4]));
    vec![Box::new(OutageCheck)]
}
