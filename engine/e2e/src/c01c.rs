//! C01 / C04 — the client-facing TLS (https) and QUIC listeners: byte fidelity and end-of-stream relay for
//! tunnels whose client leg is a TLS stream or a QUIC stream (the socket grid of c01b covers plain TCP).
use crate::net::*;
use crate::tlsutil::*;
use crate::world::*;
use proptest::prelude::*;
use serde::{Deserialize, Serialize};
use serde_json::json;
use std::sync::Arc;
use std::time::Duration;
use tokio::io::{AsyncRead, AsyncReadExt, AsyncWrite, AsyncWriteExt};
use tokio::net::TcpStream;
use vcore::refcodec as rc;
use vcore::refcodec::{Dest, Host};
use vcore::{CaseInfo, Failure, Part, SubCheck};

#[derive(Clone, Debug, Serialize, Deserialize)]
pub struct Spec {
    /// 0 https listener, 1 quic listener
    pub listener: u8,
    /// 0 direct, 1 http->B, 2 quic->B
    pub route: u8,
    pub tag: u64,
    pub c2s_len: u32,
    pub s2c_len: u32,
    pub early: u16,
    pub client_chunk: u32,
    pub origin_chunk: u32,
    /// the client half-closes right after its last byte (else after the origin's EOF)
    pub client_closes_first: bool,
    /// the origin reads nothing for this many ms first (back-pressure through the proxy)
    pub origin_stall_ms: u16,
}

pub const LISTENERS: &[&str] = &["https", "quic"];
pub const ROUTES: &[&str] = &["direct", "http->B", "quic->B"];

pub fn spec_strategy(max: u32) -> impl Strategy<Value = Spec> {
    let len = move || prop_oneof![1 => Just(0u32), 1 => Just(1u32), 2 => prop_oneof![Just(16383u32), Just(16384), Just(16385), Just(65535), Just(65536)], 3 => 1u32..200_000, 2 => (1u32 << 20)..max];
    (
        (0u8..2, 0u8..3, any::<u64>()),
        (len(), len(), prop_oneof![Just(0u16), 1u16..1500]),
        (prop_oneof![Just(0u32), 1u32..100, 1000u32..100_000], prop_oneof![Just(0u32), 1u32..100, 1000u32..100_000]),
        (any::<bool>(), prop_oneof![3 => Just(0u16), 1 => 50u16..800]),
    )
        .prop_map(|((listener, route, tag), (c2s_len, s2c_len, early), (cc, oc), (client_closes_first, origin_stall_ms))| {
            let fix = |chunk: u32, len: u32| if chunk != 0 && len / chunk.max(1) > 5_000 { len / 5_000 + 1 } else { chunk };
            Spec { listener, route, tag, c2s_len, s2c_len, early: early.min(c2s_len as u16), client_chunk: fix(cc, c2s_len), origin_chunk: fix(oc, s2c_len), client_closes_first, origin_stall_ms }
        })
}

pub struct Fx {
    _a: Proxy,
    _b: Proxy,
    https: u16,
    quic: u16,
}

pub async fn fixture() -> Result<Fx, String> {
    let (bh, bq) = (free_port(), free_port());
    let b_yaml = format!(
        "apiVersion: v1\nkind: test\nlisteners:\n  - name: http\n    bind: 127.0.0.1:{}\n  - name: quic\n    bind: 127.0.0.1:{}\n    tls:\n      cert: /verif/pki/server.crt\n      key: /verif/pki/server.key\nconnectors:\n  - name: direct\nrules:\n  - target: direct\n",
        bh, bq
    );
    let b = tokio::task::spawn_blocking(move || Proxy::start("c01c-b", &b_yaml, &[bh], None)).await.map_err(|e| e.to_string())??;
    let (https, quic) = (free_port(), free_port());
    let a_yaml = format!(
        r#"apiVersion: v1
kind: test
listeners:
  - name: https
    type: http
    bind: 127.0.0.1:{https}
    tls:
      cert: /verif/pki/server.crt
      key: /verif/pki/server.key
  - name: quic
    bind: 127.0.0.1:{quic}
    tls:
      cert: /verif/pki/server.crt
      key: /verif/pki/server.key
connectors:
  - name: direct
  - name: uphttp
    type: http
    server: 127.0.0.1
    port: {bh}
  - name: upquic
    type: quic
    server: localhost
    port: {bq}
    bind: "127.0.0.1:0"
    tls:
      ca: /verif/pki/ca.crt
rules:
  - filter: request.target.host == "127.0.1.1"
    target: direct
  - filter: request.target.host == "127.0.1.2"
    target: uphttp
  - filter: request.target.host == "127.0.1.3"
    target: upquic
ioParams:
  bufferSize: 4096
  useSplice: true
"#,
        https = https,
        quic = quic,
        bh = bh,
        bq = bq
    );
    let a = tokio::task::spawn_blocking(move || Proxy::start("c01c-a", &a_yaml, &[https], None)).await.map_err(|e| e.to_string())??;
    Ok(Fx { _a: a, _b: b, https, quic })
}

#[derive(Debug, Default, Serialize)]
pub struct Res {
    established: bool,
    refusal: Option<String>,
    origin_len: usize,
    origin_first_diff: Option<usize>,
    origin_end: String,
    client_len: usize,
    client_first_diff: Option<usize>,
    client_end: String,
}

fn first_diff(got: &[u8], want: &[u8]) -> Option<usize> {
    let n = got.len().min(want.len());
    (0..n).find(|i| got[*i] != want[*i]).or(if got.len() > want.len() { Some(want.len()) } else { None })
}

async fn read_all<R: AsyncRead + Unpin>(r: &mut R, pre: Vec<u8>, budget: Duration) -> (Vec<u8>, &'static str) {
    let mut out = pre;
    let deadline = tokio::time::Instant::now() + budget;
    let mut buf = vec![0u8; 1 << 16];
    loop {
        match tokio::time::timeout_at(deadline, r.read(&mut buf)).await {
            Err(_) => return (out, "timeout"),
            Ok(Err(_)) => return (out, "reset"),
            Ok(Ok(0)) => return (out, "eof"),
            Ok(Ok(n)) => out.extend_from_slice(&buf[..n]),
        }
    }
}

async fn write_chunks<W: AsyncWrite + Unpin>(w: &mut W, data: &[u8], chunk: u32) -> bool {
    let chunk = if chunk == 0 { data.len().max(1) } else { chunk as usize };
    for c in data.chunks(chunk) {
        if w.write_all(c).await.is_err() {
            return false;
        }
    }
    w.flush().await.is_ok()
}

/// drive the client leg over any byte stream pair
async fn client_leg<R, W>(mut r: R, mut w: W, spec: &Spec, target: &Dest, c2s: &[u8], budget: Duration) -> (bool, Option<String>, Vec<u8>, &'static str)
where
    R: AsyncRead + Unpin + Send + 'static,
    W: AsyncWrite + Unpin + Send + 'static,
{
    let t = target.authority();
    let mut head = rc::encode_connect(&t, &[(b"Host".to_vec(), t.clone())]);
    head.extend_from_slice(&c2s[..spec.early as usize]);
    if w.write_all(&head).await.is_err() || w.flush().await.is_err() {
        return (false, Some("write head".into()), vec![], "none");
    }
    let mut buf = vec![];
    let mut tmp = [0u8; 4096];
    let consumed = loop {
        if let Some(h) = rc::parse_http_head(&buf, true) {
            if h.start.1 != b"200" {
                return (false, Some(format!("status {}", String::from_utf8_lossy(&h.start.1))), vec![], "none");
            }
            break h.consumed;
        }
        match tokio::time::timeout(Duration::from_secs(10), r.read(&mut tmp)).await {
            Ok(Ok(n)) if n > 0 => buf.extend_from_slice(&tmp[..n]),
            _ => return (false, Some("no reply".into()), vec![], "none"),
        }
    };
    let leftover = buf[consumed..].to_vec();
    let rest = c2s[spec.early as usize..].to_vec();
    let chunk = spec.client_chunk;
    let first = spec.client_closes_first;
    let (eof_tx, mut eof_rx) = tokio::sync::watch::channel(false);
    let writer = tokio::spawn(async move {
        let ok = write_chunks(&mut w, &rest, chunk).await;
        if ok && !first {
            while !*eof_rx.borrow() {
                if eof_rx.changed().await.is_err() {
                    break;
                }
            }
        }
        let _ = w.shutdown().await;
        // keep the write half until the reader is done so that nothing is torn down early
        while !*eof_rx.borrow() {
            if eof_rx.changed().await.is_err() {
                break;
            }
        }
        w
    });
    let (got, end) = read_all(&mut r, leftover, budget).await;
    let _ = eof_tx.send(true);
    let _ = tokio::time::timeout(Duration::from_secs(5), writer).await;
    (true, None, got, end)
}

pub async fn run_one(fx: &Fx, spec: &Spec) -> Res {
    let budget = Duration::from_secs(40);
    let c2s = vcore::payload(spec.tag, spec.c2s_len as usize);
    let s2c = vcore::payload(spec.tag ^ 0x1357_9bdf_2468_ace0, spec.s2c_len as usize);
    let mut res = Res { origin_end: "none".into(), client_end: "none".into(), ..Default::default() };
    // ---- origin
    let l = match tokio::net::TcpListener::bind("0.0.0.0:0").await {
        Ok(l) => l,
        Err(e) => {
            res.refusal = Some(e.to_string());
            return res;
        }
    };
    let oport = l.local_addr().unwrap().port();
    let s2c_o = s2c.clone();
    let ochunk = spec.origin_chunk;
    let stall = spec.origin_stall_ms;
    let origin_first = !spec.client_closes_first;
    let origin = tokio::spawn(async move {
        let (s, _) = match tokio::time::timeout(Duration::from_secs(15), l.accept()).await {
            Ok(Ok(x)) => x,
            _ => return (vec![], "not-accepted"),
        };
        let (mut r, mut w) = s.into_split();
        let wr = tokio::spawn(async move {
            let _ = write_chunks(&mut w, &s2c_o, ochunk).await;
            if origin_first {
                let _ = w.shutdown().await;
            }
            w
        });
        if stall > 0 {
            tokio::time::sleep(Duration::from_millis(stall as u64)).await;
        }
        let (got, end) = read_all(&mut r, vec![], budget).await;
        // the origin closes its sending direction at the latest after the client's EOF
        if let Ok(Ok(mut w)) = tokio::time::timeout(Duration::from_secs(30), wr).await {
            let _ = w.shutdown().await;
        }
        (got, end)
    });
    let target = Dest { host: Host::V4([127, 0, 1, 1 + spec.route % 3]), port: oport };
    let mut quic_conn: Option<quinn::Connection> = None;
    let (est, refusal, cgot, cend) = if spec.listener % 2 == 0 {
        let tcp = match TcpStream::connect(lo(fx.https)).await {
            Ok(t) => t,
            Err(e) => {
                res.refusal = Some(e.to_string());
                return res;
            }
        };
        let cx = tokio_rustls::TlsConnector::from(client_config("ca.crt", None, None));
        match cx.connect(server_name(), tcp).await {
            Ok(tls) => {
                let (r, w) = tokio::io::split(tls);
                client_leg(r, w, spec, &target, &c2s, budget).await
            }
            Err(e) => (false, Some(format!("tls: {}", e)), vec![], "none"),
        }
    } else {
        let ep = quic_client("ca.crt", None);
        let conn = match ep.connect(lo(fx.quic), "localhost") {
            Ok(c) => tokio::time::timeout(Duration::from_secs(5), c).await,
            Err(e) => {
                res.refusal = Some(e.to_string());
                return res;
            }
        };
        match conn {
            Ok(Ok(conn)) => match conn.open_bi().await {
                Ok((w, r)) => {
                    let out = client_leg(r, w, spec, &target, &c2s, budget).await;
                    // the connection is closed only after the origin has seen the end: closing it earlier would
                    // discard stream data the proxy has acknowledged but not yet read (a harness-made truncation)
                    quic_conn = Some(conn);
                    out
                }
                Err(e) => (false, Some(format!("open_bi: {}", e)), vec![], "none"),
            },
            other => (false, Some(format!("quic connect: {:?}", other.map(|r| r.map(|_| ())))), vec![], "none"),
        }
    };
    res.established = est;
    res.refusal = refusal;
    res.client_len = cgot.len();
    res.client_first_diff = first_diff(&cgot, &s2c);
    res.client_end = cend.into();
    if let Ok(Ok((ogot, oend))) = tokio::time::timeout(Duration::from_secs(45), origin).await {
        res.origin_len = ogot.len();
        res.origin_first_diff = first_diff(&ogot, &c2s);
        res.origin_end = oend.into();
    }
    if let Some(conn) = quic_conn {
        conn.close(0u32.into(), b"");
    }
    res
}

pub struct SecureListeners {
    pub property: &'static str,
}

impl SubCheck for SecureListeners {
    fn property(&self) -> &'static str {
        self.property
    }
    fn name(&self) -> &'static str {
        "secure-listeners"
    }
    fn rule(&self) -> String {
        format!(
            "tunnels whose client leg is a TLS stream (https listener, tokio-rustls client) or a QUIC bidirectional stream (quic listener, quinn client) through a real proxy A to a harness origin via {{direct, http->B, quic->B}} (B a second real proxy): each listener x route once with 300-700 KB per direction (enumerated), then generated cases with 0..4 MiB per direction (lengths around the 16 KiB TLS record and 64 KiB), early data glued to the CONNECT head, write chunking on both sides, an origin that stalls before reading, and either side half-closing first (TLS close_notify / QUIC FIN); oracle: {}; non-trivial = >= 64 KiB in some direction or early data or a proxy hop",
            if self.property == "C01" { "bytes at the origin == bytes the client sent, bytes at the client == bytes the origin sent (no handshake byte inside, none missing)" } else { "both receivers see a clean end of stream after all bytes of their direction (never a reset, never a hang within 40 s), whoever half-closes first" }
        )
    }
    fn run(&self, part: &mut Part) {
        let quick = part.tier == vcore::Tier::Quick;
        let mut specs: Vec<(Spec, &'static str)> = vec![];
        let mut k = part.seed.wrapping_mul(0x9E3779B97F4A7C15) | 1;
        for listener in 0..2u8 {
            for route in 0..3u8 {
                k = k.wrapping_mul(6364136223846793005).wrapping_add(1442695040888963407);
                specs.push((
                    Spec { listener, route, tag: k, c2s_len: 300_000 + (k % 400_000) as u32, s2c_len: 300_001 + ((k >> 20) % 400_000) as u32, early: (k % 1400) as u16, client_chunk: 0, origin_chunk: 0, client_closes_first: k % 2 == 0, origin_stall_ms: 0 },
                    "grid",
                ));
            }
        }
        for s in part.draw("secure", if quick { 30 } else { 1500 }, &spec_strategy(if quick { 2 << 20 } else { 4 << 20 })) {
            specs.push((s, "generated"));
        }
        let rt = tokio::runtime::Builder::new_multi_thread().worker_threads(8).enable_all().build().unwrap();
        let out: Result<Vec<(Spec, &'static str, Res)>, String> = rt.block_on(async {
            let fx = Arc::new(fixture().await?);
            let mut out = vec![];
            for chunk in specs.chunks(6) {
                let hs: Vec<_> = chunk
                    .iter()
                    .cloned()
                    .map(|(s, kind)| {
                        let fx = fx.clone();
                        tokio::spawn(async move {
                            let r = run_one(&fx, &s).await;
                            (s, kind, r)
                        })
                    })
                    .collect();
                for h in hs {
                    if let Ok(x) = h.await {
                        out.push(x);
                    }
                }
            }
            Ok(out)
        });
        let out = match out {
            Ok(o) => o,
            Err(e) => {
                part.note(format!("infrastructure: {}", e));
                part.extra.insert("infrastructure_error".into(), json!(e));
                return;
            }
        };
        for (spec, kind, r) in out {
            let mut info = CaseInfo::default();
            let path = format!("{}->{}", LISTENERS[spec.listener as usize % 2], ROUTES[spec.route as usize % 3]);
            info.class(kind);
            info.class(path.clone());
            info.nontrivial = spec.c2s_len.max(spec.s2c_len) >= 65536 || spec.early > 0 || spec.route % 3 > 0;
            if part.samples.len() < 3 {
                info.sample = Some(json!({"spec": spec, "result": r}));
            }
            part.account(vcore::digest_json(&spec), info);
            let case = serde_json::to_value(&spec).unwrap();
            if !r.established {
                part.record_failure(Failure::new(format!("not-established:{}", path), format!("{}: the tunnel was not established: {:?}", path, r.refusal)), case);
                continue;
            }
            let v = if self.property == "C01" {
                if r.origin_first_diff.is_some() {
                    Err(Failure::new(format!("c2s-corrupted:{}", path), format!("{}: bytes at the origin differ from what the client sent at offset {:?} (got {} of {})", path, r.origin_first_diff, r.origin_len, spec.c2s_len)))
                } else if r.client_first_diff.is_some() {
                    Err(Failure::new(format!("s2c-corrupted:{}", path), format!("{}: bytes at the client differ from what the origin sent at offset {:?} (got {} of {})", path, r.client_first_diff, r.client_len, spec.s2c_len)))
                } else if r.origin_len != spec.c2s_len as usize && r.origin_end != "timeout" {
                    Err(Failure::new(format!("c2s-truncated:{}", path), format!("{}: the origin received {} of {} bytes (then {})", path, r.origin_len, spec.c2s_len, r.origin_end)))
                } else if r.client_len != spec.s2c_len as usize && r.client_end != "timeout" {
                    Err(Failure::new(format!("s2c-truncated:{}", path), format!("{}: the client received {} of {} bytes (then {})", path, r.client_len, spec.s2c_len, r.client_end)))
                } else if r.origin_end == "timeout" || r.client_end == "timeout" {
                    Err(Failure::new(format!("stalled:{}", path), format!("{}: after 40 s the origin has {} of {} bytes ({}), the client {} of {} ({})", path, r.origin_len, spec.c2s_len, r.origin_end, r.client_len, spec.s2c_len, r.client_end)))
                } else {
                    Ok(())
                }
            } else if r.origin_end != "eof" || r.client_end != "eof" {
                Err(Failure::new(
                    format!("end-not-relayed:{}:{}:{}", path, if spec.client_closes_first { "client-first" } else { "origin-first" }, if r.origin_end != "eof" { format!("origin-{}", r.origin_end) } else { format!("client-{}", r.client_end) }),
                    format!("{}: both sides closed cleanly ({} half-closes first) but the origin saw '{}' after {} of {} bytes and the client saw '{}' after {} of {} bytes", path, if spec.client_closes_first { "client" } else { "origin" }, r.origin_end, r.origin_len, spec.c2s_len, r.client_end, r.client_len, spec.s2c_len),
                ))
            } else if r.origin_len != spec.c2s_len as usize || r.client_len != spec.s2c_len as usize {
                Err(Failure::new(format!("eof-before-all-bytes:{}", path), format!("{}: EOF arrived after {}/{} c2s and {}/{} s2c bytes", path, r.origin_len, spec.c2s_len, r.client_len, spec.s2c_len)))
            } else {
                Ok(())
            };
            if let Err(f) = v {
                part.record_failure(f, case);
            }
        }
    }
    fn replay(&self, case: &serde_json::Value) -> Result<(), Failure> {
        let spec: Spec = serde_json::from_value(case.clone()).map_err(|e| Failure::new("replay-decode", e.to_string()))?;
        let rt = tokio::runtime::Builder::new_multi_thread().worker_threads(4).enable_all().build().unwrap();
        let r = rt.block_on(async {
            let fx = fixture().await.map_err(|e| Failure::new("infrastructure", e))?;
            Ok::<_, Failure>(run_one(&fx, &spec).await)
        })?;
        let ok = r.established && r.origin_end == "eof" && r.client_end == "eof" && r.origin_len == spec.c2s_len as usize && r.client_len == spec.s2c_len as usize && r.origin_first_diff.is_none() && r.client_first_diff.is_none();
        if ok {
            Ok(())
        } else {
            Err(Failure::new("secure-listener-replay", format!("{:?}", r)))
        }
    }
}

pub fn checks() -> Vec<Box<dyn SubCheck>> {
    vec![Box::new(SecureListeners { property: "C01" }), Box::new(SecureListeners { property: "C04" })]
}
