#!/usr/bin/env python3
"""Regenerates MANIFEST.json from the table below (kept as code so that it stays consistent)."""
import json

TITLES = {l['id']: l['title'] for l in map(json.loads, open('/verif/properties.jsonl'))}

# id -> (engine, category, level text, level note, technique, design_ref)
CLAIMED = {
 "C11": ("vp-inproc", "exploration",
   "Model-based property testing of the real Fragments/MakeFragments code: exhaustive (total,seq) header sweep (65536 headers x 4 prior states), exhaustive permutations of <=5 (quick) / <=6 (thorough) fragments with every single duplicate, 65540-frame id wrap-around run, a real-clock id-reuse-vs-timer scenario, and 6 000 (quick) / 300 000 (thorough) generated multi-epoch schedules (reordering, duplicates, drops, malformed datagrams, expiry, id reuse) compared with an independent reference reassembler byte for byte. Sampled beyond the enumerated parts; absence of a counterexample is not a proof.",
   "Trusted: the harness' reference reassembler and refcodec::split_fragments; tokio/bytes; the stale-timer scenario uses the wall clock with a guard (inconclusive instead of failing when the host stalls).",
   "proptest model-based search + bounded-exhaustive enumeration vs reference reassembler", "§3 C11"),
 "C12": ("vp-inproc", "exploration",
   "Differential + reference-checked property testing of the real readers (HttpRequest/HttpResponse::read_from, SocksRequest::read_from incl. the SOCKS5 negotiation, SocksResponse::read_from, the RPFM StreamFrameReader): for generated valid messages from independent encoders, every explored segmentation (byte-at-a-time, a cut inside every field, generated cut sets, all 2^(n-1) cut sets for inputs <= 12 bytes) must give the same parsed message, the same reply bytes and leave exactly the trailing payload unread, and must agree with the encoded fields; every truncation point of 300 (quick) / 6 000 (thorough) messages must give no message. 2 500 / 150 000 generated cases. Thorough tier only: a coverage-guided libFuzzer campaign (8 forks x 600 s) over all 14 decoder drivers whose in-target oracle is whole-versus-segmented outcome equality.",
   "Trusted: refcodec encoders (written from the RFCs / the frame comment), tokio's in-memory duplex as the segment carrier (a yield between segments lets the reader observe each boundary).",
   "proptest differential (whole vs segmented) + round-trip against reference encoders + exhaustive cut sets for short inputs; libFuzzer differential campaign in the thorough tier", "§3 C12"),
 "C03": ("vp-inproc", "exploration",
   "Round-trip / composition testing of the real codecs against independent reference encoders and parsers: a destination from 30 hostile host classes (or an IP) is reference-encoded for an inbound protocol, read by the real reader, handed to the real writer of an outbound protocol (real h11c_connect, SocksRequest::write_to, encode_socks_frame, Frame::make_header / StreamFrameWriter / Fragmentable buffer) and the bytes on the wire are reference-parsed: refusal, or exactly one well-formed message naming the same destination with no residue / extra header. 60 000 (quick) / 600 000 (thorough) cases over all 54 (inbound, outbound) pairs.",
   "Trusted: refcodec (RFC 1928/1929, SOCKS4/4a memos, RFC 7230 head syntax, the RPFM comment); canon() treats a name that is an IP literal as that address; per RFC 7230 §3.5 no whitespace is generated inside an inbound CONNECT target.",
   "proptest round-trip through reference encoder -> real reader -> real writer -> reference parser", "§3 C03"),
 "C05": ("both", "exploration",
   "(a) In-process decoder sweep: every peer-facing decoder incl. the listener- and connector-side handshakes is fed arbitrary bytes and mutated valid messages under generated segmentations, then EOF; exhaustive (total,seq) header sweep and 0-3 byte datagrams; arbitrary datagram sequences; make_fragments for every MTU 0..65535. Oracle: no panic under dev-profile checks (the shipped profiles abort on panic), termination. (b) 48 (quick) / 1 600 (thorough) sequences of 6-17 hostile sessions against one real proxy: mutated valid messages to every TCP listener, on QUIC streams, as datagrams to the SOCKS5 UDP relay / reverse-UDP / QUIC ports, as QUIC datagrams with and without a session, and as upstream replies for every connector kind; after every session the process must run, fresh HTTP / SOCKS5 / QUIC CONNECTs must relay and the API must answer. Thorough tier only: a coverage-guided libFuzzer campaign (8 forks x 600 s) over the same 14 decoder drivers, seeded with ~1 500 valid messages, oracle = no panic / termination.",
   "Trusted: panic capture via catch_unwind in a harness built with panic=unwind over the same sources; dev-profile overflow checks are at least as strict as the release profile; (b) 4 s liveness bounds.",
   "proptest mutation fuzzing of valid messages + exhaustive header/MTU enumeration (in-process) + generated hostile session sequences against the real process + libFuzzer campaign in the thorough tier, oracle = no panic / termination / liveness afterwards", "§3 C05"),
 "C09": ("vp-inproc", "exploration",
   "The README operator table is transcribed into data; every operator/spelling alone, every expression tree with 2 operator nodes (exhaustive, 2142 trees) and a seeded sample of 8 000 (quick) / all ~170 000 (thorough) trees with 3 operator nodes, plus 2 500 / 400 000 random deeper trees with literals, arrays, tuples, templates, let/if/?:, are printed (i) with only the parentheses the table makes necessary and (ii) fully parenthesised, and with generated blank/comment filler at every token boundary; each rendering must parse to the tree built directly from the builtin constructors.",
   "Trusted: my transcription of the table and the 'necessary parentheses' rule (child parenthesised iff lower precedence, or equal precedence on the non-associative side; different precedence-0 constructs in tail position are always parenthesised because the table does not order them); comments after the last token are not generated (not 'between tokens').",
   "bounded-exhaustive enumeration + proptest random trees, oracle = tree built from constructors per the documented table", "§3 C09"),
 "C08": ("vp-inproc", "exploration",
   "Type-directed program generation against an independent reference interpreter: 100 000 (quick) / 3 000 000 (thorough) generated expressions (25% ill-typed by construction, incl. type errors hidden behind the empty array's element type) plus a bounded-exhaustive layer (every binary operator x 18 x 18 leaves of all types, unary, index, tuple access, calls, ?:/if; depth 2 over 7 leaves) are parsed, type-checked exactly as the filter / hashBy / log-format loaders do, and - if accepted - evaluated in the real rule environment (create_context over generated request attributes). Accepted => no panic, result of the accepted type, equal to the reference value where the documentation defines one, or a dynamic error (division by zero, overflow, index, regex, non-numeric) that some evaluated sub-term can produce; && / || / if / ?: must not evaluate the operand they skip. Thorough tier only: a coverage-guided libFuzzer campaign (8 forks x 600 s, token dictionary, 1 500 generated seed programs) over arbitrary source text with the reference-free core of the oracle (no panic; accepted => value of the declared type or a documented dynamic error).",
   "Trusted: the reference semantics of DESIGN.md Appendix A (deliberately agnostic where the documentation is silent: overflow may wrap or error, negative indexes may count from the end, to_string of a string is judged for type only); error classes are recognised by message text; the parser's documented nesting limit (16) is tolerated.",
   "proptest type-directed generation + bounded-exhaustive enumeration vs reference interpreter (differential); libFuzzer campaign over source text in the thorough tier", "§3 C08, Appendix A"),
 "C02": ("both", "exploration",
   "Model check of the real process_request over generated rule lists x requests x connector feature sets (20 000 quick / 400 000 thorough): each filter has an independent reference evaluation (error => no match); exactly the predicted connector's connect() must run once and be recorded, or none at all with on_error only (deny / no rule / feature missing). cidr_match is compared with own mask arithmetic for all prefix lengths at the network boundaries (30 000 / 1 000 000). End-to-end: 400 (quick) / 12 000 (thorough) generated rule lists installed with POST /api/rules on real proxies, 3 probes each (HTTP CONNECT, SOCKS5, SOCKS4/4a, reverse listener, SOCKS5 UDP ASSOCIATE) from harness-bound source ports with a marked payload pipelined behind the handshake: the reference connector serves (identified by the address the origin sees), exactly one upstream connection carries exactly the payload; on deny / no rule / unsupported feature no origin or upstream accepts anything and the payload appears nowhere; filters over request.source / request.listener name the real socket values of probe i.",
   "Trusted: the reference interpreter shared with C08 (restricted here to atoms inside its defined fragment), harness connectors that record calls.",
   "proptest model-based: reference decision procedure vs real process_request; boundary-value cidr law", "§3 C02"),
 "C17": ("vp-inproc", "exploration",
   "The real LoadBalanceConnector is built from generated YAML and driven through the real process_request: round robin sequentially (every window of n selections covers every member) and concurrently from 2-8 tasks on a 4-thread runtime (exact counts), hash-by stickiness against reference key evaluation over 10 key expressions, random coverage (400*n draws), non-member decoy never used, recorded connector == member that ran. 1 500 / 40 000 configurations. Concurrent round robin is stress on a real multi-thread runtime, not schedule enumeration.",
   "Trusted: reference key evaluation (C08 interpreter); recording members. The random law has a false-alarm probability below 1e-20 per case.",
   "proptest stateful sequences + multi-thread stress, oracle = counting / grouping invariants", "§3 C17"),
 "C01": ("both", "exploration",
   "Part (a) of the design, the buffered relay path under an owned schedule: 1 500 (quick) / 40 000 (thorough) generated cases of 1-3 concurrent tunnels through the real create_context, h11c_handshake, process_request, rules, h11c_connect and copy_bidi on one current-thread runtime, with payloads up to 1 MiB, early data on both sides, per-poll I/O schedules down to one byte, pipe capacities from 1 byte (back-pressure) and bufferSize from 1 to 65536; bytes at each far end must equal the bytes sent. (b) end-to-end on real sockets: two real proxies (useSplice true / false) in front of a third; every listener {http, socks5, socks4, reverse} x upstream {direct, http->B, socks5->B, socks4->B, load-balanced, https->B over TLS, quic->B over a QUIC stream} pairing once per I/O mode, directed 8-16 MiB back-pressure cases and 40 (quick) / 1 200 (thorough) generated schedules (early data, chunking, stalled readers, half-close / RST), each run against both I/O modes. TLS and QUIC are exercised as upstream hops; TLS / QUIC *listeners* carry payload only in the C07 / C05 / C10 fixtures, not in this grid.",
   "Trusted: tokio's in-memory duplex and the Scripted wrapper as carriers; the harness peers are full-duplex; a virtual clock turns a wedge into a verdict, a non-blocking spin is caught by a 120 s wall-clock watchdog and reported as inconclusive (exit 2).",
   "proptest over generated I/O schedules (in-process) + enumerated pairing grid and generated schedules on real sockets, oracle = byte-for-byte equality with keyed PRNG payloads", "§3 C01"),
 "C04": ("both", "exploration",
   "Part (a): the same generated tunnel cases with eager / reactive half-closes on either side and injected read/write errors at generated offsets; each receiver must see EOF only after every byte, the opposite direction must still deliver everything, both write halves must be shut down and the context must end Terminated; after a fault both far ends must be released. (b) on real sockets, the same generated tunnel (FIN / close-after-peer-EOF / RST at a generated offset, data in flight, stalled consumers) is run against a useSplice=true and a useSplice=false proxy at the same time: EOF only after all bytes, both ends released within 8 s of both senders being done (a hang shows as a timeout at the 25-60 s budget), a clean close never becomes a reset, and identical observable summaries in both I/O modes.",
   "Trusted: as C01; 'promptly' is decided by the virtual clock (every task blocked = wedge), not by wall time.",
   "proptest over close/fault schedules (in-process) + differential splice-on/off runs on real sockets, oracle = history invariant on EOF ordering and end kinds", "§3 C04"),
 "C06": ("vp-e2e", "fault_enumeration",
   "Enumerated grid against one real proxy process with fake upstream proxies: 6 client protocols x {direct reachable/refused, deny, no rule, unsupported feature, bad command, 10 HTTP-upstream reply scripts, 16 SOCKS5-upstream scripts, 6 SOCKS4-upstream scripts} x {waits, pipelines, half-closes}: 529 cases (quick, one pass) / 6 passes with fresh payload tags (thorough). The raw bytes the client receives are reference-parsed: success iff (and not before) the upstream granted, then an exact echo round trip; otherwise exactly one complete failure reply (HTTP body length == Content-Length) and EOF; no origin connection on refusal.",
   "Trusted: refcodec parsers; harness-side fake upstreams and origin; 15 s per-step I/O deadlines (a miss is reported as a missing reply).",
   "enumerated outcome grid + reference parsing of raw client bytes", "§3 C06"),
 "C13": ("vp-e2e", "exploration",
   "Five real proxy instances with different timeouts sections, six tunnel kinds, seven traffic patterns incl. half-closed-then-silent tunnels (76 cases quick, ~250 thorough, all cases of an instance in parallel): /api/live must show the configured idle_timeout for the tunnel kind; with T in 1..3 s the tunnel must be closed between T-0.1 s and T+2.5 s after the last byte and never during a trickle with period 0.6 T; with 0 or 600 it must still be open after 4 s.",
   "Trusted: wall clock of the sandbox; an upper-bound miss while the harness heartbeat detected a host stall (> 0.6 s) is counted inconclusive, lower bounds and the wiring check have no such dependence.",
   "generated traffic patterns against real processes, oracle = timing bounds + configuration wiring read from the API", "§3 C13"),
 "C16": ("both", "exploration",
   "Part (b): the generated in-process tunnel cases judged for accounting: lifecycle state log with exactly one terminal state (ErrorOccured + text after a fault), per-direction byte counters equal to the relayed payload including early data, recorded connector, live-table membership. (a) end-to-end: 16 (quick) / 400 (thorough) generated mixes of up to 39 connections of ten outcome kinds on a fresh real proxy (history size 0/1/3/50, splice on/off, log rotation at generated points, unique source ports): exactly one JSON access-log record per accepted connection across all files, lifecycle-conformant state log, truthful listener / target / connector / counters, /api/live membership, bounded newest-first /api/history.",
   "Trusted: the record is read from the collector list that Context::drop feeds (the same data the access log and /api/history receive).",
   "proptest over tunnel histories (in-process) + generated connection mixes against real processes, oracle = exactly-once accounting, lifecycle regular expression, counter equality", "§3 C16"),
 "C14": ("vp-e2e", "fault_enumeration",
   "Generated stall schedules, each on a fresh real proxy (40 quick / 600 thorough): clients stalled after k bytes of a valid HTTP / SOCKS5 / SOCKS4 / SOCKS5+userpass handshake (k over every offset), requests routed to an http / socks5 / socks4 / quic connector whose upstream goes silent after a strict prefix of its reply, a chatty reverse-UDP client whose session hangs on such an upstream, a QUIC client that goes silent after its first handshake packet, a TLS client stalled inside its ClientHello, tunnels blocked on a consumer that never reads, then API calls (status, live, history, rules GET/POST, metrics, logrotate) issued concurrently with fresh echo tunnels through every listener (http, socks5, socks4, reverse TCP, reverse UDP, QUIC, https); everything must complete within 6 s (control phase < 1.5 s, else inconclusive). The hazard is a persistent state (a lock held while a client is silent), so once the stall set is installed a blocking defect shows deterministically.",
   "Trusted: wall-clock bound of 6 s against a control of milliseconds; TLS stalls are a strict prefix of a ClientHello record; QUIC handshake stalls let one or two packets of a real handshake through a dropping relay.",
   "generated fault schedules (stall points x API interleavings) against real processes, oracle = bounded completion", "§3 C14"),
 "C15": ("both", "exploration",
   "(a) 120 (quick) / 4 000 (thorough) model-based API histories on real proxies: valid and single-defect rule lists (8 defect kinds at generated positions), GET, GET-then-POST-back and probes whose serving connector is identified by the address the origin sees; the model is the list in force. (b) in-process stress of set_rules against concurrent process_request on a 6-thread runtime with two lists whose every mixture is detectable (6 x 2 000 flips quick, 200 x 2 000 thorough). (b) is stress, not schedule enumeration.",
   "Trusted: the reference decision procedure over the atom grammar; origin-side peer address as connector identity.",
   "proptest-generated stateful histories vs a list model + multi-thread stress with detectable mixtures", "§3 C15"),
 "C19": ("vp-e2e", "fault_enumeration",
   "Fault sequences against real processes: proxy A routes through an upstream that the harness kills (SIGKILL, restart on the same ports after 0-5 s) or freezes (SIGSTOP/SIGCONT): a second real redproxy for the http, socks5, socks4, quic and load-balanced connectors, the origin itself for the direct connector, and harness-implemented HTTP-CONNECT / SOCKS5 upstreams that stall inside the upstream handshake and then die with RST. Phases: idle without prior traffic, idle after traffic (cached QUIC connection), tunnel open mid-transfer, request started during the outage; two outages per sequence (quick: 16 sequences; thorough: + 12 generated sequences of 1-4 outages per kind). A reference echo tunnel through another connector runs a round trip every 150 ms during the whole sequence.",
   "Trusted: the bounds are a reading of 'small bounded number of attempts and bounded time': 45 s for a request during the outage to fail, 10 s for an open tunnel to close, recovery within 30 probes 1.5 s apart, 2.5 s worst reference round trip. Blackhole (packet drop) faults are not generated.",
   "generated fault sequences (fault x phase x connector kind) against real processes, oracle = bounded recovery + clean failure + isolation of a reference tunnel", "§3 C19"),
 "C18": ("vp-inproc", "exploration",
   "(a) 4 000 (quick) / 300 000 (thorough) configuration documents obtained from three bases by tree mutations (delete / retype / duplicate / randomise / rename, targeted path and address replacement), generated load-balancer member graphs and generated scripts as filter / hashBy / log format are run through main()'s loading sequence on the real functions: Ok or an error with a message within 30 s, never a panic. (b) 220 / 6 000 of the same documents on the real binary: `redproxy-rs -t` must exit 0 or with a message (no signal, no panic); every accepted document is started for real and receives traffic on every listener by kind plus API GETs: alive afterwards, no task panicked, every listener still accepts. (c) 500 / 30 000 generated bodies to POST /api/rules of a running real proxy (rule lists with generated / hostile / chain filters and mistyped fields, other JSON shapes, raw bytes, truncations), each followed by a request that evaluates the rules in force: an HTTP status, process alive, API answers. (d) a ladder of 37 syntactic constructs x 11 (20) sizes up to 16 384 (262 144), via -t and via POST: accepted or rejected in bounded time, never a crash.",
   "Trusted: the re-enactment of main() in the harness for (a) (kept line-for-line; (b) runs the real main); access-log paths are redirected into the scratch directory; stack depth is that of the dev-profile binary (2 MB worker threads), the deepest configuration in use.",
   "proptest structural mutation fuzzing of configuration trees and JSON bodies against the loader and the real binary + bounded enumeration of a size ladder, oracle = Ok/Err with message, no panic / signal, liveness after traffic", "§3 C18"),
 "C10": ("vp-e2e", "exploration",
   "Two real proxies (A in front of B): all 3 x 5 UDP listener x upstream pairings (SOCKS5 UDP ASSOCIATE with enforceUdpClient off/on, reverse-UDP, HTTP CONNECT with inline RPFM frames) x (direct, socks5->B, http->B, QUIC datagrams->B, QUIC inline->B) once each, then 30 (quick) / 700 (thorough) generated cases of 1-5 interleaved sessions sending datagrams of 0..65000 bytes to three tagging echo origins, incl. clients that vanish while a reply is in flight and bursts of up to six datagrams sent back to back (inline: in one write); every datagram must reach the addressed origin exactly once unmodified (also the first of a session and multi-fragment ones), every reply must return to the owning client labelled with the replying origin, and no origin may receive a datagram nobody sent.",
   "Trusted: loopback does not lose or reorder datagrams at the pacing used (one outstanding datagram per session); refcodec for the SOCKS5-UDP header and RPFM frames. TPROXY UDP is not set up. In this sandbox an ICMP port-unreachable is not delivered to the proxy's connected session socket, so the receive-error path of UdpFrameReader is not reachable.",
   "stateful generated sessions against real processes, oracle = multiset equality of datagrams per origin + reply labelling", "§3 C10"),
 "C07": ("both", "fault_enumeration",
   "(a) in-process: 20 000 / 600 000 generated SOCKS negotiations (method offers incl. both orders, duplicates, 255 arbitrary methods; credential near-misses; SOCKS4 ids; byte-wise delivery) against the real SocksRequest::read_from + AuthData::check with a positive control, and 40 / 800 real-clock histories against the external-command verdict cache (1 s timeout, or 0 = disabled; similar names/passwords) where every verdict must be justified by a call for exactly that pair or a fresh cached verdict for the identical pair. (b) end-to-end, enumerated in full: 36 listener cells (http/socks/quic x client-cert policy x presented certificate), 48 connector cells (http/socks/quic x insecure x ca x upstream certificate valid/foreign/wrong-name/expired against harness TLS and QUIC upstreams) and 60 SOCKS credential cases through the real listener with smuggled payload.",
   "Trusted: the openssl-generated test PKI; rustls/quinn in the harness as the peer implementation; guard bands of 0.3 s around the 1 s cache timeout.",
   "enumerated credential/certificate matrices + proptest negotiation cases + model-based cache histories", "§3 C07"),
}

NOT_YET = "check not built yet in this session (see DESIGN.md §6 build order); will be claimed once its generator and oracle exist"

def main():
    checks = []
    for pid in sorted(CLAIMED):
        eng, cat, text, note, tech, ref = CLAIMED[pid]
        eng = "vp-inproc + vp-e2e" if eng == "both" else eng
        checks.append({
            "property_id": pid,
            "quick_cmd": "./check %s quick" % pid,
            "thorough_cmd": "./check %s thorough" % pid,
            "evidence_file": "/verif/evidence/%s.json" % pid,
            "replay_cmd_template": "./check %s --replay {path}" % pid,
            "engine": eng,
            "level_claimed": {"category": cat, "text": text, "design_ref": ref},
            "level_note": note,
            "technique": tech,
        })
    na = [{"property_id": pid, "reason": NOT_YET} for pid in sorted(TITLES) if pid not in CLAIMED]
    m = {
        "version": 1,
        "setup_cmd": "./setup.sh",
        "hooks": {
            "guard": "redproxy_verif",
            "enable": "no hooks: the in-process engine re-roots /repo/src/main.rs into its own crate (engine/inproc/build.rs), the end-to-end engine drives the unmodified binary",
            "baseline_off_cmd": "cd /repo && cargo test --workspace --no-fail-fast --offline",
            "source_commits": [],
            "add_only": True,
        },
        "engines": [
            {"name": "vp-inproc", "path": "engine/inproc", "serves_properties": sorted(p for p in CLAIMED if CLAIMED[p][0] in ("vp-inproc", "both")),
             "kind_free_text": "proptest / bounded-exhaustive checks over the real sources re-rooted into the harness crate (scripted in-memory I/O, panic capture)"},
            {"name": "vp-e2e", "path": "engine/e2e", "serves_properties": sorted(p for p in CLAIMED if CLAIMED[p][0] in ("vp-e2e", "both")),
             "kind_free_text": "generated end-to-end scenarios against the dev-profile binary built from /repo over loopback sockets"},
        ],
        "checks": checks,
        "not_applicable": na,
        "notes": "All checks: ./check <ID> quick|thorough, replay with ./check <ID> --replay <file>. Exit 2 = inconclusive/infrastructure, never a verdict. Known findings and repaired defects: KNOWN_FINDINGS.txt.",
    }
    json.dump(m, open('/verif/MANIFEST.json', 'w'), indent=1)
    print("claimed:", sorted(CLAIMED), "not claimed:", [x["property_id"] for x in na])

if __name__ == "__main__":
    main()
